"""C19 (RDB part) — the relational heartbeat model `Model/RdbHeartbeat.lean` against the real `RDBStorage` on SQLite.

translate:  verif/translators/tstale.py re-emits Generated/StaleGen.lean (staleness test, query filter, grace default, the
            sweep's handling of the compare-and-set answers, the retry arithmetic of RetryFailedTrialCallback);
            T-rdbcodec / T-best re-emit what Model/RdbLogic.lean is built on.
prove:      Props/C19Rdb.lean (built by `chk.prove([... , "OptunaVerif.Props.C19Rdb"])` in c19.py).
correspond: `correspond(chk, tier)`.  One SQLite file, an observer `RDBStorage` and 1-3 worker `RDBStorage` objects with
            `heartbeat_interval` / `grace_period` / `RetryFailedTrialCallback`.  The database clock is virtual: every
            `CURRENT_TIMESTAMP` in the SQL text is replaced (SQLAlchemy `before_cursor_execute`, harness-side) by the
            harness's clock, microsecond resolution, so ages of exactly grace, grace +- 1 us, grace +- 1 s, more than a
            day and negative ones (clock skew) are exact; heartbeat rows are back-dated through SQL.  A few cases run on
            the real SQLite clock with ages well away from the boundary.
            Every storage call (by anybody), every `record_heartbeat`, every tick and EVERY STORAGE CALL INSIDE the real
            `fail_stale_trials` (`_get_stale_trial_ids`, `set_trial_state_values`, `get_trial`, `create_new_trial`) is
            mirrored as one step of the Lean model (`driver rdbheartbeat`); between two storage calls of a sweep other
            actors may act (finish / beat / attribute writes / a whole sweep of another worker) and a worker may die.
            After every step: the answer, all eleven tables incl. the `heartbeat` column (us), the ids the stale query
            returned, who won / lost each compare-and-set, each callback invocation (trial number, retried or gave up),
            each enqueued retry template field by field in dict order, the new trial id.
observe:    the property itself on the database, independent of the model (`Oracle`): a stale read returns exactly the
            RUNNING trials of the study with a heartbeat row older than the grace period (integer arithmetic on the rows
            and the harness clock); after an undisturbed sweep every such trial is finished, rows of all other trials
            are unchanged; a callback per trial at most once and only for a trial the sweep itself failed; a retry is
            WAITING, carries the failed trial's params / distributions / user attrs / system attrs, `retry_history` =
            the failed trial's history + its number, `failed_trial` = the head of the chain, chain length <= max_retry.
A model/code difference is `broke("correspondence")`; an `Oracle` failure is `chk.violation`.
"""
from __future__ import annotations

import datetime
import json
import os
import random
import shutil
import time
import warnings
from typing import Any

import optuna
import sqlalchemy
from optuna.distributions import CategoricalDistribution, FloatDistribution, IntDistribution, distribution_to_json
from optuna.exceptions import UpdateFinishedTrialError
from optuna.storages import RDBStorage, RetryFailedTrialCallback
from optuna.storages._heartbeat import fail_stale_trials
from optuna.trial import TrialState

from verif import core
from verif import storage_k as K
from verif.props import c01_rdb
from verif.translators import tstale

optuna.logging.set_verbosity(optuna.logging.ERROR)
warnings.simplefilter("ignore")

RULE_RDB = ("c19_rdb: a case = (storage parameters: heartbeat_interval, grace_period incl. None, max_retry incl. None / 0 / negative, "
            "inherit_intermediate_values, callback or none; 1-3 workers; a seeded script of storage calls, heartbeats, back-dated "
            "/ forward-dated heartbeat rows with ages at the boundary, ticks, sweeps with interleaved actors and deaths); "
            "non-trivial = some sweep failed a trial and some RUNNING trial with a heartbeat row was left alone, or a "
            "compare-and-set was lost, or a worker died inside a sweep, or a chain reached depth >= 2")
EPOCH = datetime.datetime(2030, 1, 1)
US = datetime.timedelta(microseconds=1)
DAY = 86400 * 10**6
SWEEP_CALLS = ("_get_stale_trial_ids", "set_trial_state_values", "get_trial", "create_new_trial")
DISTS = {
    "x": FloatDistribution(0.0, 1.0),
    "lx": FloatDistribution(1e-3, 1.0, log=True),
    "n": IntDistribution(0, 10),
    "c": CategoricalDistribution(["a", "b", "c"]),
}


def skey(x: Any) -> Any:
    return (1, str(x)) if isinstance(x, str) else (0, x)


def dt_of(us: int) -> datetime.datetime:
    return EPOCH + us * US


def us_of(text: Any) -> int:
    d = text if isinstance(text, datetime.datetime) else datetime.datetime.fromisoformat(str(text))
    return (d - EPOCH) // US


def fmt(us: int) -> str:
    return dt_of(us).strftime("%Y-%m-%d %H:%M:%S.%f")


class Killed(BaseException):
    """unwinds a worker that dies inside its sweep (never caught by optuna)"""


class Mismatch(Exception):
    pass


class Clock:
    def __init__(self, now: int, virtual: bool) -> None:
        self.now, self.virtual = now, virtual


_TEMPLATE: dict[str, str] = {}


def fresh_db(tmp: str, tag: str) -> str:
    if tmp not in _TEMPLATE:
        path = os.path.join(tmp, "c19rdb_template_%d.sqlite3" % os.getpid())
        st = RDBStorage("sqlite:///" + path)
        st.remove_session()
        st.engine.dispose()
        _TEMPLATE[tmp] = path
    path = os.path.join(tmp, "c19rdb_%d_%s.sqlite3" % (os.getpid(), tag))
    shutil.copy(_TEMPLATE[tmp], path)
    return path


def open_rdb(url: str, clock: Clock, **kw: Any) -> RDBStorage:
    st = RDBStorage(url, engine_kwargs={"connect_args": {"timeout": 30}}, skip_compatibility_check=True, skip_table_creation=True, **kw)

    @sqlalchemy.event.listens_for(st.engine, "connect")
    def _pragmas(dbapi_conn: Any, _rec: Any) -> None:
        c = dbapi_conn.cursor()
        c.execute("PRAGMA synchronous=OFF")
        c.execute("PRAGMA journal_mode=MEMORY")
        c.close()

    if clock.virtual:
        @sqlalchemy.event.listens_for(st.engine, "before_cursor_execute", retval=True)
        def _virtual_now(conn: Any, cursor: Any, statement: str, parameters: Any, context: Any, executemany: Any) -> Any:
            if "CURRENT_TIMESTAMP" in statement:
                statement = statement.replace("CURRENT_TIMESTAMP", "'%s'" % fmt(clock.now))
            return statement, parameters

    st.engine.dispose()
    return st


class HbTables(c01_rdb.Tables):
    """all eleven tables, canonical ids; `trial_heartbeats` rows carry the heartbeat column in us"""

    def raw(self) -> dict[str, list[tuple]]:
        self.last_raw = super().raw()
        return self.last_raw

    def canon(self) -> dict[str, list[list[Any]]]:
        out = super().canon()
        m = self.maps["trial_heartbeats"]
        stamp = {m[r[0]]: us_of(r[2]) for r in self.last_raw["trial_heartbeats"]}
        out["trial_heartbeats"] = [row + [stamp[row[0]]] for row in out["trial_heartbeats"]]
        return out


class CountingCallback:
    """pass-through around the real RetryFailedTrialCallback: records every invocation and whether it enqueued"""

    def __init__(self, inner: Any, worker: "Worker") -> None:
        self.inner, self.worker = inner, worker

    def __call__(self, study: Any, trial: Any) -> None:
        rec = {"number": trial.number, "retry": False, "study": study._study_id}
        self.worker.cb_log.append(rec)
        self.worker.cur_cb = rec
        try:
            self.inner(study, trial)
        finally:
            self.worker.cur_cb = None


class Worker:
    def __init__(self, idx: int) -> None:
        self.idx = idx
        self.storage: Any = None
        self.study: Any = None
        self.dead = False
        self.busy = False
        self.cb_log: list[dict[str, Any]] = []
        self.cur_cb: dict[str, Any] | None = None
        self.hook: Any = None

    def wrap(self) -> None:
        for name in SWEEP_CALLS:
            orig = getattr(self.storage, name)

            def f(*a: Any, _orig: Any = orig, _name: str = name, **kw: Any) -> Any:
                if self.hook is None:
                    return _orig(*a, **kw)
                return self.hook(_name, _orig, a, kw)

            setattr(self.storage, name, f)


def canon_template(t: Any) -> dict[str, Any]:
    return {
        "state": t.state.value,
        "values": None if t.values is None else [K.ftok(v) for v in t.values],
        "params": [[n, {"internal": K.ftok(t.distributions[n].to_internal_repr(v)), "body": K.dist_body(t.distributions[n])}] for n, v in t.params.items()],
        "user": [[k, K.atok(v)] for k, v in t.user_attrs.items()],
        "system": [[k, K.atok(v)] for k, v in t.system_attrs.items()],
        "inter": [[int(s), K.ftok(v)] for s, v in t.intermediate_values.items()],
        "start": t.datetime_start is not None,
        "complete": t.datetime_complete is not None,
    }


def unordered_tmpl(t: dict[str, Any]) -> dict[str, Any]:
    """attribute / intermediate-value dicts of a FrozenTrial read from the database come in the order of an unordered
    relationship load: compared as dicts; parameters are sorted by param_id in the code and stay ordered"""
    return dict(t, user=dict(map(tuple, t["user"])), system=dict(map(tuple, t["system"])), inter={str(k): v for k, v in t["inter"]})


class Lockstep:
    """One case: the real storages and the model driver, step by step."""

    def __init__(self, spec: dict[str, Any], tmp: str, drv: core.Driver | None, chk: core.Check | None) -> None:
        self.spec, self.drv, self.chk = spec, drv, chk
        p = spec["params"]
        self.p = p
        self.clock = Clock(spec.get("t0", 10**9), spec.get("virtual", True))
        self.url = "sqlite:///" + fresh_db(tmp, "%s_%d" % (spec.get("tag", "c"), spec["seed"]))
        self.observer = open_rdb(self.url, self.clock)
        self.ex = K.Exec(self.observer)
        self.tb = HbTables(self.observer)
        self.trace: list[Any] = []
        self.stats: dict[str, int] = {}
        self.violations: list[tuple[str, str]] = []
        self.grace_us = (2 * p["hbInterval"] if p["grace"] is None else p["grace"]) * 10**6
        self.workers = [Worker(i) for i in range(spec["workers"])]
        self.sid = spec["sid"]  # canonical id of the study under test
        self.phase: dict[int, Any] = {}
        self.retries: list[dict[str, Any]] = []   # enqueued retries seen (oracle)
        self.hb_tol = 0 if self.clock.virtual else 3 * 10**6
        if not self.clock.virtual:
            self.sync_real_clock()
        if self.drv is not None:
            r = self.drv.ask({"cmd": "reset", "sid": self.sid, "workers": len(self.workers), "hbInterval": p["hbInterval"], "grace": p["grace"],
                              "hasCb": p["hasCb"], "maxRetry": p["maxRetry"], "inherit": p["inherit"], "now": self.clock.now})
            if r.get("k") != "reset":
                raise core.DriverBroken("rdbheartbeat reset: %s" % r)
            if r["rejected"] or r["grace"] * 10**6 != self.grace_us:
                raise Mismatch("generated effectiveGrace / rejection says %s for the parameters %s the constructor accepted (harness: grace %d us)" % (r, p, self.grace_us))

    # ---- plumbing ------------------------------------------------------------------------------------
    def count(self, k: str, n: int = 1) -> None:
        self.stats[k] = self.stats.get(k, 0) + n

    def violation(self, kind: str, why: str) -> None:
        self.violations.append((kind, why))

    def sync_real_clock(self) -> None:
        with self.observer.engine.connect() as c:
            self.clock.now = us_of(c.execute(sqlalchemy.text("SELECT CURRENT_TIMESTAMP")).scalar())
        if self.drv is not None and getattr(self, "_reset_done", False):
            self.drv.ask({"cmd": "setNow", "now": self.clock.now})

    def ask(self, req: dict[str, Any]) -> dict[str, Any]:
        assert self.drv is not None
        req = dict(req, dump=True)
        resp = self.drv.ask(req)
        if resp.get("k") in (None, "bad-op", "bad-json"):
            raise core.DriverBroken("driver rdbheartbeat: %s on %s" % (resp, json.dumps(req)[:300]))
        return resp

    @staticmethod
    def unordered(t: dict[str, Any]) -> dict[str, Any]:
        """The rows of a trial's attribute / intermediate-value relationships are loaded without ORDER BY (SQLite walks the
        UNIQUE (trial_id, key) index, the relational model the table): which primary key a copied attribute gets is not
        observable through the storage API.  These three tables are compared as sets of rows without the primary key."""
        out = dict(t)
        for tab in ("trial_user_attributes", "trial_system_attributes", "trial_intermediate_values"):
            out[tab] = sorted((row[1:] for row in t.get(tab, [])), key=lambda r: json.dumps(r, sort_keys=True))
        return out

    def tables_equal(self, model: dict[str, Any], what: Any) -> None:
        real = self.unordered(self.tb.canon())
        model = self.unordered(model)
        if self.hb_tol:
            mh, rh = model.get("trial_heartbeats", []), real["trial_heartbeats"]
            if len(mh) == len(rh) and all(a[:2] == b[:2] and a[2] is not None and abs(a[2] - b[2]) <= self.hb_tol for a, b in zip(mh, rh)):
                model = dict(model, trial_heartbeats=rh)
        if real != model:
            raise Mismatch("after %s: %s" % (json.dumps(what)[:200], c01_rdb.first_diff(model, real)))

    def start_workers(self) -> None:
        p = self.p
        real_sid = self.ex.rs(self.sid)
        name = self.observer.get_study_name_from_id(real_sid)
        for w in self.workers:
            cb = CountingCallback(RetryFailedTrialCallback(max_retry=p["maxRetry"], inherit_intermediate_values=p["inherit"]), w) if p["hasCb"] else None
            w.storage = open_rdb(self.url, self.clock, heartbeat_interval=p["hbInterval"], grace_period=p["grace"], failed_trial_callback=cb)
            w.study = optuna.load_study(study_name=name, storage=w.storage)
            if w.study._storage is not w.storage:
                w.storage = w.study._storage
            w.wrap()

    def close(self) -> None:
        for st in [self.observer] + [w.storage for w in self.workers if w.storage is not None]:
            try:
                st.remove_session()
                st.engine.dispose()
            except Exception:  # noqa: BLE001
                pass

    # ---- environment steps ---------------------------------------------------------------------------
    def env(self, a: dict[str, Any]) -> None:
        """one action of anybody but a sweeping worker, on the database and on the model"""
        kind = a["a"]
        self.trace.append(a)
        self.count("env:" + kind)
        if not self.clock.virtual:
            self.sync_real_clock()
        if kind == "call":
            op = a["op"]
            obs = self.ex.run(op)
            if self.drv is None:
                return
            resp = self.ask({"cmd": "call", "op": K.to_driver(op)})
            why = c01_rdb.same_answer(op, resp["out"], obs)
            if why is not None:
                raise Mismatch("call %s: %s" % (json.dumps(op)[:160], why))
            self.tables_equal(resp["tables"], a)
        elif kind == "beat":
            self.observer.record_heartbeat(self.ex.rt(a["tid"]))
            if self.drv is None:
                return
            resp = self.ask({"cmd": "beat", "tid": a["tid"]})
            if resp["out"] != {"k": "unit"}:
                raise Mismatch("record_heartbeat(%d): model answers %s" % (a["tid"], resp["out"]))
            self.tables_equal(resp["tables"], a)
        elif kind == "tick":
            if self.clock.virtual:
                self.clock.now += a["d"]
            if self.drv is not None:
                self.ask({"cmd": "tick", "d": a["d"]} if self.clock.virtual else {"cmd": "setNow", "now": self.clock.now})
        elif kind == "poke":
            # harness-side SQL: the heartbeat row of the trial gets the age `age` us (negative: a row from the future)
            ts = self.clock.now - a["age"]
            with self.observer.engine.begin() as c:
                n = c.execute(sqlalchemy.text("UPDATE trial_heartbeats SET heartbeat = :h WHERE trial_id = :t"), {"h": fmt(ts), "t": self.ex.rt(a["tid"])}).rowcount
            if self.drv is None:
                return
            resp = self.ask({"cmd": "poke", "tid": a["tid"], "ts": ts})
            if resp["rows"] != n:
                raise Mismatch("poke %s: %d rows updated in the database, %d in the model" % (a, n, resp["rows"]))
            self.tables_equal(resp["tables"], a)
        elif kind == "stale":
            self.stale_query(a.get("w", 0))
        elif kind == "sweep":
            self.sweep(a["w"], a.get("inter", {}), a.get("die"))
        else:
            raise AssertionError(a)

    # ---- the oracle's ground truth --------------------------------------------------------------------
    def truth_stale(self) -> set[int]:
        """canonical ids of the RUNNING trials of the study under test whose heartbeat row is older than the grace period:
        integer arithmetic on the rows of the database and the harness clock (nothing of the model is used)"""
        real_sid = self.ex.rs(self.sid)
        out = set()
        with self.observer.engine.connect() as c:
            rows = list(c.execute(sqlalchemy.text(
                "SELECT t.trial_id, h.heartbeat FROM trials t JOIN trial_heartbeats h ON h.trial_id = t.trial_id "
                "WHERE t.study_id = :s AND t.state = 'RUNNING'"), {"s": real_sid}))
        for tid, hb in rows:
            if self.clock.now - us_of(hb) > self.grace_us:
                out.add(self.ex.r2t.get(tid, "?%s" % tid))
        return out

    def near_boundary(self) -> bool:
        if self.clock.virtual:
            return False
        with self.observer.engine.connect() as c:
            hbs = [us_of(h) for (h,) in c.execute(sqlalchemy.text("SELECT heartbeat FROM trial_heartbeats"))]
        return any(abs((self.clock.now - h) - self.grace_us) <= self.hb_tol for h in hbs)

    def trial_rows(self) -> dict[Any, Any]:
        """canonical trial id -> everything the database holds about it"""
        t = self.tb.canon()
        out: dict[Any, Any] = {}
        for row in t["trials"]:
            out[row[0]] = {"trials": row}
        for tab in ("trial_params", "trial_values", "trial_intermediate_values", "trial_user_attributes", "trial_system_attributes", "trial_heartbeats"):
            for row in t[tab]:
                out.setdefault(row[1], {}).setdefault(tab, []).append(row)
        return out

    # ---- the stale query alone -------------------------------------------------------------------------
    def stale_query(self, w: int) -> None:
        W = self.workers[w]
        if not self.clock.virtual:
            self.sync_real_clock()
        truth = self.truth_stale()
        try:
            got = [self.ex.r2t.get(i, "?%s" % i) for i in W.storage._get_stale_trial_ids(self.ex.rs(self.sid))]
            obs: Any = {"ok": got}
        except Exception as e:  # noqa: BLE001
            obs = {"crash": type(e).__name__}
        self.trace.append({"stale_query": obs, "truth": sorted(truth, key=skey)})
        self.count("stale_query")
        if "ok" in obs and not self.near_boundary():
            self.judge_read(w, obs["ok"], truth)
        if self.drv is not None:
            resp = self.ask({"cmd": "stale"})
            m = resp["ids"]
            if ("ok" in m) != ("ok" in obs) or ("ok" in m and sorted(m["ok"]) != sorted(obs["ok"], key=skey)) or ("crash" in m and m["crash"] != obs["crash"]):
                raise Mismatch("_get_stale_trial_ids: model %s, implementation %s" % (m, obs))

    def judge_read(self, w: int, got: list[Any], truth: set[Any]) -> None:
        missing, extra = truth - set(got), set(got) - truth
        if missing:
            self.violation("stale-not-noticed", "worker %d's stale query did not return trial id(s) %s (RUNNING, heartbeat row older than the grace period of %d us at database time %d); it returned %s" % (w, sorted(missing, key=skey), self.grace_us, self.clock.now, got))
        if extra:
            self.violation("not-stale-noticed", "worker %d's stale query returned trial id(s) %s which are not (RUNNING with a heartbeat row older than the grace period of %d us at database time %d)" % (w, sorted(extra, key=skey), self.grace_us, self.clock.now))
        if len(set(got)) != len(got):
            self.violation("stale-twice", "the stale query returned an id twice: %s" % got)

    # ---- a sweep, storage call by storage call ---------------------------------------------------------
    def model_sweep_step(self, w: int) -> dict[str, Any]:
        resp = self.ask({"cmd": "sweep", "w": w})
        self.phase[w] = resp["phase"]
        return resp

    def sweep(self, w: int, inter: dict[str, list[dict[str, Any]]], die: int | None) -> None:
        W = self.workers[w]
        if W.dead or W.busy:
            return
        W.busy = True
        self.count("sweeps")
        point = [0]
        seen: dict[str, Any] = {"truth": None, "read": None, "won": [], "lost": [], "undisturbed": not inter and die is None, "enq": []}
        before_rows = self.trial_rows() if seen["undisturbed"] else None
        preview = None
        if seen["undisturbed"] and self.drv is not None:
            if not self.clock.virtual:
                self.sync_real_clock()
            # what the model's ONE-CALL function `failStaleTrials` (the subject of sweep_refines_heartbeat_model /
            # untouched_if_not_stale) says this call will log; compared below with the step-by-step log
            preview = self.drv.ask({"cmd": "sweepCallPreview", "w": w})
        seen["model_events"] = []
        cb_mark = len(W.cb_log)
        pending_cb: list[dict[str, Any]] = []   # model `callback` events not yet matched with an invocation

        def settle_callbacks() -> None:
            """the callback invocations made so far are the ones the model logged"""
            done = [c for c in W.cb_log[cb_mark:] if c is not W.cur_cb]
            while pending_cb and len(done) > seen.setdefault("cb_done", 0):
                exp, got = pending_cb.pop(0), done[seen["cb_done"]]
                seen["cb_done"] += 1
                num = self.number_of(exp["t"])
                if got["number"] != num or got["retry"] != exp["retry"]:
                    raise Mismatch("callback: model says invoked for trial number %s (id %s), retry=%s; the code invoked it for number %s, retry=%s" % (num, exp["t"], exp["retry"], got["number"], got["retry"]))
            if len(done) > seen.get("cb_done", 0):
                raise Mismatch("callback invoked for trial number %s although the model logged no callback" % done[seen.get("cb_done", 0)]["number"])

        def hook(name: str, orig: Any, a: tuple[Any, ...], kw: dict[str, Any]) -> Any:
            k = point[0]
            point[0] += 1
            if die is not None and k == die:
                raise Killed()
            for act in inter.get(str(k), []):
                if act["a"] == "sweep" and (act["w"] == w or self.workers[act["w"]].busy or self.workers[act["w"]].dead):
                    continue
                self.env(act)
            if not self.clock.virtual:
                self.sync_real_clock()
            if self.drv is not None and k > 0 and self.phase.get(w, {}).get("p") in ("idle", "dead"):
                raise Mismatch("the model's sweep of worker %d is over, the code goes on with %s%s" % (w, name, a[:1]))
            if name == "_get_stale_trial_ids":
                seen["truth"] = self.truth_stale()
                seen["near"] = self.near_boundary()
            rec: dict[str, Any] = {"call": name, "w": w, "k": k}
            try:
                res = orig(*a, **kw)
                rec["res"] = res if name in ("_get_stale_trial_ids", "set_trial_state_values", "create_new_trial") else None
            except Exception as e:  # noqa: BLE001
                rec["exc"] = type(e).__name__
                self.after_call(w, name, a, kw, rec, seen, pending_cb, settle_callbacks)
                raise
            self.after_call(w, name, a, kw, rec, seen, pending_cb, settle_callbacks)
            return res

        W.hook = hook
        outcome: dict[str, Any] = {"sweep": w}
        try:
            fail_stale_trials(W.study)
        except Killed:
            outcome["died_at"] = die
            W.dead = True
            self.count("died_in_sweep")
            if self.drv is not None:
                self.ask({"cmd": "die", "w": w})
                self.phase[w] = {"p": "dead"}
        except Mismatch:
            raise
        except core.DriverBroken:
            raise
        except Exception as e:  # noqa: BLE001 - an exception left fail_stale_trials
            outcome["raised"] = type(e).__name__
            self.count("sweep_raised")
            if self.drv is not None and not seen.get("model_raised"):
                # the model must have logged `raised` at the call that threw (checked in after_call), or it throws in the callback
                resp = self.model_sweep_step(w) if self.phase.get(w, {}).get("p") not in ("idle", "dead") and seen.get("cb_raises") else None
                if resp is None or not any(ev["e"] == "raised" for ev in resp["events"]):
                    raise Mismatch("fail_stale_trials raised %s (%s); the model logged no exception" % (type(e).__name__, str(e)[:100]))
        finally:
            W.hook = None
            W.busy = False
        self.trace.append(outcome)
        if "died_at" in outcome or "raised" in outcome:
            return
        if self.drv is not None:
            if point[0] == 0:
                raise Mismatch("fail_stale_trials made no storage call")
            settle_callbacks()
            if pending_cb:
                raise Mismatch("the model logged callback(s) %s the code did not make" % pending_cb)
            if self.phase.get(w, {}).get("p") != "idle":
                raise Mismatch("fail_stale_trials returned; the model's worker %d is still in phase %s" % (w, self.phase.get(w)))
        if preview is not None and self.clock.virtual:
            self.count("whole_call_previews")
            if preview.get("events") != seen["model_events"] or (preview.get("phase") or {}).get("p") != "idle":
                raise Mismatch("failStaleTrials (one whole call) logs %s and ends in %s; the storage calls one by one log %s" % (
                    json.dumps(preview.get("events"))[:400], preview.get("phase"), json.dumps(seen["model_events"])[:400]))
        self.judge_sweep(w, seen, before_rows, W.cb_log[cb_mark:])

    def number_of(self, cid: Any) -> Any:
        for row in self.tb.canon()["trials"]:
            if row[0] == cid:
                return row[1]
        return None

    def after_call(self, w: int, name: str, a: tuple[Any, ...], kw: dict[str, Any], rec: dict[str, Any], seen: dict[str, Any],
                   pending_cb: list[dict[str, Any]], settle_callbacks: Any) -> None:
        W = self.workers[w]
        r2t = self.ex.r2t
        if name == "create_new_trial" and "res" in rec:
            c = self.ex._new_trial(rec["res"])
            self.ex.trial_study[c] = self.sid
            rec["res"] = c
            if W.cur_cb is not None:
                W.cur_cb["retry"] = True
        if name == "_get_stale_trial_ids" and "res" in rec:
            rec["res"] = [r2t.get(i, "?%s" % i) for i in rec["res"]]
            seen["read"] = list(rec["res"])
            if not seen.get("near"):
                self.judge_read(w, rec["res"], seen["truth"])
        self.trace.append(rec)
        self.count("sweep_call:" + name)
        if self.drv is None:
            if name == "set_trial_state_values":
                (seen["won"] if rec.get("res") is True else seen["lost"]).append(r2t.get(a[0], "?"))
            if name == "create_new_trial" and "res" in rec:
                seen["enq"].append({"n": rec["res"], "tmpl": canon_template(kw.get("template_trial", a[1] if len(a) > 1 else None))})
            return
        if name != "_get_stale_trial_ids":
            settle_callbacks()
        resp = self.model_sweep_step(w)
        evs = resp["events"]
        seen.setdefault("model_events", []).extend(evs)
        what = {"sweep": w, "call": name}
        if "exc" in rec and rec["exc"] != "UpdateFinishedTrialError":
            if [e["e"] for e in evs] != ["raised"]:
                raise Mismatch("%s raised %s; model events %s" % (name, rec["exc"], evs))
            seen["model_raised"] = True
            self.tables_equal(resp["tables"], what)
            return
        if name == "_get_stale_trial_ids":
            if len(evs) != 1 or evs[0]["e"] != "read":
                raise Mismatch("_get_stale_trial_ids returned %s; model events %s" % (rec["res"], evs))
            if sorted(evs[0]["ids"]) != sorted(rec["res"], key=skey):
                raise Mismatch("_get_stale_trial_ids returned %s; the model's stale query returns %s" % (rec["res"], evs[0]["ids"]))
            if evs[0]["ids"] != rec["res"]:
                # SQL leaves the row order open; the model uses table order.  Follow the implementation's order.
                self.count("stale_order_differs")
                raise Mismatch("stale ids in another order than table order: code %s, model %s (not supported by this tie)" % (rec["res"], evs[0]["ids"]))
        elif name == "set_trial_state_values":
            cid = r2t.get(a[0], "?%s" % a[0])
            state = kw.get("state", a[1] if len(a) > 1 else None)
            if state != TrialState.FAIL:
                raise Mismatch("the sweep wrote state %s" % state)
            if rec.get("exc") == "UpdateFinishedTrialError":
                want = [{"e": "lost", "w": w, "t": cid}]
                seen["lost"].append(cid)
                self.count("cas_lost")
            elif rec["res"] is True:
                want = [{"e": "won", "w": w, "t": cid}]
                seen["won"].append(cid)
                self.count("cas_won")
            else:
                want = []
            if evs != want:
                raise Mismatch("set_trial_state_values(%s, FAIL) -> %s; model events %s" % (cid, rec.get("exc", rec.get("res")), evs))
        elif name == "get_trial":
            cid = r2t.get(a[0], "?%s" % a[0])
            if len(evs) == 1 and evs[0]["e"] == "callback" and evs[0]["t"] == cid:
                pending_cb.append(evs[0])
            elif len(evs) == 1 and evs[0]["e"] == "raised" and evs[0]["what"] == "callback":
                seen["cb_raises"] = True
                seen["model_raised"] = True
            else:
                raise Mismatch("get_trial(%s) inside the sweep; model events %s" % (cid, evs))
        elif name == "create_new_trial":
            tmpl = canon_template(kw.get("template_trial", a[1] if len(a) > 1 else None))
            if len(evs) != 1 or evs[0]["e"] != "enqueued":
                raise Mismatch("create_new_trial inside the sweep (template %s); model events %s" % (json.dumps(tmpl)[:200], evs))
            if evs[0]["n"] != rec["res"]:
                raise Mismatch("new trial id: model %s, code %s" % (evs[0]["n"], rec["res"]))
            if unordered_tmpl(evs[0]["tmpl"]) != unordered_tmpl(tmpl):
                diff = {k: {"model": evs[0]["tmpl"].get(k), "code": tmpl.get(k)} for k in tmpl if evs[0]["tmpl"].get(k) != tmpl.get(k)}
                raise Mismatch("retry template differs: %s" % json.dumps(diff)[:600])
            seen["enq"].append({"n": rec["res"], "tmpl": tmpl, "t": evs[0]["t"]})
        self.tables_equal(resp["tables"], what)

    # ---- the property on what the sweep did (model-independent) ----------------------------------------------
    def judge_sweep(self, w: int, seen: dict[str, Any], before_rows: Any, cbs: list[dict[str, Any]]) -> None:
        p = self.p
        near = bool(seen.get("near"))
        truth = seen["truth"] or set()
        rows = self.trial_rows()
        if not near:
            for cid in seen["won"]:
                if cid not in truth:
                    self.violation("failed-not-stale", "worker %d's sweep moved trial id %s to FAIL although it was not stale at the stale read" % (w, cid))
            if seen["undisturbed"]:
                for cid in truth:
                    st = rows.get(cid, {}).get("trials")
                    if st is None or st[3] != TrialState.FAIL.value:
                        self.violation("stale-not-failed", "after worker %d's undisturbed sweep the stale trial id %s is %s" % (w, cid, st))
                if before_rows is not None:
                    for cid, r in before_rows.items():
                        if cid not in truth and rows.get(cid) != r:
                            self.violation("touched-not-stale", "worker %d's sweep changed the rows of trial id %s which was not stale: before %s, after %s" % (w, cid, json.dumps(r)[:300], json.dumps(rows.get(cid))[:300]))
        won_numbers = [rows[c]["trials"][1] for c in seen["won"] if c in rows]
        if p["hasCb"]:
            nums = [c["number"] for c in cbs]
            if sorted(nums) != sorted(won_numbers):
                self.violation("callback-set", "worker %d's sweep failed trials number %s itself but invoked the callback for %s" % (w, sorted(won_numbers), sorted(nums)))
        elif cbs:
            self.violation("callback-set", "a callback ran although none is configured")
        for e in seen["enq"]:
            self.judge_retry(w, e, rows)

    def judge_retry(self, w: int, e: dict[str, Any], rows: dict[Any, Any]) -> None:
        p = self.p
        t = e["tmpl"]
        sysd = dict(map(tuple, t["system"]))
        try:
            hist = json.loads(sysd["retry_history"])
            parent = hist[-1]
            head = json.loads(sysd["failed_trial"])
        except Exception:  # noqa: BLE001
            self.violation("retry-attrs", "retry %s lacks retry_history / failed_trial: %s" % (e["n"], t["system"]))
            return
        real_sid = self.ex.rs(self.sid)
        ft = self.observer.get_trial(self.observer.get_trial_id_from_study_id_trial_number(real_sid, parent))
        fc = canon_template(ft)
        fsys = dict(map(tuple, fc["system"]))
        fhist = json.loads(fsys.get("retry_history", "[]"))
        if not isinstance(fhist, list) or not isinstance(hist, list):
            return  # somebody forged a retry_history that is not a list: outside the property (and outside `WfSys` of the proofs)
        problems = []
        if t["state"] != TrialState.WAITING.value:
            problems.append("state %s" % t["state"])
        if ft.state != TrialState.FAIL:
            problems.append("the retried trial %d is %s" % (parent, ft.state.name))
        if dict(map(lambda kv: (kv[0], json.dumps(kv[1], sort_keys=True)), t["params"])) != dict(map(lambda kv: (kv[0], json.dumps(kv[1], sort_keys=True)), fc["params"])):
            problems.append("params %s vs %s" % (t["params"], fc["params"]))
        if dict(map(tuple, t["user"])) != dict(map(tuple, fc["user"])):
            problems.append("user attrs %s vs %s" % (t["user"], fc["user"]))
        other = {k: v for k, v in sysd.items() if k not in ("retry_history", "failed_trial")}
        fother = {k: v for k, v in fsys.items() if k not in ("retry_history", "failed_trial")}
        if other != fother:
            problems.append("system attrs %s vs %s" % (other, fother))
        if hist != fhist + [parent]:
            problems.append("retry_history %s, the failed trial has %s and number %d" % (hist, fhist, parent))
        if head != json.loads(fsys.get("failed_trial", str(parent))):
            problems.append("failed_trial %s" % head)
        if p["maxRetry"] is not None and len(hist) > max(p["maxRetry"], 0):
            problems.append("chain of length %d with max_retry %s" % (len(hist), p["maxRetry"]))
        if dict(map(tuple, t["inter"])) != (dict(map(tuple, fc["inter"])) if p["inherit"] else {}):
            problems.append("intermediate values %s (inherit=%s, failed trial has %s)" % (t["inter"], p["inherit"], fc["inter"]))
        for prev in self.retries:
            if prev["parent"] == parent:
                problems.append("trial %d is retried a second time (first by retry id %s)" % (parent, prev["n"]))
        self.retries.append({"parent": parent, "n": e["n"], "depth": len(hist)})
        if problems:
            self.violation("retry-copy", "retry id %s of trial number %d: %s" % (e["n"], parent, "; ".join(problems)))

    def judge_end(self) -> None:
        """whole case: a callback at most once per trial number over all workers"""
        seen: dict[int, int] = {}
        for w in self.workers:
            for c in w.cb_log:
                seen[c["number"]] = seen.get(c["number"], 0) + 1
        for n, k in seen.items():
            if k > 1:
                self.violation("callback-twice", "the failure callback ran %d times for trial number %d" % (k, n))


# ---- case generation ---------------------------------------------------------------------------------------------
def op_create(sid: int) -> dict[str, Any]:
    return {"a": "call", "op": {"op": "createTrial", "sid": sid, "tmpl": None}}


def op_enqueue(sid: int, r: random.Random) -> dict[str, Any]:
    system: dict[str, Any] = {"fixed_params": {"x": round(r.random(), 3)}} if r.random() < 0.6 else {}
    user = {"q": r.randrange(5)} if r.random() < 0.5 else {}
    tmpl = {"state": 4, "values": None, "params": {}, "user": user, "system": system, "inter": {}, "start": False, "complete": False}
    return {"a": "call", "op": {"op": "createTrial", "sid": sid, "tmpl": tmpl}}


def op_param(tid: int, r: random.Random, clash: bool = False) -> dict[str, Any]:
    name = r.choice(list(DISTS))
    d = DISTS[name]
    if clash:
        d = IntDistribution(0, 5) if not isinstance(d, IntDistribution) else FloatDistribution(0.0, 1.0)
    if isinstance(d, FloatDistribution):
        ext: Any = d.low + (d.high - d.low) * r.random()
    elif isinstance(d, IntDistribution):
        ext = r.randint(d.low, d.high)
    else:
        ext = r.choice(list(d.choices))
    return {"a": "call", "op": {"op": "setTrialParam", "tid": tid, "name": name, "internal": K.ftok(d.to_internal_repr(ext)), "dist": distribution_to_json(d)}}


def boundary_ages(g_us: int, r: random.Random) -> list[int]:
    return [g_us, g_us + 1, g_us - 1, g_us + 10**6, g_us - 10**6, DAY + g_us // 2, DAY + g_us + 1, DAY + 1, 2 * DAY + g_us // 3, DAY - 1 + g_us,
            0, -1, -5 * 10**6, -DAY - g_us, g_us + r.randrange(2, 10**7), max(0, g_us - r.randrange(2, 10**7)), 400 * DAY]


def gen_params(r: random.Random) -> dict[str, Any]:
    hb = r.choice([1, 30, 60, 60])
    grace = r.choice([None, None, 1, 5, 120, 250, 86400, 100000])
    return {"hbInterval": hb, "grace": grace, "hasCb": r.random() < 0.85, "maxRetry": r.choice([None, 0, 1, 1, 2, 3, -1]), "inherit": r.random() < 0.4}


def gen_case(seed: int, virtual: bool = True) -> dict[str, Any]:
    """A script is generated against a tiny book-keeping of canonical ids (the database decides everything else)."""
    r = random.Random(seed)
    p = gen_params(r)
    if not virtual:
        # on the real SQLite clock (1 s resolution, moving while the case runs) every age stays >= 30 s away from the boundary
        p["hbInterval"] = 60
        p["grace"] = r.choice([None, 120, 250, 86400, 100000])
    g_us = (2 * p["hbInterval"] if p["grace"] is None else p["grace"]) * 10**6
    sid = r.choice([0, 1])
    decoy = 1 - sid
    nw = r.choice([1, 2, 2, 3])
    steps: list[dict[str, Any]] = []
    names = ["main", "decoy"] if sid == 0 else ["decoy", "main"]
    pre = [{"a": "call", "op": {"op": "createStudy", "name": n, "dirs": [1]}} for n in names]
    ntr = 0
    mine: list[int] = []      # canonical ids of trials of the study under test
    state: dict[int, str] = {}
    beaten: set[int] = set()

    def new_trial(study: int, waiting: bool = False) -> int:
        nonlocal ntr
        steps.append(op_enqueue(study, r) if waiting else op_create(study))
        ntr += 1
        if study == sid:
            mine.append(ntr - 1)
        state[ntr - 1] = "waiting" if waiting else "running"
        return ntr - 1

    def age_actions(tid: int) -> None:
        """give the trial a heartbeat row of a chosen age"""
        steps.append({"a": "beat", "tid": tid})
        beaten.add(tid)
        if virtual:
            if r.random() < 0.75:
                steps.append({"a": "poke", "tid": tid, "age": r.choice(boundary_ages(g_us, r))})
        else:
            steps.append({"a": "poke", "tid": tid, "age": r.choice([g_us + 30 * 10**6, g_us + DAY + 40 * 10**6, max(0, g_us - 30 * 10**6), -60 * 10**6, 3 * DAY])})

    # a decoy study with a very stale RUNNING trial and one without heartbeat: never to be touched
    d1 = new_trial(decoy)
    new_trial(decoy)
    steps.append({"a": "beat", "tid": d1})
    steps.append({"a": "poke", "tid": d1, "age": 50 * DAY})
    rounds = r.choice([1, 2, 2, 3, 4])
    for rd in range(rounds):
        fresh = [new_trial(sid, waiting=r.random() < 0.3) for _ in range(r.choice([1, 2, 3, 4]))]
        for t in fresh:
            if state[t] == "waiting" and r.random() < 0.7:
                steps.append({"a": "call", "op": {"op": "setTrialStateValues", "tid": t, "state": 0, "values": None}})
                state[t] = "running"
        # claim retries enqueued by earlier sweeps (their ids are not known to the generator: claim by number through the database)
        if rd > 0:
            steps.append({"a": "claim_waiting", "beat_age": r.choice(boundary_ages(g_us, r)[:8] + [3 * g_us + 7]) if virtual else g_us + 45 * 10**6, "prob": 0.85})
        for t in fresh:
            for _ in range(r.choice([0, 1, 2])):
                k = r.random()
                if k < 0.35:
                    steps.append(op_param(t, r, clash=r.random() < 0.1))
                elif k < 0.55:
                    steps.append({"a": "call", "op": {"op": "setTrialUserAttr", "tid": t, "k": r.choice(["u", "v"]), "v": r.choice([1, "s", [1, 2], {"a": None}])}})
                elif k < 0.7:
                    steps.append({"a": "call", "op": {"op": "setTrialSystemAttr", "tid": t, "k": r.choice(["fixed_params", "grid_id", "z"]), "v": r.choice([{"x": 0.5}, 3, "s"])}})
                elif k < 0.85:
                    steps.append({"a": "call", "op": {"op": "setTrialInter", "tid": t, "step": r.randrange(4), "v": K.ftok(r.choice([0.5, 1.25, float("inf"), float("nan")]))}})
                elif k < 0.93:
                    # somebody forges the callback's own keys (well-formed payloads): `**trial.system_attrs` must win over the literals
                    steps.append({"a": "call", "op": {"op": "setTrialSystemAttr", "tid": t, "k": "retry_history", "v": r.choice([[], [7], [3, 9]])}})
                else:
                    steps.append({"a": "call", "op": {"op": "setTrialSystemAttr", "tid": t, "k": "failed_trial", "v": r.choice([0, 5])}})
            if r.random() < 0.8:
                age_actions(t)
            if r.random() < 0.15:
                steps.append({"a": "call", "op": {"op": "setTrialStateValues", "tid": t, "state": r.choice([1, 2, 3]), "values": ["1/2"] if r.random() < 0.5 else None}})
                state[t] = "finished"
        if virtual and r.random() < 0.5:
            steps.append({"a": "tick", "d": r.choice([1, 10**6, g_us, g_us + 1, DAY, r.randrange(1, 3 * g_us + 2)])})
        if r.random() < 0.5:
            steps.append({"a": "stale", "w": r.randrange(nw)})
        # sweeps
        for _ in range(r.choice([1, 1, 2])):
            w = r.randrange(nw)
            sw: dict[str, Any] = {"a": "sweep", "w": w}
            if r.random() < 0.45:
                inter: dict[str, list[dict[str, Any]]] = {}
                for _ in range(r.choice([1, 2, 3])):
                    k = str(r.choice([1, 1, 2, 2, 3, 4, 5]))
                    cand = [t for t in mine]
                    t = r.choice(cand)
                    act = r.choice([
                        {"a": "call", "op": {"op": "setTrialStateValues", "tid": t, "state": r.choice([1, 3]), "values": None}},
                        {"a": "beat", "tid": t},
                        {"a": "call", "op": {"op": "setTrialUserAttr", "tid": t, "k": "late", "v": 1}},
                        {"a": "sweep", "w": r.randrange(nw)},
                        {"a": "sweep", "w": r.randrange(nw)},
                        {"a": "tick", "d": r.choice([1, g_us])},
                    ])
                    if act["a"] == "tick" and not virtual:
                        continue
                    inter.setdefault(k, []).append(act)
                sw["inter"] = inter
            if r.random() < 0.12:
                sw["die"] = r.choice([1, 2, 3, 4])
            steps.append(sw)
    return {"seed": seed, "tag": "g", "virtual": virtual, "params": p, "workers": nw, "sid": sid, "pre": pre, "steps": steps, "t0": 10**9 + r.randrange(10**9)}


def directed_cases() -> list[dict[str, Any]]:
    """every boundary age once, per grace period: one trial per age, one stale query, one sweep"""
    out = []
    for i, (hb, grace, mr) in enumerate([(60, None, 1), (1, None, None), (30, 1, 0), (60, 250, 2), (60, 86400, 1), (60, 100000, 3)]):
        p = {"hbInterval": hb, "grace": grace, "hasCb": True, "maxRetry": mr, "inherit": i % 2 == 0}
        g_us = (2 * hb if grace is None else grace) * 10**6
        ages = boundary_ages(g_us, random.Random(i))
        pre = [{"a": "call", "op": {"op": "createStudy", "name": n, "dirs": [1]}} for n in ("decoy", "main")]
        steps: list[dict[str, Any]] = [op_create(0), {"a": "beat", "tid": 0}, {"a": "poke", "tid": 0, "age": 9 * DAY}]
        for j, age in enumerate(ages):
            t = j + 1
            steps += [op_create(1), {"a": "call", "op": {"op": "setTrialUserAttr", "tid": t, "k": "age", "v": age}}, {"a": "beat", "tid": t}, {"a": "poke", "tid": t, "age": age}]
        n = len(ages) + 1
        # never heart-beaten, finished-with-old-heartbeat, WAITING-with-old-heartbeat
        steps += [op_create(1), op_create(1), {"a": "beat", "tid": n + 1}, {"a": "poke", "tid": n + 1, "age": 3 * DAY},
                  {"a": "call", "op": {"op": "setTrialStateValues", "tid": n + 1, "state": 1, "values": ["1/1"]}},
                  op_enqueue(1, random.Random(i)), {"a": "beat", "tid": n + 2}, {"a": "poke", "tid": n + 2, "age": 3 * DAY}]
        steps += [{"a": "stale", "w": 0}, {"a": "sweep", "w": 0}, {"a": "stale", "w": 0}, {"a": "sweep", "w": 0}]
        out.append({"seed": 900 + i, "tag": "d", "virtual": True, "params": p, "workers": 1, "sid": 1, "pre": pre, "steps": steps, "t0": 10**9, "ages": ages})
    # a forged retry_history that is not a list: the callback raises inside the sweep (both sides must agree that it does)
    p = {"hbInterval": 60, "grace": None, "hasCb": True, "maxRetry": None, "inherit": False}
    pre = [{"a": "call", "op": {"op": "createStudy", "name": "main", "dirs": [1]}}, {"a": "call", "op": {"op": "createStudy", "name": "decoy", "dirs": [1]}}]
    steps = [op_create(0), {"a": "call", "op": {"op": "setTrialSystemAttr", "tid": 0, "k": "retry_history", "v": "oops"}}, {"a": "beat", "tid": 0},
             {"a": "poke", "tid": 0, "age": 10**9}, {"a": "sweep", "w": 0}]
    out.append({"seed": 990, "tag": "d", "virtual": True, "params": p, "workers": 1, "sid": 0, "pre": pre, "steps": steps, "t0": 10**9})
    return out


def run_case(spec: dict[str, Any], tmp: str, drv: core.Driver | None, chk: core.Check | None = None) -> dict[str, Any]:
    ls = None
    res: dict[str, Any] = {"mismatch": None, "violations": [], "stats": {}, "trace": [], "nontrivial": False}
    try:
        ls = Lockstep(spec, tmp, drv, chk)
        ls._reset_done = True
        for a in spec["pre"]:
            ls.env(a)
        ls.start_workers()
        r = random.Random(spec["seed"] * 7 + 1)
        for a in spec["steps"]:
            if a["a"] == "claim_waiting":
                # claim the WAITING trials of the study (the retries): RUNNING, heartbeat, an age
                with ls.observer.engine.connect() as c:
                    ids = [i for (i,) in c.execute(sqlalchemy.text("SELECT trial_id FROM trials WHERE study_id = :s AND state = 'WAITING' ORDER BY trial_id"), {"s": ls.ex.rs(ls.sid)})]
                for i in ids:
                    if r.random() < a["prob"]:
                        cid = ls.ex.r2t[i]
                        ls.env({"a": "call", "op": {"op": "setTrialStateValues", "tid": cid, "state": 0, "values": None}})
                        ls.env({"a": "beat", "tid": cid})
                        ls.env({"a": "poke", "tid": cid, "age": a["beat_age"]})
                continue
            ls.env(a)
        ls.judge_end()
    except Mismatch as e:
        res["mismatch"] = str(e)
    finally:
        if ls is not None:
            res["violations"] = ls.violations
            res["stats"] = ls.stats
            res["trace"] = ls.trace
            depth = max([x["depth"] for x in ls.retries], default=0)
            st = ls.stats
            res["nontrivial"] = bool(st.get("sweep_call:set_trial_state_values", 0) and (st.get("died_in_sweep", 0) or depth >= 2 or any(
                isinstance(t, dict) and t.get("call") == "set_trial_state_values" and t.get("exc") for t in ls.trace) or st.get("sweeps", 0) > 1))
            res["depth"] = depth
            ls.close()
            try:
                os.unlink(ls.url[len("sqlite:///"):])
            except OSError:
                pass
    return res


def translate(chk: core.Check) -> None:
    """Regenerate the Lean files the relational heartbeat model is built on (call before `chk.prove`)."""
    tstale.run(chk)
    c01_rdb.translate(chk)


def report(chk: core.Check, spec: dict[str, Any], res: dict[str, Any], with_model: bool) -> None:
    for k, v in res["stats"].items():
        chk.count("c19rdb:" + k, v)
    if res["mismatch"] and with_model:
        chk.broke("correspondence", {"tie": "rdbheartbeat (relational heartbeat model vs RDBStorage on SQLite)", "why": res["mismatch"][:900],
                                     "case": {k: spec[k] for k in ("seed", "tag", "virtual", "params", "workers", "sid")}, "last_steps": res["trace"][-6:]})
    for kind, why in res["violations"]:
        chk.violation({"kind": kind, "tie": "c19_rdb"}, {"rdb_case": spec, "why": why}, "C19 on RDBStorage (%s): %s" % (kind, why))


def correspond(chk: core.Check, tier: str, with_model: bool = True, seeds: list[int] | None = None) -> None:
    """Entry point used by c19.py (after `chk.prove`)."""
    quick = tier == "quick"
    t0 = time.time()
    n = 70 if quick else 1500
    n_real = 3 if quick else 12
    base = chk.seed * 1_000_003 + 19_000_000
    specs = directed_cases() if seeds is None else []
    specs += [gen_case(s) for s in (seeds if seeds is not None else [base + i for i in range(n)])]
    if seeds is None:
        specs += [dict(gen_case(base + 500_000 + i, virtual=False), tag="real") for i in range(n_real)]
    drv = None
    ages_seen: dict[str, int] = {}
    try:
        if with_model:
            core.ensure_driver()
            drv = core.Driver("rdbheartbeat")
        for spec in specs:
            res = run_case(spec, chk.tmp, drv if with_model else None, chk)
            chk.case({"cfg": "c19_rdb", "seed": spec["seed"], "tag": spec["tag"], "params": spec["params"], "n_steps": len(spec["steps"])}, nontrivial=res["nontrivial"])
            chk.traces_validated += 1
            chk.count("c19rdb:cases:" + spec["tag"])
            if res.get("depth", 0) >= 2:
                chk.count("c19rdb:chain_depth>=2")
            for a in spec["steps"]:
                if a["a"] == "poke":
                    g = (2 * spec["params"]["hbInterval"] if spec["params"]["grace"] is None else spec["params"]["grace"]) * 10**6
                    d = a["age"] - g
                    cls = "age==grace" if d == 0 else "age==grace+1us" if d == 1 else "age==grace-1us" if d == -1 else "age==grace+1s" if d == 10**6 else \
                        "age==grace-1s" if d == -10**6 else "age<0" if a["age"] < 0 else "age>1day" if a["age"] > DAY else "age>grace" if d > 0 else "age<grace"
                    ages_seen[cls] = ages_seen.get(cls, 0) + 1
            report(chk, spec, res, with_model)
            if res["mismatch"] and with_model:
                # the driver's state may be out of step: start a fresh one
                drv.close()
                drv = core.Driver("rdbheartbeat")
    except core.DriverBroken as e:
        chk.broke("correspondence", {"tie": "rdbheartbeat", "driver": str(e)[:800]})
    finally:
        if drv is not None:
            drv.close()
    chk.extra["c19_rdb"] = {"cases": len(specs), "ages_poked": ages_seen, "wall_s": round(time.time() - t0, 1)}
    chk.assumptions += [
        "c19_rdb tie: the database clock is the harness's (every CURRENT_TIMESTAMP in the SQL text is replaced by a literal, microsecond resolution); %d cases per run use the real SQLite clock with ages >= 30 s away from the boundary" % n_real,
        "c19_rdb tie: SQLite returns the rows of the stale query in primary-key order (the relational model uses table order; the abstract sweep model is proved for every order)",
        "c19_rdb: FrozenTrial._validate / the direction-count test of Study.add_trial are not modelled (parameter values of stored trials lie in their distributions)",
    ]


def search(chk: core.Check) -> None:
    """failing-input search after a breakage: more cases on the real code, model-independent oracle only"""
    base = 77_000_000 + chk.seed * 100_000
    n = 150 if chk.tier == "quick" else 1500
    chk.search_log.append("c19_rdb: %d more cases (directed boundary ages first), model-independent oracle only" % n)
    correspond_specs = directed_cases() + [gen_case(base + i) for i in range(n)]
    for spec in correspond_specs:
        res = run_case(spec, chk.tmp, None, chk)
        for kind, why in res["violations"]:
            chk.violation({"kind": kind, "tie": "c19_rdb"}, {"rdb_case": spec, "why": why}, "C19 on RDBStorage (%s): %s" % (kind, why))
        if chk.violations:
            return


def replay(chk: core.Check, spec: dict[str, Any]) -> int:
    core.ensure_driver()
    drv = core.Driver("rdbheartbeat")
    try:
        res = run_case(spec, chk.tmp, drv, chk)
    finally:
        drv.close()
    for kind, why in res["violations"]:
        print("REPRODUCED (%s): %s" % (kind, why))
    if res["mismatch"]:
        print("model/implementation disagreement: %s" % res["mismatch"])
    if res["violations"] or res["mismatch"]:
        for t in res["trace"][-30:]:
            print("   ", json.dumps(t, default=str)[:220])
        return 1
    print("not reproduced")
    return 0


if __name__ == "__main__":  # development: the tie alone, without the Lean proofs
    import sys

    _chk = core.Check("C19", sys.argv[1] if len(sys.argv) > 1 else "quick", int(os.environ.get("VERIF_SEED", "0") or 0))
    translate(_chk)
    correspond(_chk, _chk.tier)
    print(json.dumps({"broken": _chk.broken[:4], "violations": [v["message"] for v in _chk.violations[:5]], "extra": _chk.extra,
                      "hist": {k: v for k, v in _chk.hist.items() if "c19rdb" in k}, "evaluations": _chk.evaluations, "distinct": len(_chk.distinct)}, indent=1, default=str)[:7000])
    shutil.rmtree(_chk.tmp, ignore_errors=True)
