"""C20 — objects read from a study are snapshots: later writes never change them.

translate:  verif/translators/theap.py regenerates lean/OptunaVerif/Generated/HeapMethods.lean (every object-handling
            method of InMemoryStorage / JournalStorageReplayResult / JournalStorage / _CachedStorage as a list of heap
            primitives, one per control-flow path; the Study/Trial getters that promise deep copies) from core.REPO.
prove:      Props/C20.lean — published_objects_immutable, deep_copies_stable_under_writes, deepcopy_results_independent
            (induction over histories on the heap model), and `decide` obligations that today's generated lists satisfy
            the fresh-mutation discipline.
correspond: alias-graph correspondence on the in-process storages (in-memory, journal): the generated primitive lists are
            run by the compiled driver next to the real storage; which objects are replaced / shared / handed out must be
            isomorphic (`is`-identity of FrozenTrials and of their dicts vs model addresses).
observe:    the property itself on every backend: every object returned by any getter (storage, Study, Trial level) is
            canonicalised at read time and compared again after every later write through every setter (same thread and
            a second thread); deep copies are scribbled on and the whole readable state must not move; a template given to
            add_trial is scribbled on afterwards.
"""
from __future__ import annotations

import datetime
import enum
import hashlib
import json
import itertools
import os
import random
import threading
import traceback
from typing import Any

import optuna
from optuna.distributions import BaseDistribution, CategoricalDistribution, FloatDistribution, IntDistribution, distribution_to_json
from optuna.study._frozen import FrozenStudy
from optuna.study import StudyDirection
from optuna.trial import FrozenTrial, TrialState

from verif import core, fleet
from verif import storage_k as K
from verif.translators import theap

RULE = (
    "matrix: on every backend, for every setter (storage / Study / Trial level) all getters are read first, the setter runs, "
    "all held results are re-compared (a case = backend x setter, non-trivial = >= 20 held objects and the setter succeeded); "
    "histories: seeded sequences of reads, writes, scribbles on deep copies (same thread, or writes in a second thread), "
    "non-trivial = >= 5 successful writes after >= 5 held reads; alias: seeded storage-level histories on the in-process "
    "storages compared with the generated heap model; distinct by SHA-1 of (backend, op list)"
)
GEN_PATH = os.path.join(core.LEAN_DIR, "OptunaVerif", "Generated", "HeapMethods.lean")


# ---- canonical deep value ------------------------------------------------------------------------
def canon(o: Any) -> Any:
    if isinstance(o, FrozenTrial):
        return ["FT", canon(o.__dict__)]
    if isinstance(o, FrozenStudy):
        return ["FS", canon(o.__dict__)]
    if isinstance(o, dict) or hasattr(o, "items") and hasattr(o, "keys"):
        return ["D", sorted(([repr(k), canon(v)] for k, v in o.items()), key=lambda p: p[0])]
    if isinstance(o, (list, tuple)):
        return ["L", [canon(x) for x in o]]
    if isinstance(o, bool) or o is None or isinstance(o, (int, str)):
        return o
    if isinstance(o, float):
        return repr(o)
    if isinstance(o, BaseDistribution):
        return ["dist", distribution_to_json(o)]
    if isinstance(o, (datetime.datetime, datetime.date)):
        return o.isoformat()
    if isinstance(o, enum.Enum):
        return str(o)
    return repr(o)


def safe_canon(o: Any) -> Any:
    """canon() of an object another thread may be writing into at this very moment (which, for a held snapshot, is
    exactly what must not happen): a dict that keeps changing under the iteration is reported as unstable."""
    for _ in range(5):
        try:
            return canon(o)
        except RuntimeError:
            continue
    return ["unstable: the object kept changing while it was read"]


def first_diff(a: Any, b: Any, path: str = "") -> str:
    if isinstance(a, list) and isinstance(b, list):
        if len(a) != len(b):
            return "%s: %s -> %s" % (path, json.dumps(a)[:140], json.dumps(b)[:140])
        for i, (x, y) in enumerate(zip(a, b)):
            if x != y:
                tag = x[0] if isinstance(x, list) and len(x) == 2 and isinstance(x[0], str) else i
                return first_diff(x, y, "%s/%s" % (path, tag))
        return path
    if isinstance(a, dict) and isinstance(b, dict):
        for k in sorted(set(a) | set(b)):
            if a.get(k) != b.get(k):
                return first_diff(a.get(k), b.get(k), "%s/%s" % (path, k))
        return path
    return "%s: %s -> %s" % (path, json.dumps(a)[:140], json.dumps(b)[:140])


def scribble(o: Any) -> None:
    """Write into every mutable part of an object the caller owns."""
    if isinstance(o, FrozenTrial):
        for d in (o._params, o._user_attrs, o._system_attrs):
            scribble(d)
        for dist in list(o._distributions.values()):
            # a deep copy owns its distribution objects too: edit them in place
            if isinstance(dist, CategoricalDistribution):
                dist.choices = tuple(dist.choices) + ("zz_scribble",)
            elif isinstance(dist, (FloatDistribution, IntDistribution)):
                dist.high = dist.high + 1000
        for v in list(o._params.values()):
            if isinstance(v, (list, dict)):
                scribble(v)
        o._distributions["zz_scribble"] = FloatDistribution(0, 1)
        o.intermediate_values[987] = -1.5
        if o._values is not None:
            o._values.append(12345.0)
            o._values[0] = -777.0
        o.state = TrialState.FAIL
        o._number = 4242
        o.datetime_complete = datetime.datetime(1999, 1, 1)
    elif isinstance(o, FrozenStudy):
        scribble(o.user_attrs)
        scribble(o.system_attrs)
        o._directions.append(StudyDirection.MAXIMIZE)
        o.study_name = "scribbled"
    elif isinstance(o, dict):
        for v in list(o.values()):
            if isinstance(v, (list, dict)):
                scribble(v)
        for k in list(o.keys())[:1]:
            o[k] = "scribbled"
        o["zz_scribble"] = [1, 2, 3]
    elif isinstance(o, list):
        for v in o:
            if isinstance(v, (list, dict, FrozenTrial, FrozenStudy)):
                scribble(v)
        o.append("zz_scribble")


# ---- the op grammar --------------------------------------------------------------------------------
DEEP_GETTERS = {"s.get_all_trials(deepcopy=True)", "s.get_all_studies", "study.trials", "study.get_trials(deepcopy=True)", "study.best_trial",
                "study.best_trials", "study.user_attrs", "study.system_attrs", "trial.params", "trial.distributions",
                "trial.user_attrs", "trial.system_attrs", "study.tell()", "callback.frozen_trial"}
STATE_FILTERS = [None, None, [TrialState.WAITING], [TrialState.COMPLETE], [TrialState.RUNNING, TrialState.WAITING],
                 [TrialState.COMPLETE, TrialState.PRUNED, TrialState.FAIL], (TrialState.WAITING,)]
READS = ["s.get_trial", "s.get_all_trials", "s.get_study_user_attrs", "s.get_study_system_attrs", "s.get_study_directions",
         "s.get_all_studies", "s.get_best_trial", "s.get_trial_params", "s.get_trial_user_attrs", "s.get_trial_system_attrs",
         "study.trials", "study.get_trials", "study.best_trial", "study.best_trials", "study.user_attrs", "study.system_attrs",
         "study.directions", "study._get_trials(use_cache)", "trial.params", "trial.distributions", "trial.user_attrs",
         "trial.system_attrs"]
WRITES = ["s.set_study_user_attr", "s.set_study_system_attr", "s.create_new_trial", "s.create_new_trial(template)", "s.set_trial_param",
          "s.set_trial_state_values", "s.set_trial_intermediate_value", "s.set_trial_user_attr", "s.set_trial_system_attr",
          "study.set_user_attr", "study.set_system_attr", "study.ask", "trial.suggest_float", "trial.suggest_int",
          "trial.suggest_categorical", "trial.report", "trial.set_user_attr", "trial.set_system_attr", "study.tell",
          "study.tell(state)", "study.enqueue_trial", "study.add_trial", "study.optimize"]


def _rank(label: str) -> int:
    return 0 if label.startswith("s.") else 1 if label.startswith("study.") else 2 if label.startswith("trial.") else 3


class Violation(Exception):
    def __init__(self, kind: str, getter: str, setter: str, why: str) -> None:
        super().__init__(why)
        self.kind, self.getter, self.setter = kind, getter, setter


class SpySampler(optuna.samplers.RandomSampler):
    """A sampler that keeps references (what the property is for)."""

    def __init__(self, seed: int, runner: "Runner") -> None:
        super().__init__(seed=seed)
        self.runner = runner

    def sample_independent(self, study: Any, trial: Any, param_name: str, param_distribution: Any) -> Any:
        r = self.runner
        r.hold("sampler:study._get_trials(use_cache)", study._get_trials(deepcopy=False, use_cache=True))
        # boundary observation (not the property): the FrozenTrial handed to the sampler is a shallow copy of the
        # Trial's private cache
        r.hold("sampler:trial-argument", trial, boundary=True)
        return super().sample_independent(study, trial, param_name, param_distribution)


class Runner:
    """Executes one history of ops on one study of one backend, checking the property as it goes."""

    def __init__(self, cfg: str, handle: fleet.Handle, name: str, seed: int) -> None:
        self.cfg = cfg
        self.h = handle
        self.st = handle.storage
        self.lock = threading.RLock()
        self.held: list[dict[str, Any]] = []
        self.study = optuna.create_study(storage=self.st, study_name=name, sampler=SpySampler(seed, self), direction="minimize")
        self.sid = self.study._study_id
        self.name = name
        self.tids: list[int] = []
        self.trials: list[Any] = []
        self.nwrites_ok = 0
        self.nreads = 0
        self.boundary: dict[str, int] = {}
        self.last_write = "(none)"
        self.compared = 0
        self.marks: list[dict[str, Any]] = []

    # -- holding and checking -----------------------------------------------------------------------
    def hold(self, label: str, obj: Any, boundary: bool = False, deep: bool = False) -> None:
        with self.lock:
            self.held.append({"label": label, "obj": obj, "snap": safe_canon(obj), "boundary": boundary, "deep": deep or label in DEEP_GETTERS})
            self.nreads += 1

    def verify(self, setter: str) -> None:
        with self.lock:
            held = list(self.held)
        bad: list[tuple[int, dict[str, Any], Any]] = []
        for hd in held:
            now = safe_canon(hd["obj"])
            self.compared += 1
            if now != hd["snap"]:
                if hd["boundary"]:
                    self.boundary[hd["label"]] = self.boundary.get(hd["label"], 0) + 1
                    hd["snap"] = now
                    continue
                bad.append((_rank(hd["label"]), hd, now))
        if bad:
            # name the most primitive getter whose result changed (storage level before Study/Trial level before hooks)
            _, hd, now = min(bad, key=lambda b: b[0])
            raise Violation("snapshot-changed", hd["label"], setter,
                            "[%s] the object returned by %s changed after %s: %s (%d held object(s) changed: %s)" % (
                                self.cfg, hd["label"], setter, first_diff(hd["snap"], now)[:300], len(bad), ", ".join(sorted({b[1]["label"] for b in bad}))[:300]))

    def dump(self) -> Any:
        """Everything the study returns, read afresh."""
        out: dict[str, Any] = {}
        out["trials"] = canon(self.st.get_all_trials(self.sid, deepcopy=False))
        out["user"] = canon(self.st.get_study_user_attrs(self.sid))
        out["system"] = canon(self.st.get_study_system_attrs(self.sid))
        out["dirs"] = canon(self.st.get_study_directions(self.sid))
        out["studies"] = canon([fs for fs in self.st.get_all_studies() if fs.study_name == self.name])
        out["study.trials"] = canon(self.study.get_trials(deepcopy=False))
        out["Trial"] = [[canon(t.params), canon(t.distributions), canon(t.user_attrs)] for t in self.trials]
        return out

    def scribble_check(self, label: str, obj: Any, kind: str = "deepcopy-not-independent") -> None:
        before = self.dump()
        scribble(obj)
        after = self.dump()
        if before != after:
            raise Violation(kind, label, "(user writes into the result)",
                            "[%s] writing into the %s %s changed what the study returns: %s" % (
                                self.cfg, "deep copy returned by" if kind.startswith("deep") else "object passed to", label, first_diff(before, after)[:300]))

    # -- execution --------------------------------------------------------------------------------------
    def tid(self, i: int) -> int | None:
        """the i-th most recent trial of the study"""
        return self.tids[-1 - (i % min(len(self.tids), 6))] if self.tids else None

    def trial(self, i: int) -> Any:
        return self.trials[-1 - (i % min(len(self.trials), 3))] if self.trials else None

    def refresh_tids(self) -> None:
        self.tids = [t._trial_id for t in self.st.get_all_trials(self.sid, deepcopy=False)]

    def read(self, op: dict[str, Any]) -> None:
        k, st, sid = op["op"], self.st, self.sid
        i = op.get("i", 0)
        try:
            if k == "s.get_trial":
                if self.tid(i) is not None:
                    self.hold(k, st.get_trial(self.tid(i)))
            elif k == "s.get_all_trials":
                states = op.get("states")
                if states is not None:
                    states = (tuple if op.get("tuple") else list)(TrialState(x) for x in states)
                dc = bool(op.get("deepcopy"))
                self.hold("s.get_all_trials(deepcopy=%s)" % dc, st.get_all_trials(sid, deepcopy=dc, states=states))
            elif k == "s.get_study_user_attrs":
                self.hold(k, st.get_study_user_attrs(sid))
            elif k == "s.get_study_system_attrs":
                self.hold(k, st.get_study_system_attrs(sid))
            elif k == "s.get_study_directions":
                self.hold(k, st.get_study_directions(sid))
            elif k == "s.get_all_studies":
                self.hold(k, [fs for fs in st.get_all_studies() if fs.study_name == self.name])
            elif k == "s.get_best_trial":
                self.hold(k, st.get_best_trial(sid))
            elif k in ("s.get_trial_params", "s.get_trial_user_attrs", "s.get_trial_system_attrs"):
                if self.tid(i) is not None:
                    self.hold(k, getattr(st, k[2:])(self.tid(i)))
            elif k == "study.trials":
                self.hold(k, self.study.trials)
            elif k == "study.get_trials":
                states = op.get("states")
                if states is not None:
                    states = [TrialState(x) for x in states]
                dc = bool(op.get("deepcopy"))
                self.hold("study.get_trials(deepcopy=%s)" % dc, self.study.get_trials(deepcopy=dc, states=states))
            elif k == "study.best_trial":
                self.hold(k, self.study.best_trial)
            elif k == "study.best_trials":
                self.hold(k, self.study.best_trials)
            elif k == "study.user_attrs":
                self.hold(k, self.study.user_attrs)
            elif k == "study.system_attrs":
                self.hold(k, self.study.system_attrs)
            elif k == "study.directions":
                self.hold(k, self.study.directions)
            elif k == "study._get_trials(use_cache)":
                self.hold(k, self.study._get_trials(deepcopy=False, use_cache=True))
            elif k in ("trial.params", "trial.distributions", "trial.user_attrs", "trial.system_attrs"):
                t = self.trial(i)
                if t is not None:
                    self.hold(k, getattr(t, k[6:]))
            else:
                raise AssertionError("unknown read op %r" % k)
        except (KeyError, ValueError, RuntimeError):
            pass  # nothing to read (no best trial yet, ...)

    def write(self, op: dict[str, Any]) -> bool:
        """True if the write went through."""
        k, st, sid = op["op"], self.st, self.sid
        i = op.get("i", 0)
        try:
            if k == "s.set_study_user_attr":
                st.set_study_user_attr(sid, op["k"], json.loads(json.dumps(op["v"])))
            elif k == "s.set_study_system_attr":
                st.set_study_system_attr(sid, op["k"], json.loads(json.dumps(op["v"])))
            elif k == "s.create_new_trial":
                self.tids.append(st.create_new_trial(sid))
            elif k == "s.create_new_trial(template)":
                tmpl = self.template(op)
                self.tids.append(st.create_new_trial(sid, tmpl))
                self.scribble_check("s.create_new_trial(template)", tmpl, kind="template-aliased")
            elif k == "s.set_trial_param":
                if self.tid(i) is None:
                    return False
                d = FloatDistribution(0, 1)
                st.set_trial_param(self.tid(i), op["name"], float(op["x"]), d)
            elif k == "s.set_trial_state_values":
                if self.tid(i) is None:
                    return False
                st.set_trial_state_values(self.tid(i), TrialState(op["state"]), op.get("values"))
            elif k == "s.set_trial_intermediate_value":
                if self.tid(i) is None:
                    return False
                st.set_trial_intermediate_value(self.tid(i), op["step"], float(op["x"]))
            elif k == "s.set_trial_user_attr":
                if self.tid(i) is None:
                    return False
                st.set_trial_user_attr(self.tid(i), op["k"], json.loads(json.dumps(op["v"])))
            elif k == "s.set_trial_system_attr":
                if self.tid(i) is None:
                    return False
                st.set_trial_system_attr(self.tid(i), op["k"], json.loads(json.dumps(op["v"])))
            elif k == "study.set_user_attr":
                self.study.set_user_attr(op["k"], json.loads(json.dumps(op["v"])))
            elif k == "study.set_system_attr":
                self.study.set_system_attr(op["k"], json.loads(json.dumps(op["v"])))
            elif k == "study.ask":
                t = self.study.ask()
                self.trials.append(t)
                self.refresh_tids()
            elif k == "trial.suggest_float":
                if self.trial(i) is None:
                    return False
                self.trial(i).suggest_float(op["name"], 0.0, 1.0)
            elif k == "trial.suggest_int":
                if self.trial(i) is None:
                    return False
                self.trial(i).suggest_int("i" + op["name"], 0, 10)
            elif k == "trial.suggest_categorical":
                if self.trial(i) is None:
                    return False
                self.trial(i).suggest_categorical("c" + op["name"], ["a", "b", "c"])
            elif k == "trial.report":
                if self.trial(i) is None:
                    return False
                self.trial(i).report(float(op["x"]), op["step"])
            elif k == "trial.set_user_attr":
                if self.trial(i) is None:
                    return False
                self.trial(i).set_user_attr(op["k"], json.loads(json.dumps(op["v"])))
            elif k == "trial.set_system_attr":
                if self.trial(i) is None:
                    return False
                self.trial(i).set_system_attr(op["k"], json.loads(json.dumps(op["v"])))
            elif k == "study.tell":
                if self.trial(i) is None:
                    return False
                ft = self.study.tell(self.trial(i), float(op["x"]))
                self.hold("study.tell()", ft)
            elif k == "study.tell(state)":
                if self.trial(i) is None:
                    return False
                ft = self.study.tell(self.trial(i), state=TrialState(op["state"]))
                self.hold("study.tell()", ft)
            elif k == "study.enqueue_trial":
                self.study.enqueue_trial({"x": float(op["x"])}, user_attrs={"q": json.loads(json.dumps(op["v"]))})
                self.refresh_tids()
            elif k == "study.add_trial":
                tmpl = self.template(op)
                self.study.add_trial(tmpl)
                self.refresh_tids()
                self.scribble_check("study.add_trial", tmpl, kind="template-aliased")
            elif k == "study.optimize":
                def objective(t: Any) -> float:
                    x = t.suggest_float("x", 0.0, 1.0)
                    t.report(x, 1)
                    t.set_user_attr("o", [x])
                    self.hold("objective:study.get_trials(deepcopy=False)", self.study.get_trials(deepcopy=False))
                    # how the trial ends varies: a usable value, values that make tell fail the trial with a
                    # warning (NaN / None / wrong arity), a pruned trial, a caught exception
                    how = int(float(op.get("x", 0.5)) * 1000) % 6
                    if how == 1:
                        return float("nan")
                    if how == 2:
                        return None  # type: ignore[return-value]
                    if how == 3:
                        return [x, x]  # type: ignore[return-value]
                    if how == 4:
                        raise optuna.TrialPruned()
                    if how == 5:
                        raise ValueError("objective failed")
                    return x

                def cb(study: Any, ft: Any) -> None:
                    self.hold("callback.frozen_trial", ft)
                    self.hold("callback:study.get_trials(deepcopy=False)", study.get_trials(deepcopy=False))

                self.study.optimize(objective, n_trials=1, callbacks=[cb], catch=(ValueError,))
                self.refresh_tids()
            else:
                raise AssertionError("unknown write op %r" % k)
            return True
        except Violation:
            raise
        except (KeyError, RuntimeError, ValueError, optuna.exceptions.UpdateFinishedTrialError, optuna.exceptions.StorageInternalError):
            return False

    def template(self, op: dict[str, Any]) -> FrozenTrial:
        state = TrialState(op.get("state", 1))
        return FrozenTrial(
            number=-1, trial_id=-1, state=state, value=None,
            values=[float(op.get("x", 0.5))] if state == TrialState.COMPLETE else None,
            datetime_start=datetime.datetime(2024, 1, 1, 1, 1, 1) if state != TrialState.WAITING else None,
            datetime_complete=datetime.datetime(2024, 1, 2) if state.is_finished() else None,
            params={"x": float(op.get("x", 0.5))}, distributions={"x": FloatDistribution(0, 1)},
            user_attrs={"tu": json.loads(json.dumps(op.get("v", [1])))}, system_attrs={"ts": {"n": [1, 2]}},
            intermediate_values={0: 0.25, 3: 0.75})

    def step(self, op: dict[str, Any]) -> None:
        k = op["op"]
        if k == "release":
            with self.lock:
                self.held = []
        elif k == "mark":
            self.marks.append({"tag": op["tag"], "held": len(self.held), "writes_ok": self.nwrites_ok, "compared": self.compared})
        elif k == "scribble":
            with self.lock:
                cands = [hd for hd in self.held if hd["deep"]]
                if not cands:
                    return
                hd = cands[op.get("i", 0) % len(cands)]
                self.held = [x for x in self.held if x is not hd]
            self.scribble_check(hd["label"], hd["obj"])
            self.verify("(user writes into the deep copy returned by %s)" % hd["label"])
        elif k in READS:
            self.read(op)
        else:
            ok = self.write(op)
            if ok:
                self.nwrites_ok += 1
            self.last_write = k
            self.verify(k)


def run_history(cfg: str, handle: fleet.Handle, name: str, seed: int, ops: list[dict[str, Any]], threaded_from: int | None = None) -> dict[str, Any]:
    """Raises Violation.  With `threaded_from=n` the ops from position n on that are writes run in a second thread while
    the first keeps reading and re-checking what it holds."""
    r = Runner(cfg, handle, name, seed)
    if threaded_from is None:
        for op in ops:
            r.step(op)
    else:
        for op in ops[:threaded_from]:
            r.step(op)
        tail = ops[threaded_from:]
        writes = [op for op in tail if op["op"] not in READS and op["op"] != "scribble"]
        reads = [op for op in tail if op["op"] in READS]
        err: list[BaseException] = []
        done = threading.Event()

        def writer() -> None:
            try:
                for op in writes:
                    if r.write(op):
                        r.nwrites_ok += 1
            except BaseException as e:  # noqa: BLE001
                err.append(e)
            finally:
                done.set()

        th = threading.Thread(target=writer)
        th.start()
        j = 0
        while not done.is_set():
            if reads:
                r.read(reads[j % len(reads)])
                j += 1
                if j > 4 * len(reads):
                    reads = []
            r.verify("(writes by a second thread: %s)" % ", ".join(sorted({op["op"] for op in writes}))[:200])
        th.join()
        if err:
            if isinstance(err[0], Violation):
                raise err[0]
            raise err[0]
        r.verify("(writes by a second thread: %s)" % ", ".join(sorted({op["op"] for op in writes}))[:200])
    return {"held": len(r.held), "writes_ok": r.nwrites_ok, "reads": r.nreads, "boundary": r.boundary, "compared": r.compared, "marks": r.marks}


# ---- generators --------------------------------------------------------------------------------------
def gen_read(r: random.Random, kind: str | None = None) -> dict[str, Any]:
    k = kind or r.choice(READS)
    op: dict[str, Any] = {"op": k, "i": r.randrange(6)}
    if k in ("s.get_all_trials", "study.get_trials"):
        f = r.choice(STATE_FILTERS)
        op["deepcopy"] = r.random() < 0.4
        op["states"] = None if f is None else [int(x.value) for x in f]
        op["tuple"] = isinstance(f, tuple)
    return op


def gen_write(r: random.Random, kind: str | None = None) -> dict[str, Any]:
    k = kind or r.choice(WRITES)
    op: dict[str, Any] = {"op": k, "i": r.randrange(6), "k": "k%d" % r.randrange(3), "v": r.choice(K.ATTRS), "name": "x%d" % r.randrange(3),
                          "x": r.choice([0.0, 0.25, 0.5, 1.0]), "step": r.randrange(4)}
    if k == "s.set_trial_state_values":
        op["state"] = r.choice([0, 1, 1, 2, 3, 4])
        op["values"] = [op["x"]] if op["state"] == 1 else None
    if k == "study.tell(state)":
        op["state"] = r.choice([2, 3])
    if k in ("s.create_new_trial(template)", "study.add_trial"):
        op["state"] = r.choice([1, 1, 2, 3, 4]) if k == "study.add_trial" else r.choice([0, 1, 2, 4])
    return op


PRELUDE = [
    {"op": "s.set_study_user_attr", "k": "k0", "v": {"n": [1, {"m": "z"}]}}, {"op": "study.set_system_attr", "k": "k1", "v": [1, 2]},
    {"op": "study.add_trial", "state": 1, "x": 0.25, "v": [1, 2]}, {"op": "study.enqueue_trial", "x": 0.5, "v": {"a": None}},
    {"op": "study.enqueue_trial", "x": 0.75, "v": [3]}, {"op": "study.ask"}, {"op": "trial.suggest_float", "i": 0, "name": "x0"},
    {"op": "trial.report", "i": 0, "x": 0.5, "step": 0}, {"op": "trial.set_user_attr", "i": 0, "k": "k0", "v": [1, 2]},
    {"op": "s.create_new_trial"}, {"op": "s.set_trial_param", "i": 3, "name": "x1", "x": 0.5},
    {"op": "s.set_trial_user_attr", "i": 3, "k": "k0", "v": {"a": None}}, {"op": "s.set_trial_system_attr", "i": 3, "k": "k1", "v": [1, 2]},
    {"op": "s.set_trial_intermediate_value", "i": 3, "step": 1, "x": 0.5}, {"op": "study.optimize"},
]


def all_reads() -> list[dict[str, Any]]:
    out: list[dict[str, Any]] = []
    for k in READS:
        if k in ("s.get_all_trials", "study.get_trials"):
            for dc in (False, True):
                for f in STATE_FILTERS[1:]:
                    out.append({"op": k, "deepcopy": dc, "states": None if f is None else [int(x.value) for x in f], "tuple": isinstance(f, tuple)})
        elif k.startswith("s.get_trial") or k.startswith("trial."):
            for i in range(6):
                out.append({"op": k, "i": i})
        else:
            out.append({"op": k})
    return out


SLOW = ("rdb", "cached", "grpc(rdb)", "grpc(cached)")
ROUND_PRELUDE = [{"op": "study.enqueue_trial", "x": 0.25, "v": [7]}, {"op": "s.create_new_trial"}, {"op": "s.set_trial_user_attr", "i": 0, "k": "k2", "v": [1, {"m": "z"}]},
                 {"op": "study.ask"}, {"op": "trial.suggest_float", "i": 0, "name": "x0"}, {"op": "trial.set_user_attr", "i": 0, "k": "k1", "v": {"a": None}}]


def lite_reads(rnd: int) -> list[dict[str, Any]]:
    out: list[dict[str, Any]] = []
    for n, k in enumerate(READS):
        op: dict[str, Any] = {"op": k, "i": (rnd + n) % 3}
        if k in ("s.get_all_trials", "study.get_trials"):
            f = STATE_FILTERS[1:][(rnd + n) % (len(STATE_FILTERS) - 1)]
            for dc in (False, True):
                out.append(dict(op, deepcopy=dc, states=None if f is None else [int(x.value) for x in f], tuple=isinstance(f, tuple)))
        else:
            out.append(op)
    return out


def matrix_history(r: random.Random, lite: bool) -> list[dict[str, Any]]:
    """One history per backend: a study with trials in every state; then for every setter: fresh RUNNING/WAITING trials,
    every getter is read and held, the setter is applied to the recent trials, everything held is re-compared."""
    ops: list[dict[str, Any]] = [dict(o) for o in PRELUDE]
    for rnd, w in enumerate(WRITES):
        ops.append({"op": "release"})
        ops += [dict(o) for o in ROUND_PRELUDE]
        ops += lite_reads(rnd) if lite else all_reads()
        before = {"op": "mark", "tag": "before:" + w}
        ops.append(before)
        once = w in ("s.set_study_user_attr", "s.set_study_system_attr", "study.set_user_attr", "study.set_system_attr", "s.create_new_trial",
                     "study.ask", "study.optimize", "study.enqueue_trial", "study.add_trial", "s.create_new_trial(template)")
        for i in range(2 if once else 4):
            op = gen_write(r, w)
            op["i"] = i
            if w == "s.set_trial_state_values":
                op["state"], op["values"] = [1, 0, 2, 4][i], ([0.5] if i == 0 else None)
            ops.append(op)
        ops.append({"op": "mark", "tag": "after:" + w})
    return ops


def random_history(r: random.Random, n: int) -> list[dict[str, Any]]:
    ops = [dict(o) for o in PRELUDE[: r.randrange(len(PRELUDE) + 1)]]
    for _ in range(n):
        x = r.random()
        if x < 0.42:
            ops.append(gen_read(r))
        elif x < 0.92:
            ops.append(gen_write(r))
        else:
            ops.append({"op": "scribble", "i": r.randrange(50)})
    return ops


# ---- workers --------------------------------------------------------------------------------------
def _matrix_worker(args: tuple[str, str, int, int, int, int]) -> list[dict[str, Any]]:
    cfg, tmp, seed, n_random, max_ops, n_thread = args
    out: list[dict[str, Any]] = []
    try:
        h = fleet.make(cfg, tmp)
    except Exception as e:  # noqa: BLE001
        return [{"cfg": cfg, "kind": "infra", "why": "cannot create backend: %r" % (e,)}]
    r = random.Random(seed)
    cases: list[tuple[str, str, list[dict[str, Any]], int | None]] = []
    cases.append(("matrix", "all-setters", matrix_history(r, cfg in SLOW), None))
    if cfg in SLOW:
        n_random, n_thread = max(2, n_random // 3), max(1, n_thread // 3)
    for i in range(n_random):
        cases.append(("history", "h%d" % i, random_history(r, r.randint(10, max_ops)), None))
    for i in range(n_thread):
        ops = random_history(r, r.randint(20, max_ops))
        cases.append(("threads", "t%d" % i, ops, r.randint(len(ops) // 4, len(ops) // 2)))
    try:
        for n, (mode, tag, ops, thr) in enumerate(cases):
            name = "c20-%s-%d-%d" % (mode, seed, n)
            try:
                st = run_history(cfg, h, name, seed + n, ops, thr)
                out.append({"cfg": cfg, "kind": "ok", "mode": mode, "tag": tag, "nops": len(ops), "stats": st,
                            "sig": hashlib.sha1(core.canon(ops).encode()).hexdigest()[:16], "sample": ops[-3:]})
            except Violation as v:
                out.append({"cfg": cfg, "kind": "violation", "mode": mode, "tag": tag, "vkind": v.kind, "getter": v.getter, "setter": v.setter,
                            "why": str(v), "ops": ops, "threaded_from": thr, "seed": seed + n})
            except Exception as e:  # noqa: BLE001
                out.append({"cfg": cfg, "kind": "crash", "mode": mode, "tag": tag, "why": "%s: %s | %s" % (type(e).__name__, str(e)[:200], traceback.format_exc()[-600:]),
                            "ops": ops[-8:]})
    finally:
        h.close()
    return out


def shrink(cfg: str, tmp: str, v: dict[str, Any]) -> tuple[list[dict[str, Any]], dict[str, Any]]:
    """Delta-debug the op list of a violation (sequential re-execution on a fresh backend); returns the smaller history
    and the violation it produces."""
    h = fleet.make(cfg, tmp)
    counter = [0]
    last: dict[str, Any] = {}

    def fails(ops: list[dict[str, Any]]) -> bool:
        counter[0] += 1
        try:
            run_history(cfg, h, "c20-shrink-%d-%d" % (os.getpid(), counter[0]), v["seed"], ops, None)
        except Violation as e:
            if e.kind == v["vkind"]:
                last[core.canon(ops)] = {"vkind": e.kind, "getter": e.getter, "setter": e.setter, "why": str(e)}
                return True
            return False
        except Exception:  # noqa: BLE001
            return False
        return False

    try:
        if not fails(v["ops"]):
            return v["ops"], v
        ops = core.ddmin(list(v["ops"]), fails, budget=70)
        return ops, dict(v, **last.get(core.canon(ops), {}), threaded_from=None)
    finally:
        h.close()


def run_jobs(chk: core.Check, jobs: list[tuple[Any, ...]]) -> list[list[dict[str, Any]]]:
    """One process per backend.  A worker that is killed from outside (it happens on a shared machine) must not hang the
    check: its job is run again, and only a job that cannot be completed in three attempts is an infrastructure failure."""
    import multiprocessing as mp
    from concurrent.futures import ProcessPoolExecutor, as_completed
    from concurrent.futures.process import BrokenProcessPool

    done: dict[int, list[dict[str, Any]]] = {}
    budget = 3000 if chk.tier == "thorough" else 900
    for attempt in range(3):
        todo = [i for i in range(len(jobs)) if i not in done]
        if not todo:
            break
        ex = ProcessPoolExecutor(max_workers=min(len(todo), 12), mp_context=mp.get_context("spawn"))
        try:
            futs = {ex.submit(_matrix_worker, jobs[i]): i for i in todo}
            try:
                for f in as_completed(futs, timeout=budget):
                    try:
                        done[futs[f]] = f.result()
                    except BrokenProcessPool:
                        chk.count("worker-process-died-job-rerun")
            except TimeoutError:
                chk.count("worker-timeout")
        finally:
            ex.shutdown(wait=False, cancel_futures=True)
    missing = [jobs[i][0] for i in range(len(jobs)) if i not in done]
    if missing:
        raise core.InfraError("worker processes for %s died or timed out three times" % missing)
    return [done[i] for i in range(len(jobs))]


def explore(chk: core.Check, cfgs: list[str], n_random: int, max_ops: int, n_thread: int, tag: str = "") -> None:
    jobs = [(cfg, chk.tmp, chk.seed * 7919 + 101 * i + (17 if tag else 0), n_random, max_ops, n_thread) for i, cfg in enumerate(cfgs)]
    results = run_jobs(chk, jobs)
    seen_sig: set[str] = set()
    for res in results:
        for c in res:
            if c["kind"] == "ok" and c["mode"] == "matrix":
                st = c["stats"]
                marks = {m["tag"]: m for m in st["marks"]}
                for w in WRITES:
                    b, a = marks.get("before:" + w), marks.get("after:" + w)
                    if b is None or a is None:
                        continue
                    ok = a["writes_ok"] - b["writes_ok"]
                    chk.case({"cfg": c["cfg"], "mode": "matrix", "setter": w, "held": b["held"], "writes_ok": ok, "compared": a["compared"] - b["compared"]},
                             nontrivial=b["held"] >= 20 and ok >= 1)
                    chk.count("matrix:%s:%s" % (w, "applied" if ok else "never-applied"))
                chk.count("cases:matrix:%s" % c["cfg"])
                chk.count("held_objects_compared", st["compared"])
                for bnd, n in st["boundary"].items():
                    chk.count("boundary:%s-changed" % bnd, n)
                chk.traces_validated += 1
            elif c["kind"] == "ok":
                st = c["stats"]
                nontrivial = (st["held"] >= 20 and st["writes_ok"] >= 1) if c["mode"] == "matrix" else (st["writes_ok"] >= 5 and st["reads"] >= 5)
                chk.case({"cfg": c["cfg"], "mode": c["mode"], "tag": c["tag"], "ops": c["nops"], "held": st["held"], "writes_ok": st["writes_ok"], "last_ops": c["sample"],
                          "sig": c["sig"]}, nontrivial=nontrivial)
                chk.count("cases:%s:%s" % (c["mode"], c["cfg"]))
                chk.count("held_objects_compared", st["compared"])
                chk.count("writes_ok", st["writes_ok"])
                for b, n in st["boundary"].items():
                    chk.count("boundary:%s-changed" % b, n)
                chk.traces_validated += 1
            elif c["kind"] == "violation":
                sig = {"backend": c["cfg"], "kind": c["vkind"], "getter": c["getter"], "setter": c["setter"]}
                key = core.canon(sig)
                if key in seen_sig:
                    chk.count("violations_duplicate")
                    continue
                seen_sig.add(key)
                ops = c["ops"]
                if len(seen_sig) == 1 and not chk.violations:
                    try:
                        ops, c = shrink(c["cfg"], chk.tmp, c)
                        sig = {"backend": c["cfg"], "kind": c["vkind"], "getter": c["getter"], "setter": c["setter"]}
                    except Exception as e:  # noqa: BLE001
                        chk.search_log.append("shrink failed: %r" % (e,))
                chk.violation(sig, {"cfg": c["cfg"], "seed": c["seed"], "ops": ops, "threaded_from": c["threaded_from"], "mode": c["mode"]}, c["why"])
            elif c["kind"] == "infra":
                raise core.InfraError(c["why"])
            else:
                chk.broke("correspondence", {"cfg": c["cfg"], "harness-crash": c["why"], "ops": c["ops"]})


# ---- alias-graph correspondence with the generated heap model ------------------------------------------
TF = ["_params", "_distributions", "_user_attrs", "_system_attrs", "intermediate_values", "_values"]


class AliasMismatch(Exception):
    pass


class Alias:
    """Runs storage-level ops on a real in-process storage and on the generated model; the object graphs must stay
    isomorphic (real `id` <-> model address)."""

    def __init__(self, cfg: str, handle: fleet.Handle, drv: core.Driver) -> None:
        self.cfg = cfg
        self.st = handle.storage
        self.journal = cfg.startswith("journal")
        self.drv = drv
        drv.ask({"cmd": "reset"})
        self.r2m: dict[int, int] = {}
        self.m2r: dict[int, int] = {}
        self.keep: list[Any] = []
        self.sid = -1
        self.tids: list[int] = []
        self.paths_used: dict[str, int] = {}

    # real side ------------------------------------------------------------------------------------------
    def real_trial(self, tid: int) -> Any:
        if self.journal:
            return self.st._replay_result._trials.get(tid)
        if tid not in self.st._trial_id_to_study_id_and_number:
            return None
        sid, num = self.st._trial_id_to_study_id_and_number[tid]
        return self.st._studies[sid].trials[num]

    def real_attr(self, which: int) -> Any:
        if self.journal:
            fs = self.st._replay_result._studies.get(self.sid)
            return None if fs is None else [fs.user_attrs, fs.system_attrs, fs._directions][which]
        si = self.st._studies.get(self.sid)
        return None if si is None else [si.user_attrs, si.system_attrs, si.directions][which]

    def slot_of_trial(self, tid: int) -> int:
        return 100 + self.tids.index(tid)

    def method(self, op: str) -> str:
        if self.journal:
            m = {"create_new_study": "JournalStorageReplayResult._apply_create_study", "create_new_trial": "JournalStorageReplayResult._apply_create_trial",
                 "get_best_trial": "BaseStorage.get_best_trial"}
            if op in m:
                return m[op]
            if op.startswith("set_"):
                return "JournalStorageReplayResult._apply_" + op
            if op.startswith("get_trial_") and op != "get_trial_id_from_study_id_trial_number":
                return "BaseStorage." + op
            return "JournalStorage." + op
        if op in ("get_trial_params", "get_trial_user_attrs", "get_trial_system_attrs"):
            return "BaseStorage." + op
        return "InMemoryStorage." + op

    # unification ------------------------------------------------------------------------------------------
    def uni(self, real: Any, addr: int | None, bind: dict[int, int], what: str) -> None:
        if real is None or addr is None:
            if not (real is None and addr is None):
                raise AliasMismatch("%s: real %s, model %s" % (what, "absent" if real is None else "present", "absent" if addr is None else "present"))
            return
        rid = id(real)
        self.keep.append(real)
        a = bind.get(rid, self.r2m.get(rid))
        if a is not None:
            if a != addr:
                raise AliasMismatch("%s: the real object is one seen before (model address %d) but the model has address %d here" % (what, a, addr))
            return
        inv = {v: k for k, v in bind.items()}
        if addr in self.m2r or addr in inv:
            raise AliasMismatch("%s: the model reuses address %d but the real object is a new one" % (what, addr))
        bind[rid] = addr

    def uni_trial(self, t: Any, addr: int | None, objs: dict[int, Any], bind: dict[int, int], what: str) -> None:
        self.uni(t, addr, bind, what)
        if t is None or addr is None:
            return
        cells = dict((c[0], c[1]) for c in objs[addr][0])
        for f, attr in enumerate(TF):
            real = getattr(t, attr)
            m = cells.get(f)
            self.uni(real, m if isinstance(m, int) else None, bind, "%s.%s" % (what, attr))

    def compare(self, res: dict[str, Any], real_rets: list[tuple[str, Any]], probe: list[int]) -> dict[int, int]:
        """One candidate path against the real observation; returns the new bindings or raises."""
        objs = {o[0]: (o[1], o[2]) for o in res["objs"]}
        bind: dict[int, int] = {}
        slots = dict((s[0], s[1]) for s in res["slots"])
        for s in probe:
            if s >= 100:
                tid = self.tids[s - 100]
                self.uni_trial(self.real_trial(tid), slots.get(s), objs, bind, "slot of trial %d" % (s - 100))
            else:
                self.uni(self.real_attr(s), slots.get(s), bind, "study attribute slot %d" % s)
        mrets = res["rets"]
        if len(mrets) != len(real_rets):
            raise AliasMismatch("model returns %d handle(s), real %d" % (len(mrets), len(real_rets)))
        for (shape, real), m in zip(real_rets, mrets):
            if m["k"] == "view":
                raise AliasMismatch("model returns the container itself")
            a = m["a"]
            if (m["k"] == "copy") != shape.startswith("copy"):
                pass  # whether something is a copy is decided by identity below, not by the tag
            if shape.endswith("trial"):
                self.uni_trial(real, a, objs, bind, "returned trial")
            elif shape.endswith("trials"):
                self.uni(real, a, bind, "returned list")
                cells = sorted((c for c in objs[a][0]), key=lambda c: c[0])
                if len(cells) != len(real):
                    raise AliasMismatch("returned list has %d element(s), model %d" % (len(real), len(cells)))
                for i, (t, c) in enumerate(zip(real, cells)):
                    self.uni_trial(t, c[1] if isinstance(c[1], int) else None, objs, bind, "returned list[%d]" % i)
            elif shape.endswith("dicts"):
                self.uni(None if real is None else real, a, bind, "returned list")
                cells = sorted((c for c in objs[a][0]), key=lambda c: c[0])
                if len(cells) != len(real):
                    raise AliasMismatch("returned collection has %d element(s), model %d" % (len(real), len(cells)))
                for i, (d, c) in enumerate(zip(real, cells)):
                    self.uni(d, c[1] if isinstance(c[1], int) else None, bind, "returned collection[%d]" % i)
            else:
                self.uni(real, a, bind, "returned object")
        return bind

    def call(self, op: str, segs: list[dict[str, Any]], real_rets: list[tuple[str, Any]], probe: list[int]) -> None:
        name = self.method(op)
        resp = self.drv.ask({"cmd": "eval", "method": name, "segs": segs, "probe": probe})
        if resp.get("k") != "paths" or not resp["paths"]:
            raise AliasMismatch("driver has no generated method %s (%s)" % (name, resp))
        errs = []
        for p in resp["paths"]:
            try:
                bind = self.compare(p["res"], real_rets, probe)
            except AliasMismatch as e:
                errs.append("path %d: %s" % (p["path"], e))
                continue
            for rid, a in bind.items():
                self.r2m[rid] = a
                self.m2r[a] = rid
            self.drv.ask({"cmd": "commit", "method": name, "path": p["path"], "segs": segs})
            self.paths_used["%s#%d" % (name, p["path"])] = self.paths_used.get("%s#%d" % (name, p["path"]), 0) + 1
            return
        raise AliasMismatch("%s: no path of the generated method explains what the real storage did: %s" % (name, "; ".join(errs)[:700]))

    def all_slots(self) -> list[int]:
        return [0, 1, 2] + [100 + i for i in range(len(self.tids))]

    # ops ------------------------------------------------------------------------------------------------------
    def run(self, op: dict[str, Any]) -> None:
        k, st = op["op"], self.st
        seg = {"src": 0, "dst": 0, "srcs": [], "key": 1, "val": 1}
        if k == "create_new_study":
            self.sid = st.create_new_study([StudyDirection.MINIMIZE], "alias")
            self.call(k, [dict(seg, dst=d) for d in ([2, 0, 1] if not self.journal else [2, 0, 1])], [], [0, 1, 2])
            return
        tid = self.tids[op["i"] % len(self.tids)] if self.tids and "i" in op else None
        slot = None if tid is None else self.slot_of_trial(tid)
        try:
            if k == "create_new_trial":
                tmpl = None
                if op.get("template"):
                    tmpl = FrozenTrial(number=-1, trial_id=-1, state=TrialState(op["state"]), value=None, values=[0.5] if op["state"] == 1 else None,
                                       datetime_start=datetime.datetime(2024, 1, 1), datetime_complete=datetime.datetime(2024, 1, 2) if op["state"] in (1, 2, 3) else None,
                                       params={"x": 0.5}, distributions={"x": FloatDistribution(0, 1)}, user_attrs={"a": [1]}, system_attrs={}, intermediate_values={1: 0.5})
                new = st.create_new_trial(self.sid, tmpl)
                self.tids.append(new)
                self.call(k, [dict(seg, dst=self.slot_of_trial(new))], [], self.all_slots())
            elif k in ("set_study_user_attr", "set_study_system_attr"):
                s = 0 if k.endswith("user_attr") else 1
                getattr(st, k)(self.sid, op["k"], op["v"])
                self.call(k, [dict(seg, src=s, dst=s)], [], self.all_slots())
            elif k.startswith("set_trial_"):
                if tid is None:
                    return
                try:
                    if k == "set_trial_param":
                        st.set_trial_param(tid, op["name"], 0.5, FloatDistribution(0, 1))
                    elif k == "set_trial_state_values":
                        st.set_trial_state_values(tid, TrialState(op["state"]), [0.5] if op["state"] == 1 else None)
                    elif k == "set_trial_intermediate_value":
                        st.set_trial_intermediate_value(tid, op["step"], 0.5)
                    else:
                        getattr(st, k)(tid, op["k"], op["v"])
                finally:
                    self.call(k, [dict(seg, src=slot, dst=slot, srcs=[slot])], [], self.all_slots())
            elif k == "get_trial":
                if tid is None:
                    return
                t = st.get_trial(tid)
                self.call(k, [dict(seg, src=slot)], [("trial", t)], self.all_slots())
            elif k in ("get_trial_params", "get_trial_user_attrs", "get_trial_system_attrs"):
                if tid is None:
                    return
                d = getattr(st, k)(tid)
                self.call(k, [dict(seg, src=slot)], [("dict", d)], self.all_slots())
            elif k == "get_all_trials":
                states = None if op["states"] is None else (tuple if op.get("tuple") else list)(TrialState(x) for x in op["states"])
                ts = st.get_all_trials(self.sid, deepcopy=op["deepcopy"], states=states)
                srcs = [self.slot_of_trial(t._trial_id) for t in ts]
                self.call(k, [dict(seg, src=srcs[0] if srcs else 99, srcs=srcs)], [("copy-trials" if op["deepcopy"] else "trials", ts)], self.all_slots())
            elif k in ("get_study_user_attrs", "get_study_system_attrs", "get_study_directions"):
                s = {"get_study_user_attrs": 0, "get_study_system_attrs": 1, "get_study_directions": 2}[k]
                d = getattr(st, k)(self.sid)
                self.call(k, [dict(seg, src=s)], [("dict", d)], self.all_slots())
            elif k == "get_all_studies":
                fs = [f for f in st.get_all_studies() if f._study_id == self.sid][0]
                if self.journal:
                    self.call(k, [dict(seg, srcs=[0, 1])], [("copy-dicts", [fs.user_attrs, fs.system_attrs])], self.all_slots())
                else:
                    self.call(k, [dict(seg, src=0), dict(seg, src=1)], [("copy-dict", fs.user_attrs), ("copy-dict", fs.system_attrs)], self.all_slots())
            elif k == "get_best_trial":
                t = st.get_best_trial(self.sid)
                b = self.slot_of_trial(t._trial_id)
                done = [self.slot_of_trial(x._trial_id) for x in st.get_all_trials(self.sid, deepcopy=False, states=[TrialState.COMPLETE])]
                self.call(k, [dict(seg, src=b, srcs=done)], [("trial", t)], self.all_slots())
            else:
                raise AssertionError("unknown alias op %r" % k)
        except (KeyError, ValueError, RuntimeError, optuna.exceptions.UpdateFinishedTrialError):
            pass


ALIAS_OPS = ["create_new_trial", "create_new_trial", "set_study_user_attr", "set_study_system_attr", "set_trial_param", "set_trial_state_values",
             "set_trial_intermediate_value", "set_trial_user_attr", "set_trial_system_attr", "get_trial", "get_trial_params", "get_trial_user_attrs",
             "get_trial_system_attrs", "get_all_trials", "get_all_trials", "get_study_user_attrs", "get_study_system_attrs", "get_study_directions",
             "get_all_studies", "get_best_trial"]


def alias_history(r: random.Random, n: int) -> list[dict[str, Any]]:
    ops: list[dict[str, Any]] = [{"op": "create_new_study"}, {"op": "create_new_trial"}]
    for _ in range(n):
        k = r.choice(ALIAS_OPS)
        op: dict[str, Any] = {"op": k, "i": r.randrange(8), "k": "k%d" % r.randrange(3), "v": r.choice(K.ATTRS), "name": "x%d" % r.randrange(3), "step": r.randrange(3)}
        if k == "create_new_trial" and r.random() < 0.4:
            op.update(template=True, state=r.choice([0, 1, 2, 4]))
        if k == "set_trial_state_values":
            op["state"] = r.choice([0, 1, 1, 2, 3, 4])
        if k == "get_all_trials":
            f = r.choice(STATE_FILTERS)
            op.update(deepcopy=r.random() < 0.4, states=None if f is None else [int(x.value) for x in f], tuple=isinstance(f, tuple))
        ops.append(op)
    return ops


def alias_case(cfg: str, tmp: str, ops: list[dict[str, Any]], drv: core.Driver) -> dict[str, int]:
    h = fleet.make(cfg, tmp)
    try:
        a = Alias(cfg, h, drv)
        for n, op in enumerate(ops):
            try:
                a.run(op)
            except AliasMismatch as e:
                raise AliasMismatch("op %d %s: %s" % (n, json.dumps(op)[:160], e)) from None
        return a.paths_used
    finally:
        h.close()


def alias_explore(chk: core.Check, n_cases: int, max_ops: int) -> None:
    drv = core.Driver("heap")
    try:
        for cfg in ("mem", "journal-symlink", "journal-redis"):
            for i in range(n_cases):
                r = random.Random(chk.seed * 100003 + i * 31 + len(cfg))
                ops = alias_history(r, r.randint(8, max_ops))
                try:
                    try:
                        used = alias_case(cfg, chk.tmp, ops, drv)
                    except core.DriverBroken:
                        # the driver process went away (killed from outside?): once more with a new one
                        chk.count("driver-restarted")
                        drv.close()
                        drv = core.Driver("heap")
                        try:
                            used = alias_case(cfg, chk.tmp, ops, drv)
                        except core.DriverBroken as e:
                            raise core.InfraError("the model driver died twice on the same case: %s" % str(e)[:300])
                    chk.case({"cfg": cfg, "mode": "alias", "ops": ops[:6], "n": len(ops), "sig": hashlib.sha1(core.canon(ops).encode()).hexdigest()[:16]}, nontrivial=len(used) >= 6)
                    chk.count("cases:alias:" + cfg)
                    for p, n in used.items():
                        chk.count("alias-path:" + p, n)
                    chk.traces_validated += 1
                except AliasMismatch as e:
                    def fails(sub: list[dict[str, Any]]) -> bool:
                        try:
                            alias_case(cfg, chk.tmp, sub, drv)
                        except AliasMismatch:
                            return True
                        except Exception:  # noqa: BLE001
                            return False
                        return False
                    small = core.ddmin(list(ops), fails, budget=60)
                    chk.broke("correspondence", {"cfg": cfg, "why": str(e)[:900], "ops": small[:25]})
                    break
    finally:
        drv.close()


# ---- translation ---------------------------------------------------------------------------------------
def translate(chk: core.Check) -> dict[str, Any]:
    g = theap.generate(core.REPO)
    changed = core.write_if_changed(GEN_PATH, g["lean"])
    chk.translated.append("HeapMethods.methods: %d primitive lists (%d methods); deepApi: %d; regenerated=%s" % (
        len(g["methods"]), len({n.split("#")[0] for n, _ in g["methods"]}), len(g["api"]), changed))
    chk.translated += ["%s := %s" % (n, " ".join(p) or "(no object handling)") for n, p in g["methods"] + g["api"]]
    chk.extra["translator_notes"] = g["notes"]
    for b in g["untranslatable"]:
        chk.broke("translation", b)
    return g


def undisciplined(chk: core.Check) -> list[dict[str, Any]]:
    """Ask the compiled model which generated methods break the discipline (for the search and the report)."""
    try:
        core.ensure_driver()
        drv = core.Driver("heap")
        try:
            m = drv.ask({"cmd": "methods"})
        finally:
            drv.close()
    except core.DriverBroken as e:
        chk.broke("correspondence", {"driver": str(e)[:600]})
        return []
    bad = [x for x in m["methods"] if not x["disciplined"]] + [x for x in m["deepApi"] if not (x["deepOnly"] and x["disciplined"])]
    return bad


# ---- directed scenarios ------------------------------------------------------------------------------
def constrained_best(chk: core.Check, cfgs: list[str]) -> None:
    """`Study.best_trial` of a CONSTRAINED single-objective study whose best-valued trial is infeasible (the
    fallback path picks a feasible trial out of get_trials(deepcopy=False)): the result is a deep copy like every
    other result of the Study API - scribbling into it must not change what the study returns afterwards."""
    from optuna.samplers._base import _CONSTRAINTS_KEY

    for cfg in cfgs:
        h = fleet.make(cfg, chk.tmp)
        try:
            name = "cb%d_%d" % (os.getpid(), next(_SCEN))
            study = optuna.create_study(storage=h.storage, study_name=name, direction=chk.rng.choice(["minimize", "maximize"]))
            sign = 1.0 if study.direction == StudyDirection.MINIMIZE else -1.0
            plan = [(0.0, [1.0]), (1.0, [-1.0]), (2.0, [0.0]), (0.5, [2.0, -1.0]), (3.0, None)]
            chk.rng.shuffle(plan)
            for v, cons in plan:
                t = study.ask()
                t.suggest_float("x", 0, 1)
                t.set_user_attr("u", [v])
                if cons is not None:
                    study._storage.set_trial_system_attr(t._trial_id, _CONSTRAINTS_KEY, cons)
                study.tell(t, sign * v)

            def view() -> Any:
                return {"trials": canon(study.get_trials(deepcopy=False)), "storage": canon(h.storage.get_all_trials(study._study_id, deepcopy=False)),
                        "best": canon(study.best_trial)}

            before = view()
            got = study.best_trial
            feasible_best = [t for t in study.get_trials(deepcopy=False) if t.value == sign * 1.0]
            chk.case({"part": "constrained-best", "cfg": cfg}, nontrivial=True)
            chk.count("constrained-best:" + cfg)
            if not feasible_best or got.number != feasible_best[0].number:
                chk.count("constrained-best:fallback-not-taken")
            scribble(got)
            after = view()
            if before != after:
                chk.violation({"kind": "deepcopy-not-independent", "getter": "study.best_trial", "path": "constrained-fallback"},
                              {"part": "constrained-best", "cfg": cfg, "plan": plan},
                              "[%s] writing into the trial returned by study.best_trial (constrained study, best-valued trial infeasible) changed what the study returns: %s" % (
                                  cfg, first_diff(before, after)[:300]))
                return
        finally:
            h.close()


def template_alias(chk: core.Check, cfgs: list[str]) -> None:
    """A deep-copied result handed back to the study: `t = study.trials[k]` (a deep copy), `study.add_trial(t)` /
    `storage.create_new_trial(study_id, template_trial=t)`, then the caller goes on editing ITS object `t`.  What the study and
    the storage return afterwards must not change (the storage must not keep the caller's object or its dictionaries): the new
    trial is read by id first - before any full sync replaces a cached entry - then through every other getter."""
    for cfg in cfgs:
        for via in ("add_trial", "create_new_trial"):
            h = fleet.make(cfg, chk.tmp)
            try:
                name = "ta%d_%d" % (os.getpid(), next(_SCEN))
                study = optuna.create_study(storage=h.storage, study_name=name)
                for i in range(2):
                    t0 = study.ask()
                    t0.suggest_float("x", 0, 1)
                    t0.suggest_categorical("c", ["a", "b"])
                    t0.set_user_attr("u", [i])
                    t0.report(0.5, 0)
                    study.tell(t0, float(i))
                t = study.trials[1]           # a deep-copied result
                if via == "add_trial":
                    study.add_trial(t)
                    tid = h.storage.get_trial_id_from_study_id_trial_number(study._study_id, 2)
                else:
                    tid = h.storage.create_new_trial(study._study_id, template_trial=t)
                first = canon(h.storage.get_trial(tid))
                held = h.storage.get_trial(tid)
                held_before = canon(held)
                scribble(t)
                second = canon(h.storage.get_trial(tid))
                rest = {"trials": [canon(x) for x in study.get_trials(deepcopy=False)], "storage": [canon(x) for x in h.storage.get_all_trials(study._study_id, deepcopy=False)]}
                chk.case({"part": "template-alias", "cfg": cfg, "via": via}, nontrivial=True)
                chk.count("template-alias:" + cfg)
                if first != second or canon(held) != held_before or rest["trials"][2] != first or rest["storage"][2] != first:
                    chk.violation({"kind": "template-aliased", "via": via},
                                  {"part": "template-alias", "cfg": cfg, "via": via},
                                  "[%s] %s(t) with t = study.trials[1] (a deep copy): editing t afterwards changed what the storage returns for the new trial: %s" % (
                                      cfg, via, (first_diff(first, second) or first_diff(held_before, canon(held)) or first_diff(first, rest["trials"][2]) or first_diff(first, rest["storage"][2]))[:300]))
                    return
            finally:
                h.close()


def publish_then_mutate_probe(chk: core.Check) -> None:
    """InMemoryStorage: while a writer is inside `set_trial_state_values` at the moment it takes the timestamp, ANOTHER
    thread reads that trial by id (and lists the study).  On a storage whose readers take the lock the reader simply
    waits (nothing is observed); if a reader gets an object at that moment, that object must never change afterwards
    and must be a state the trial was in (a finished trial has its completion time)."""
    import threading

    from optuna.storages import InMemoryStorage
    from optuna.storages import _in_memory as im
    from optuna.study import StudyDirection
    from optuna.trial import TrialState

    real_dt = im.datetime
    for target in (TrialState.COMPLETE, TrialState.FAIL, TrialState.PRUNED, TrialState.RUNNING):
        st = InMemoryStorage()
        sid = st.create_new_study([StudyDirection.MINIMIZE], "p")
        if target == TrialState.RUNNING:
            tid = st.create_new_trial(sid, template_trial=optuna.trial.create_trial(state=TrialState.WAITING))
        else:
            tid = st.create_new_trial(sid)
        got: dict[str, Any] = {}

        def reader() -> None:
            got["trial"] = st.get_trial(tid)
            got["first"] = canon(got["trial"])
            got["all"] = st.get_all_trials(sid, deepcopy=False)
            got["all_first"] = [canon(x) for x in got["all"]]

        class _DT:
            @staticmethod
            def now(*a: Any, **k: Any) -> Any:
                th = threading.Thread(target=reader, daemon=True)
                th.start()
                th.join(0.15)
                got["thread"] = th
                return real_dt.now(*a, **k)

        im.datetime = _DT  # type: ignore[assignment]
        try:
            st.set_trial_state_values(tid, target, [1.0] if target == TrialState.COMPLETE else None)
        finally:
            im.datetime = real_dt  # type: ignore[assignment]
        if "thread" in got:
            got["thread"].join(2.0)
        chk.case({"part": "publish-then-mutate", "state": target.name}, nontrivial=True)
        chk.count("publish-then-mutate:" + ("observed" if "first" in got and not got["thread"].is_alive() else "reader-waited"))
        if "first" not in got:
            continue
        t = got["trial"]
        now = canon(t)
        torn = t.state.is_finished() and t.datetime_complete is None
        if now != got["first"] or [canon(x) for x in got.get("all", [])] != got.get("all_first", []) or (torn and got["first"] == now):
            chk.violation({"kind": "held-object-changed", "getter": "storage.get_trial", "path": "publish-then-mutate"},
                          {"part": "publish-then-mutate", "state": target.name},
                          "[mem] a thread that read trial %d while another thread was inside set_trial_state_values(%s) holds an object that %s" % (
                              tid, target.name, ("changed afterwards: " + first_diff(got["first"], now)[:200]) if now != got["first"] else "is finished without a completion time"))
            return


def journal_rejected_batch(chk: core.Check, n: int) -> None:
    """Two JournalStorage workers on one log.  Worker A issues writes that replay REJECTS (finished trial, duplicate
    study name) while records of worker B about the same trials sit earlier in the same batch; objects A has read are
    held, B writes on, A syncs: no held object may change (a replay that updates 'its own private copies' in place must
    not forget, after a rejected record, which copies readers already hold)."""
    r = chk.rng
    for it in range(n):
        h = fleet.make("journal-symlink", chk.tmp)
        try:
            a, b = h.storage, h.peer()
            sid = a.create_new_study([StudyDirection.MINIMIZE], "jr%d_%d" % (os.getpid(), next(_SCEN)))
            tids = [a.create_new_trial(sid) for _ in range(r.randint(2, 4))]
            done = tids[0]
            a.set_trial_state_values(done, TrialState.COMPLETE, [1.0])
            held: list[tuple[str, Any, Any]] = []

            def hold(label: str, obj: Any) -> None:
                held.append((label, obj, safe_canon(obj)))

            script: list[float] = []
            if it % 2 == 0:
                # the shortest history of the kind: B writes about t, A's rejected write lands in the same batch, A reads t
                # (nothing pending), B writes about t again, A syncs
                script = [0.1, 0.4, 0.7, 0.1, 0.9]
            t_fixed = r.choice(tids[1:])
            for step in range(len(script) + r.randint(6, 14)):
                k = script[step] if step < len(script) else r.random()
                t = t_fixed if step < len(script) else r.choice(tids[1:])
                try:
                    if k < 0.3:     # B writes about a live trial (these records reach A inside its next batch)
                        r.choice([lambda: b.set_trial_user_attr(t, "k%d" % r.randrange(3), step),
                                  lambda: b.set_trial_intermediate_value(t, r.randrange(4), float(step)),
                                  lambda: b.set_trial_system_attr(t, "s", step),
                                  lambda: b.set_trial_param(t, "x", 0.25, FloatDistribution(0, 1))])()
                    elif k < 0.55:  # A issues a write that replay rejects
                        r.choice([lambda: a.set_trial_user_attr(done, "late", 1),
                                  lambda: a.create_new_study([StudyDirection.MINIMIZE], a.get_study_name_from_id(sid)),
                                  lambda: a.set_trial_param(t, "x", 1.0, optuna.distributions.CategoricalDistribution([1.0, 2.0])),
                                  lambda: a.set_trial_state_values(done, TrialState.FAIL)])()
                    elif k < 0.8:   # A reads and keeps what it got
                        hold("get_trial", a.get_trial(t))
                        hold("get_all_trials", a.get_all_trials(sid, deepcopy=False))
                    else:           # A syncs without writing
                        a.get_all_trials(sid, deepcopy=False)
                except Exception:  # noqa: BLE001 - the rejections are the point
                    pass
                for label, obj, snap in held:
                    now = safe_canon(obj)
                    if now != snap:
                        chk.violation({"kind": "snapshot-changed", "getter": "s." + label, "scenario": "journal-rejected-batch"},
                                      {"part": "journal-rejected-batch", "iteration": it, "seed": chk.seed},
                                      "[journal, two workers] the object returned by %s changed after a later sync (a rejected write of this worker sat in an earlier batch): %s" % (
                                          label, first_diff(snap, now)[:300]))
                        return
            chk.case({"part": "journal-rejected-batch", "it": it}, nontrivial=True)
            chk.count("journal-rejected-batch")
        finally:
            h.close()


_SCEN = itertools.count()


def search(chk: core.Check) -> None:
    """Failing-input search after a breakage: the matrix is exhaustive already; add deeper random histories and threads."""
    chk.search_log.append("search: more and longer histories on every backend (the getter x setter matrix ran in the main phase)")
    explore(chk, fleet.QUICK, 60, 90, 10, tag="search")


def main(chk: core.Check) -> int:
    chk.rule = RULE
    quick = chk.tier == "quick"
    translate(chk)
    if not getattr(chk, "no_prove", False):
        chk.prove()
    bad = undisciplined(chk)
    if bad:
        chk.extra["undisciplined_generated_methods"] = bad
        chk.broke("proof", {"obligation": "generated_methods_disciplined / generated_deep_api_returns_copies",
                            "methods": [{"name": b["name"], "body": b["body"]} for b in bad][:12]})
    cfgs = fleet.QUICK if quick else fleet.THOROUGH
    explore(chk, cfgs, 14 if quick else 150, 45 if quick else 110, 3 if quick else 30)
    constrained_best(chk, ["mem", "journal-symlink", "cached", "rdb"])
    template_alias(chk, ["mem", "journal-symlink", "cached", "rdb"] + ([] if quick else ["grpc(rdb)", "grpc(mem)"]))
    publish_then_mutate_probe(chk)
    journal_rejected_batch(chk, 25 if quick else 400)
    try:
        alias_explore(chk, 60 if quick else 1000, 40 if quick else 120)
    except core.DriverBroken as e:
        chk.broke("correspondence", {"driver": str(e)[:800]})
    chk.assumptions += [
        "attribute payloads, parameter values and distributions are treated as immutable atoms (a caller who keeps and mutates a list it passed as an attribute value is outside the property)",
        "journal log records are decoded afresh per read (json), so dicts taken from a record are new objects",
        "RDBStorage / gRPC proxies build new objects per read (covered by the direct oracle only, not by the heap model)",
        "every storage method body runs under the storage's lock, so a history is a sequence of atomic calls (the thread runs check this on the real code with plain threads; no deterministic scheduler)",
    ]
    chk.extra["boundary_observation"] = (
        "Trial._get_latest_trial() hands samplers/pruners a copy.copy of the Trial's private cached FrozenTrial: its dicts are the cache's dicts and "
        "change on the next suggest/report/set_user_attr (counted under boundary:* in the histogram). Not an object 'obtained from a study or storage'; reported, not a violation.")
    return chk.finish(search=search)


def replay(chk: core.Check, path: str) -> int:
    j = json.load(open(path))
    w = j.get("witness") or {}
    if "ops" not in w:
        print("replay file has no history (kind=%s): %s" % (j.get("kind"), json.dumps(j.get("no_longer_checks"))[:600]))
        return 1
    h = fleet.make(w["cfg"], chk.tmp)
    try:
        run_history(w["cfg"], h, "c20-replay", w.get("seed", 0), w["ops"], w.get("threaded_from"))
    except Violation as v:
        print("REPRODUCED (%s; getter=%s; setter=%s): %s" % (v.kind, v.getter, v.setter, v))
        return 1
    finally:
        h.close()
        import shutil
        shutil.rmtree(chk.tmp, ignore_errors=True)
    print("not reproduced")
    return 0
