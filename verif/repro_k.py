"""C09 machinery: define-by-run objective programs, sampler/pruner factories, the run executor
(one sequential optimisation on one storage configuration) and the canonical, id-free history that
is compared across storages / repeated runs / splits.  Everything is plain JSON so that a cell can
be written to a replay file and re-executed, and so that the same program can be handed to the Lean
loop model (`driver repro`).

Arithmetic inside objective programs is *exact* in binary floating point (parameter values,
literals, multiplication by powers of two, negation), so the Lean model can recompute every
reported / returned value over the rationals.
"""
from __future__ import annotations

import math
import random
import warnings
from fractions import Fraction
from typing import Any

import optuna
from optuna.distributions import CategoricalDistribution, FloatDistribution, IntDistribution, distribution_to_json
from optuna.trial import TrialState

from verif import fleet

optuna.logging.set_verbosity(optuna.logging.ERROR)
warnings.simplefilter("ignore")

SAMPLERS = ["random", "tpe", "tpe-mv", "tpe-group", "nsgaii", "nsgaiii", "qmc", "grid", "brute", "partial", "gp"]
PRUNERS = ["nop", "median", "percentile", "sha", "hyperband", "patient", "threshold", "wilcoxon"]


class ObjError(Exception):
    """The only exception an objective program raises on purpose (caught by optimize)."""


# ------------------------------------------------------------------------------------------------
# exact numbers
# ------------------------------------------------------------------------------------------------

def tok(x: float | None) -> str | None:
    """Exact token of a float: 'n/d', 'nan', 'inf', '-inf'."""
    if x is None:
        return None
    x = float(x)
    if math.isnan(x):
        return "nan"
    if math.isinf(x):
        return "inf" if x > 0 else "-inf"
    f = Fraction(x)
    return "%d/%d" % (f.numerator, f.denominator)


def untok(s: str) -> float:
    if s in ("nan", "inf", "-inf"):
        return float(s)
    f = Fraction(s)
    return f.numerator / f.denominator


# ------------------------------------------------------------------------------------------------
# objective programs
# ------------------------------------------------------------------------------------------------

def mk_dist(d: list[Any]) -> Any:
    if d[0] == "float":
        return FloatDistribution(d[1], d[2], log=d[3], step=d[4])
    if d[0] == "int":
        return IntDistribution(d[1], d[2], log=d[3], step=d[4])
    return CategoricalDistribution(d[1])


def eval_expr(e: list[Any], env: dict[str, float]) -> float:
    k = e[0]
    if k == "lit":
        return untok(e[1])
    if k == "p":
        return env.get(e[1], 0.0)
    if k == "scale":
        return math.ldexp(eval_expr(e[1], env), e[2])
    if k == "neg":
        return -eval_expr(e[1], env)
    raise ValueError(e)


def eval_cond(c: list[Any], env: dict[str, float], number: int) -> bool:
    if c[0] == "lt":
        return env.get(c[1], 0.0) < untok(c[2])
    if c[0] == "eq":
        return env.get(c[1], 0.0) == untok(c[2])
    if c[0] == "numlt":
        return number < c[1]
    raise ValueError(c)


class Objective:
    """Interpreter of a program; records what the Lean loop model needs as its replay oracle
    (the prune answers; sampled values are read from the finished trials)."""

    def __init__(self, prog: dict[str, Any]) -> None:
        self.prog = prog
        self.prunes: dict[int, list[bool]] = {}

    def __call__(self, trial: optuna.Trial) -> Any:
        env: dict[str, float] = {}
        self.prunes[trial.number] = []
        out = self._run(self.prog["body"], trial, env)
        if out is None:
            return 0.0
        return out[0] if len(out) == 1 and self.prog.get("scalar", True) else out

    def _run(self, body: list[Any], trial: optuna.Trial, env: dict[str, float]) -> list[float] | None:
        for st in body:
            k = st[0]
            if k == "suggest":
                d = st[2]
                dist = mk_dist(d)
                if d[0] == "float":
                    v = trial.suggest_float(st[1], d[1], d[2], log=d[3], step=d[4])
                elif d[0] == "int":
                    v = trial.suggest_int(st[1], d[1], d[2], log=d[3], step=d[4])
                else:
                    v = trial.suggest_categorical(st[1], d[1])
                env[st[1]] = float(dist.to_internal_repr(v))
            elif k == "if":
                r = self._run(st[2] if eval_cond(st[1], env, trial.number) else st[3], trial, env)
                if r is not None:
                    return r
            elif k == "report":
                trial.report(eval_expr(st[2], env), st[1])
            elif k == "reportcheck":
                trial.report(eval_expr(st[2], env), st[1])
                b = bool(trial.should_prune())
                self.prunes[trial.number].append(b)
                if b:
                    raise optuna.TrialPruned()
            elif k == "attr":
                trial.set_user_attr(st[1], tok(eval_expr(st[2], env)))
            elif k == "raise":
                raise ObjError("boom")
            elif k == "prune":
                raise optuna.TrialPruned()
            elif k == "ret":
                return [eval_expr(e, env) for e in st[1]]
            else:
                raise ValueError(st)
        return None


def _gen_dist(r: random.Random, finite: bool, idx: int) -> list[Any]:
    kind = r.choice(["float", "int", "cat"] if not finite else ["int", "cat", "fstep"])
    if kind == "float":
        v = r.random()
        if v < 0.25:
            return ["float", r.choice([1e-3, 0.5, 1.0]), r.choice([2.0, 8.0, 100.0]), True, None]
        if v < 0.45:
            return ["float", 0.0, 1.0, False, 0.25]
        low = r.choice([-4.0, -1.0, 0.0, 0.5])
        return ["float", low, low + r.choice([1.0, 2.5, 10.0]), False, None]
    if kind == "fstep":
        return ["float", 0.0, r.choice([0.5, 1.0]), False, 0.25]
    if kind == "int":
        if not finite and r.random() < 0.2:
            return ["int", 1, r.choice([16, 64]), True, 1]
        low = r.choice([-3, 0, 1])
        step = r.choice([1, 1, 2])
        n = r.randint(2, 4) if finite else r.randint(2, 9)
        return ["int", low, low + step * n, False, step]
    choices = r.choice([["a", "b", "c"], ["x", "y"], [1, 2, 4], [0.5, 1.5, 2.5, 3.5], ["p", "q", "r", "s"]])
    return ["cat", choices]


def _value_exprs(r: random.Random, names: list[str], n: int) -> list[Any]:
    out = []
    for _ in range(n):
        v = r.random()
        if names and v < 0.8:
            e: list[Any] = ["p", r.choice(names)]
            if r.random() < 0.4:
                e = ["scale", e, r.choice([-2, -1, 1, 3])]
            if r.random() < 0.3:
                e = ["neg", e]
        else:
            e = ["lit", tok(r.choice([0.0, 1.0, -2.5, 3.25]))]
        out.append(e)
    return out


def gen_prog(r: random.Random, n_obj: int, finite: bool, reports: bool, check_prune: bool, hazards: bool = True) -> dict[str, Any]:
    """A define-by-run objective: 1-3 top-level parameters, an optional conditional branch that
    suggests further (branch-specific or shared) parameters, optional failure / early-prune
    branches, a report loop with should_prune, user attrs, and exact return values."""
    names: list[str] = []
    dists: dict[str, list[Any]] = {}
    body: list[Any] = []

    def suggest(name: str, into: list[Any]) -> None:
        if name not in dists:
            dists[name] = _gen_dist(r, finite, len(dists))
        into.append(["suggest", name, dists[name]])
        if name not in names:
            names.append(name)

    for i in range(r.randint(1, 3)):
        suggest("p%d" % i, body)
    top = list(names)

    def cond_on(name: str, rare: bool = False) -> list[Any]:
        d = dists[name]
        if d[0] == "cat":
            return ["eq", name, tok(float(r.randrange(len(d[1]))))]
        lo, hi = float(d[1]), float(d[2])
        frac = r.choice([0.12, 0.2]) if rare else r.choice([0.3, 0.5, 0.7])
        if d[3]:
            thr = lo * (hi / lo) ** frac
        else:
            thr = lo + (hi - lo) * frac
        return ["lt", name, tok(thr)]

    if r.random() < 0.75:
        then: list[Any] = []
        els: list[Any] = []
        for br in (then, els):
            for _ in range(r.randint(0, 2)):
                suggest(r.choice(["q0", "q1", "q2"]), br)
        if hazards and r.random() < 0.2:
            # the same parameter suggested twice in one trial (second call must return the first value)
            then.append(["suggest", top[0], dists[top[0]]])
        body.append(["if", cond_on(r.choice(top)), then, els])
    if hazards and r.random() < 0.35:
        c = cond_on(r.choice(top), rare=True) if r.random() < 0.6 else ["numlt", r.randint(1, 2)]
        body.append(["if", c, [["raise"]], []])
    if hazards and r.random() < 0.2:
        body.append(["if", cond_on(r.choice(top), rare=True), [["ret", [["lit", "nan"]] * n_obj]], []])
    if hazards and n_obj == 1 and r.random() < 0.15:
        body.append(["if", cond_on(r.choice(top), rare=True), [["report", 0, ["p", top[0]]], ["prune"]], []])
    if r.random() < 0.4:
        body.append(["attr", "a", ["p", r.choice(names)]])
    if reports and n_obj == 1:
        base: list[Any] = ["p", r.choice(names)]
        if r.random() < 0.5:
            base = ["neg", base]
        n_steps = r.randint(2, 6)
        order = list(range(n_steps))
        v = r.random()
        if hazards and v < 0.15:
            # steps reported out of order (backends that sort intermediate values vs. those that keep
            # insertion order must not make a difference)
            i = r.randrange(n_steps - 1)
            order[i], order[i + 1] = order[i + 1], order[i]
        elif hazards and v < 0.35:
            # ... in any order, with gaps; the last step reported is then usually not the largest one
            order = r.sample(range(0, 2 * n_steps), n_steps)
        for s in order:
            v = r.random()
            if v < 0.12:
                e: list[Any] = ["lit", tok(r.choice([0.0, 1.0, float("inf"), float("nan"), -1.5]))]
            else:
                e = ["scale", base, r.choice([-2, -1, 0, 0, 1])]
            stepno = s if r.random() < 0.9 else max(0, s - 1)  # occasionally a duplicate step (ignored by report)
            body.append(["reportcheck" if check_prune else "report", stepno, e])
    if hazards and reports and n_obj == 1 and r.random() < 0.3:
        # pruned by the objective itself after the reports: the stored value is the one reported at the largest step
        body.append(["if", cond_on(r.choice(top)), [["prune"]], []])
    body.append(["ret", _value_exprs(r, names, n_obj)])
    return {"n_obj": n_obj, "body": body, "dists": dists, "top": top}


def prog_param_names(prog: dict[str, Any]) -> list[str]:
    return sorted(prog["dists"])


def grid_of(prog: dict[str, Any], r: random.Random) -> dict[str, list[Any]]:
    g: dict[str, list[Any]] = {}
    for name, d in sorted(prog["dists"].items()):
        if d[0] == "cat":
            g[name] = list(d[1])
        elif d[0] == "int":
            g[name] = list(range(d[1], d[2] + 1, d[4]))[:4]
        else:
            n = int(round((d[2] - d[1]) / d[4]))
            g[name] = [d[1] + d[4] * i for i in range(n + 1)][:4]
    return g


# ------------------------------------------------------------------------------------------------
# factories
# ------------------------------------------------------------------------------------------------

def gen_sampler(r: random.Random, kind: str, prog: dict[str, Any]) -> dict[str, Any]:
    seed = 0 if r.random() < 0.15 else r.randrange(1, 10_000)   # 0 is a legal seed (and falsy)
    if kind == "random":
        return {"k": "random", "seed": seed}
    if kind.startswith("tpe"):
        return {"k": "tpe", "seed": seed, "multivariate": kind != "tpe", "group": kind == "tpe-group",
                "n_startup_trials": r.randint(2, 5), "n_ei_candidates": r.choice([6, 12]),
                "consider_endpoints": r.random() < 0.3}
    if kind in ("nsgaii", "nsgaiii"):
        return {"k": kind, "seed": seed, "population_size": r.randint(3, 5),
                "crossover": r.choice(["uniform", "uniform", "blxalpha", "sbx"]) if kind == "nsgaii" else "uniform"}
    if kind == "qmc":
        return {"k": "qmc", "seed": seed, "qmc_type": r.choice(["sobol", "halton"]), "scramble": r.random() < 0.6}
    if kind == "gp":
        return {"k": "gp", "seed": seed, "n_startup_trials": 3}
    if kind == "grid":
        return {"k": "grid", "seed": seed, "search_space": grid_of(prog, r)}
    if kind == "brute":
        return {"k": "brute", "seed": seed}
    if kind == "partial":
        name = prog["top"][0]
        d = prog["dists"][name]
        if d[0] == "cat":
            val: Any = d[1][0]
        elif d[0] == "int":
            val = d[1] + d[4]
        else:
            val = d[1] + (d[4] if d[4] else 0.0) if not d[3] else d[1]
        return {"k": "partial", "fixed": {name: val}, "base": gen_sampler(r, r.choice(["random", "tpe", "tpe-mv"]), prog)}
    raise ValueError(kind)


def mk_sampler(s: dict[str, Any]) -> Any:
    S = optuna.samplers
    k = s["k"]
    if k == "random":
        return S.RandomSampler(seed=s["seed"])
    if k == "tpe":
        return S.TPESampler(seed=s["seed"], multivariate=s["multivariate"], group=s["group"], constant_liar=False,
                            n_startup_trials=s["n_startup_trials"], n_ei_candidates=s["n_ei_candidates"],
                            consider_endpoints=s["consider_endpoints"], warn_independent_sampling=False)
    if k == "nsgaii":
        from optuna.samplers import nsgaii
        cx = {"uniform": None, "blxalpha": nsgaii.BLXAlphaCrossover(), "sbx": nsgaii.SBXCrossover()}[s["crossover"]]
        return S.NSGAIISampler(seed=s["seed"], population_size=s["population_size"], crossover=cx)
    if k == "nsgaiii":
        return S.NSGAIIISampler(seed=s["seed"], population_size=s["population_size"])
    if k == "qmc":
        return S.QMCSampler(seed=s["seed"], qmc_type=s["qmc_type"], scramble=s["scramble"],
                            warn_independent_sampling=False, warn_asynchronous_seeding=False)
    if k == "gp":
        import torch
        torch.set_num_threads(1)
        return S.GPSampler(seed=s["seed"], n_startup_trials=s["n_startup_trials"])
    if k == "grid":
        return S.GridSampler(s["search_space"], seed=s["seed"])
    if k == "brute":
        return S.BruteForceSampler(seed=s["seed"])
    if k == "partial":
        return S.PartialFixedSampler(s["fixed"], mk_sampler(s["base"]))
    raise ValueError(k)


def gen_pruner(r: random.Random, kind: str) -> dict[str, Any]:
    if kind == "nop":
        return {"k": "nop"}
    if kind == "median":
        return {"k": "median", "n_startup_trials": r.randint(0, 3), "n_warmup_steps": r.randint(0, 2),
                "interval_steps": r.randint(1, 2), "n_min_trials": r.randint(1, 2)}
    if kind == "percentile":
        return {"k": "percentile", "percentile": r.choice([25.0, 50.0, 75.0]), "n_startup_trials": r.randint(0, 3),
                "n_warmup_steps": r.randint(0, 2), "interval_steps": r.randint(1, 2), "n_min_trials": r.randint(1, 2)}
    if kind == "sha":
        mr = r.choice([1, 2, "auto"])
        return {"k": "sha", "min_resource": mr, "reduction_factor": r.choice([2, 3]),
                "min_early_stopping_rate": r.randint(0, 1), "bootstrap_count": 0 if mr == "auto" else r.choice([0, 0, 1])}
    if kind == "hyperband":
        return {"k": "hyperband", "min_resource": 1, "max_resource": r.choice(["auto", 4, 6, 9]),
                "reduction_factor": r.choice([2, 3])}
    if kind == "patient":
        return {"k": "patient", "wrapped": r.choice([None, gen_pruner(r, "median"), gen_pruner(r, "threshold")]),
                "patience": r.randint(0, 2), "min_delta": r.choice([0.0, 0.25])}
    if kind == "threshold":
        lo, up = r.choice([(None, 1.0), (-1.0, None), (-0.5, 2.0)])
        return {"k": "threshold", "lower": lo, "upper": up, "n_warmup_steps": r.randint(0, 2), "interval_steps": r.randint(1, 2)}
    if kind == "wilcoxon":
        return {"k": "wilcoxon", "p_threshold": r.choice([0.1, 0.3, 0.5]), "n_startup_steps": r.randint(0, 2)}
    raise ValueError(kind)


def mk_pruner(p: dict[str, Any] | None) -> Any:
    P = optuna.pruners
    if p is None:
        return None
    k = p["k"]
    if k == "nop":
        return P.NopPruner()
    if k == "median":
        return P.MedianPruner(n_startup_trials=p["n_startup_trials"], n_warmup_steps=p["n_warmup_steps"],
                              interval_steps=p["interval_steps"], n_min_trials=p["n_min_trials"])
    if k == "percentile":
        return P.PercentilePruner(p["percentile"], n_startup_trials=p["n_startup_trials"], n_warmup_steps=p["n_warmup_steps"],
                                  interval_steps=p["interval_steps"], n_min_trials=p["n_min_trials"])
    if k == "sha":
        return P.SuccessiveHalvingPruner(min_resource=p["min_resource"], reduction_factor=p["reduction_factor"],
                                         min_early_stopping_rate=p["min_early_stopping_rate"], bootstrap_count=p["bootstrap_count"])
    if k == "hyperband":
        return P.HyperbandPruner(min_resource=p["min_resource"], max_resource=p["max_resource"], reduction_factor=p["reduction_factor"])
    if k == "patient":
        return P.PatientPruner(mk_pruner(p["wrapped"]), patience=p["patience"], min_delta=p["min_delta"])
    if k == "threshold":
        return P.ThresholdPruner(lower=p["lower"], upper=p["upper"], n_warmup_steps=p["n_warmup_steps"], interval_steps=p["interval_steps"])
    if k == "wilcoxon":
        return P.WilcoxonPruner(p_threshold=p["p_threshold"], n_startup_steps=p["n_startup_steps"])
    raise ValueError(k)


# ------------------------------------------------------------------------------------------------
# canonical (id-free) history
# ------------------------------------------------------------------------------------------------

def canon_trial(t: optuna.trial.FrozenTrial) -> dict[str, Any]:
    return {
        "number": t.number,
        "state": t.state.name,
        "values": None if t.values is None else [tok(v) for v in t.values],
        "params": {n: tok(t.distributions[n].to_internal_repr(v)) for n, v in sorted(t.params.items())},
        "dists": {n: distribution_to_json(d) for n, d in sorted(t.distributions.items())},
        "inter": {str(s): tok(v) for s, v in sorted(t.intermediate_values.items())},
    }


def canon_history(trials: list[optuna.trial.FrozenTrial]) -> list[dict[str, Any]]:
    return [canon_trial(t) for t in trials]


def first_diff(a: list[dict[str, Any]], b: list[dict[str, Any]]) -> dict[str, Any] | None:
    for i in range(max(len(a), len(b))):
        x = a[i] if i < len(a) else None
        y = b[i] if i < len(b) else None
        if x != y:
            fields = []
            if x is not None and y is not None:
                fields = [k for k in x if x[k] != y.get(k)]
            return {"trial": i, "fields": fields, "a": x, "b": y}
    return None


# ------------------------------------------------------------------------------------------------
# F7 instrumentation: observe (spy) or repair (fix) the GA parent-cache read, harness side only
# ------------------------------------------------------------------------------------------------

GA_EVENTS: list[dict[str, Any]] = []
_GA_ORIG: Any = None


def _install_ga(mode: str) -> None:
    """mode 'spy': record every cache *read* that returned trials other than the cached ids (or fell
    off the list).  mode 'fix': on a cache hit resolve the cached ids through `_trial_id` instead
    of using them as list indices (everything else, incl. the write, is the repository's code)."""
    global _GA_ORIG
    from optuna.samplers._ga._base import BaseGASampler

    if _GA_ORIG is None:
        _GA_ORIG = BaseGASampler.get_parent_population
    orig = _GA_ORIG

    def cached_ids(self: Any, study: Any, generation: int) -> Any:
        attrs = study._storage.get_study_system_attrs(study._study_id)
        return attrs.get(self._get_parent_cache_key_prefix() + str(generation), None)

    def spy(self: Any, study: Any, generation: int) -> Any:
        if generation == 0:
            return orig(self, study, generation)
        cached = cached_ids(self, study, generation)
        try:
            res = orig(self, study, generation)
        except IndexError:
            if cached is not None:
                GA_EVENTS.append({"generation": generation, "cached_ids": list(cached), "effect": "IndexError",
                                  "n_trials": len(study._get_trials(deepcopy=False))})
            raise
        if cached is not None:
            got = [t._trial_id for t in res]
            if got != list(cached):
                GA_EVENTS.append({"generation": generation, "cached_ids": list(cached), "read_trial_ids": got,
                                  "read_numbers": [t.number for t in res], "effect": "wrong-parents"})
        return res

    def fix(self: Any, study: Any, generation: int) -> Any:
        if generation == 0:
            return []
        cached = cached_ids(self, study, generation)
        if cached is not None:
            by_id = {t._trial_id: t for t in study._get_trials(deepcopy=False)}
            return [by_id[i] for i in cached]
        return orig(self, study, generation)

    BaseGASampler.get_parent_population = {"spy": spy, "fix": fix, "off": orig}[mode]  # type: ignore[method-assign]


class OrderRestoring:
    """Harness-side repair used only to *attribute* a difference: a storage wrapper that gives the
    parameters of the trials it returns the order in which they were set (what every backend except
    the gRPC proxy does)."""

    def __init__(self, inner: Any) -> None:
        self._s = inner
        self._order: dict[int, list[str]] = {}

    def __getattr__(self, name: str) -> Any:
        return getattr(self._s, name)

    def set_trial_param(self, trial_id: int, name: str, v: float, d: Any) -> None:
        o = self._order.setdefault(trial_id, [])
        if name not in o:
            o.append(name)
        return self._s.set_trial_param(trial_id, name, v, d)

    def _fix(self, t: Any) -> Any:
        import copy

        o = self._order.get(t._trial_id)
        if not o:
            return t
        t = copy.copy(t)
        names = [n for n in o if n in t._params] + [n for n in t._params if n not in o]
        t._params = {n: t._params[n] for n in names}
        t._distributions = {n: t._distributions[n] for n in names}
        return t

    def get_trial(self, trial_id: int) -> Any:
        return self._fix(self._s.get_trial(trial_id))

    def get_all_trials(self, study_id: int, deepcopy: bool = True, states: Any = None) -> list[Any]:
        return [self._fix(t) for t in self._s.get_all_trials(study_id, deepcopy=deepcopy, states=states)]



# ------------------------------------------------------------------------------------------------
# one run
# ------------------------------------------------------------------------------------------------

def prepopulate(storage: Any, shift: dict[str, Any]) -> None:
    """Other studies / trials that exist before the study under test (they shift study and trial ids)."""
    for i in range(shift.get("studies", 0)):
        sid = storage.create_new_study([optuna.study.StudyDirection.MINIMIZE], "pre_%d" % i)
        for j in range(shift.get("trials", 0)):
            tid = storage.create_new_trial(sid)
            if j % 2 == 0:
                storage.set_trial_state_values(tid, TrialState.COMPLETE, [float(j)])


def run_one(spec: dict[str, Any], tmp: str) -> dict[str, Any]:
    """Execute one sequential optimisation.  spec keys: cfg, shift, split, sampler, pruner, prog,
    directions, name, ga ('spy'|'fix'), keep (return the handle for copy_study).  Returns the
    canonical history, the trial ids seen, crash info and the oracle for the Lean loop model."""
    GA_EVENTS.clear()
    _install_ga(spec.get("ga", "spy"))
    h = fleet.make(spec["cfg"], tmp)
    out: dict[str, Any] = {"crash": None}
    try:
        st = h.storage
        shift = spec.get("shift") or {}
        prepopulate(st, shift)
        if spec.get("wrap") == "order":
            st = OrderRestoring(st)
        obj = Objective(spec["prog"])
        study = optuna.create_study(study_name=spec["name"], storage=st, sampler=mk_sampler(spec["sampler"]),
                                    pruner=mk_pruner(spec["pruner"]), directions=spec["directions"])
        for fixed in spec.get("enqueue") or []:
            study.enqueue_trial(fixed)
        other = None
        for i, n in enumerate(spec["split"]):
            if i > 0 and shift.get("interleave"):
                # somebody else uses the storage between two optimize calls: ids of the study's trials
                # stop being contiguous
                if other is None:
                    other = st.create_new_study([optuna.study.StudyDirection.MINIMIZE], "interleaved")
                for _ in range(1 + i):
                    st.create_new_trial(other)
            try:
                study.optimize(obj, n_trials=n, catch=(ObjError,))
            except Exception as e:  # noqa: BLE001 - whatever the library raised is part of the observation
                out["crash"] = {"call": i, "type": type(e).__name__, "msg": str(e)[:200]}
                break
        trials = study.get_trials(deepcopy=False)
        out["hist"] = canon_history(trials)
        out["ids"] = [t._trial_id for t in trials]
        out["study_id"] = study._study_id
        out["prunes"] = [obj.prunes.get(t.number, []) for t in trials]
        out["ga_events"] = list(GA_EVENTS)
        if spec.get("keep"):
            out["handle"] = h
            out["study"] = study
            h = None  # type: ignore[assignment]
    finally:
        if h is not None:
            h.close()
        _install_ga("off")
    return out
