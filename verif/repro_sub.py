"""C09: run one optimisation in a fresh interpreter (its own PYTHONHASHSEED) and print the canonical
history.  stdin: {"spec": ..., "tmp": ...}; stdout: one JSON line {"hist": ..., "crash": ...}."""
from __future__ import annotations

import json
import sys


def main() -> int:
    req = json.loads(sys.stdin.read())
    from verif import repro_k as K

    out = K.run_one(req["spec"], req["tmp"])
    print("RESULT " + json.dumps({"hist": out["hist"], "crash": out["crash"]}))
    return 0


if __name__ == "__main__":
    sys.exit(main())
