"""`sched`: deterministic cooperative scheduler for real Python threads (DESIGN 1.4).

Each thread under test runs with `sys.settrace`; every *line* executed in a file whose path starts
with one of `trace_prefixes` is a yield point at which a seeded policy decides which thread runs
next.  Only one thread runs at a time, so a run is a function of the schedule (a list of thread
indices), which is recorded and can be replayed exactly.  Locks of the objects under test are
replaced (by the harness, on the live objects) by `SLock` wrappers whose blocking acquire is a yield
point, so the scheduler never dead-locks on a real lock.
"""
from __future__ import annotations

import os
import random
import sys
import threading
from typing import Any, Callable


class Deadlock(Exception):
    pass


class StepLimit(Exception):
    pass


class Sched:
    def __init__(self, rng: random.Random | None = None, schedule: list[int] | None = None, trace_prefixes: tuple[str, ...] = (),
                 max_steps: int = 200000, pct_depth: int | None = None, pct_len: int = 400) -> None:
        self.rng = rng or random.Random(0)
        self.replay = list(schedule) if schedule is not None else None
        self.pos = 0
        self.prefixes = tuple(trace_prefixes)
        self.cv = threading.Condition()
        self.current: int | None = None
        self.alive: set[int] = set()
        self.blocked: set[int] = set()
        self.parked: set[int] = set()  # "crashed" threads: never scheduled again
        self.trace: list[int] = []
        self.max_steps = max_steps
        self.tl = threading.local()
        self.errors: dict[int, BaseException] = {}
        self.results: dict[int, Any] = {}
        self.clock = 0  # logical time = number of scheduling decisions so far
        self.aborted: BaseException | None = None
        # PCT (Burckhardt et al.): random priorities + d-1 priority change points
        self.pct = None
        if pct_depth is not None:
            self.pct = {"prio": {}, "changes": sorted(self.rng.randrange(1, pct_len) for _ in range(max(pct_depth - 1, 0))), "low": 0}

    # ---- thread-side -------------------------------------------------------------------------
    def me(self) -> int:
        return self.tl.i

    def _tracer(self, tid: int) -> Callable[..., Any]:
        prefixes = self.prefixes

        def local(frame: Any, event: str, arg: Any) -> Any:
            if event == "line":
                self.yield_(tid)
            return local

        def glob(frame: Any, event: str, arg: Any) -> Any:
            if frame.f_code.co_filename.startswith(prefixes):
                return local
            return None

        return glob

    def yield_(self, tid: int | None = None, blocked: bool = False) -> None:
        """A scheduling point of the calling thread."""
        if tid is None:
            tid = self.tl.i
        with self.cv:
            if self.aborted is not None:
                raise self.aborted
            if blocked:
                self.blocked.add(tid)
            else:
                self.blocked.discard(tid)
            self._pick()
            while self.current != tid:
                self.cv.wait()
                if self.aborted is not None:
                    raise self.aborted

    def park_forever(self) -> None:
        """Simulate the death of the calling thread (kill -9: no finally blocks run)."""
        tid = self.tl.i
        with self.cv:
            self.parked.add(tid)
            self.alive.discard(tid)
            self._pick()
            while True:  # never scheduled again; released only when the run is torn down
                self.cv.wait()
                if self.aborted is not None:
                    raise SystemExit

    # ---- scheduler-side ----------------------------------------------------------------------
    def _pick(self) -> None:
        runnable = sorted(self.alive - self.blocked)
        if runnable and self.blocked and self.replay is None and self.rng.random() < 0.15:
            runnable = sorted(self.alive)  # let a waiting thread poll again now and then
        if not runnable:
            if self.alive:
                # everybody is blocked on a lock: let them retry in turn (a holder may have released);
                # a real dead-lock shows up as the step limit
                runnable = sorted(self.alive)
            else:
                self.current = None
                self.cv.notify_all()
                return
        self.clock += 1
        if self.clock > self.max_steps:
            self.aborted = StepLimit("more than %d scheduling steps" % self.max_steps)
            self.cv.notify_all()
            raise self.aborted
        choice = None
        if self.replay is not None and self.pos < len(self.replay):
            want = self.replay[self.pos]
            self.pos += 1
            if want in self.alive:  # trust the recorded decision (it was runnable when recorded)
                choice = want
        if choice is None:
            if self.pct is not None:
                pr = self.pct["prio"]
                for t in runnable:
                    if t not in pr:
                        pr[t] = self.rng.random() + 1.0
                if self.pct["changes"] and self.clock >= self.pct["changes"][0]:
                    self.pct["changes"].pop(0)
                    if self.current in pr:
                        self.pct["low"] -= 1
                        pr[self.current] = self.pct["low"]
                choice = max(runnable, key=lambda t: pr[t])
            else:
                # bias towards staying on the current thread: long atomic runs + a few switches
                if self.current in runnable and self.rng.random() < 0.75:
                    choice = self.current
                else:
                    choice = self.rng.choice(runnable)
        self.current = choice
        self.trace.append(choice)
        self.cv.notify_all()

    def run(self, fns: list[Callable[[], Any]], timeout: float = 60.0) -> None:
        threads = []
        for i, f in enumerate(fns):
            def body(i: int = i, f: Callable[[], Any] = f) -> None:
                self.tl.i = i
                with self.cv:
                    while self.current != i:
                        self.cv.wait()
                        if self.aborted is not None:
                            return
                sys.settrace(self._tracer(i))
                try:
                    self.results[i] = f()
                except SystemExit:
                    pass
                except BaseException as e:  # noqa: BLE001
                    self.errors[i] = e
                finally:
                    sys.settrace(None)
                    with self.cv:
                        self.alive.discard(i)
                        self.blocked.discard(i)
                        if i not in self.parked:
                            try:
                                self._pick()
                            except BaseException:  # noqa: BLE001
                                pass

            threads.append(threading.Thread(target=body, daemon=True))
        self.alive = set(range(len(fns)))
        for t in threads:
            t.start()
        with self.cv:
            self._pick()
        import time as _time

        deadline = _time.time() + timeout
        while True:
            pending = [t for i, t in enumerate(threads) if t.is_alive() and i not in self.parked]
            if not pending:
                break
            if _time.time() > deadline:
                with self.cv:
                    self.aborted = Deadlock("threads did not finish within %.0f s" % timeout)
                    self.cv.notify_all()
                break
            pending[0].join(0.01)
        # Parked ("killed") threads are never released: their finally blocks must not run (kill -9), not even
        # at tear-down, since the files they left behind are inspected afterwards.  They stay blocked as daemon
        # threads until the worker process exits.
        if not self.parked:
            with self.cv:
                if self.aborted is None:
                    self.aborted = SystemExit()
                self.cv.notify_all()


class SLock:
    """Drop-in for threading.Lock/RLock whose blocking acquire is a scheduling point."""

    def __init__(self, sched: Sched, reentrant: bool = True) -> None:
        self.s = sched
        self.l = threading.RLock() if reentrant else threading.Lock()
        self.holder: int | None = None
        self.depth = 0

    def acquire(self, blocking: bool = True, timeout: float = -1) -> bool:
        if not hasattr(self.s.tl, "i"):  # a thread not under the scheduler (set-up / tear-down code)
            return self.l.acquire(blocking)
        while not self.l.acquire(blocking=False):
            if not blocking:
                return False
            self.s.yield_(blocked=True)
        self.s.blocked.discard(self.s.tl.i)
        self.holder = self.s.tl.i
        self.depth += 1
        return True

    def release(self) -> None:
        self.depth -= 1
        if self.depth == 0:
            self.holder = None
        self.l.release()
        with self.s.cv:
            self.s.blocked.clear()

    def __enter__(self) -> "SLock":
        self.acquire()
        return self

    def __exit__(self, *a: Any) -> None:
        self.release()

    def locked(self) -> bool:
        return self.holder is not None


def optuna_prefixes(*subdirs: str) -> tuple[str, ...]:
    import optuna

    base = os.path.dirname(optuna.__file__)
    return tuple(os.path.join(base, s) for s in subdirs)


class VirtualTime:
    """Stand-in for the `time` module inside a module under test: `sleep` is a scheduling point that
    costs no real time, the clock only moves by what was slept (scaled), so time-outs / grace periods
    are reached only when the harness wants them to be."""

    def __init__(self, s: Sched, scale: float = 1e-6) -> None:
        self.s = s
        self.scale = scale
        self.now = 1000.0

    def sleep(self, secs: float) -> None:
        self.now += max(secs, 0.0) * self.scale
        if hasattr(self.s.tl, "i"):
            self.s.yield_(blocked=True)

    def monotonic(self) -> float:
        return self.now

    def time(self) -> float:
        return self.now

    def __getattr__(self, name: str) -> Any:
        import time as _t

        return getattr(_t, name)
