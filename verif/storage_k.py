"""Correspondence machinery for the storage contract (shared by C01, C03, C04, C06, C08, C20).

Histories are lists of *abstract ops* (JSON-able dicts using canonical ids = creation order).  An
`Exec` runs them on a real storage, translating ids, and canonicalises what comes back into exactly
the shape the Lean driver prints (Driver/C01.lean), so that the two can be compared structurally.
"""
from __future__ import annotations

import datetime
import json
import math
from fractions import Fraction
from typing import Any

import optuna
from optuna.distributions import (
    BaseDistribution,
    CategoricalDistribution,
    FloatDistribution,
    IntDistribution,
    distribution_to_json,
    json_to_distribution,
)
from optuna.exceptions import DuplicatedStudyError, UpdateFinishedTrialError
from optuna.study import StudyDirection
from optuna.trial import FrozenTrial, TrialState

UNKNOWN_ID = 10**6


# ---- tokens ------------------------------------------------------------------------------------
def ftok(x: float) -> str:
    x = float(x)
    if math.isnan(x):
        return "nan"
    if math.isinf(x):
        return "inf" if x > 0 else "-inf"
    f = Fraction(x)
    return "%d/%d" % (f.numerator, f.denominator)


def untok(s: str) -> float:
    if s == "nan":
        return float("nan")
    if s == "inf":
        return float("inf")
    if s == "-inf":
        return float("-inf")
    n, d = s.split("/")
    return int(n) / int(d)


def atok(v: Any) -> str:
    """An attribute payload after one JSON round trip (tuples == lists), as canonical text."""
    return json.dumps(json.loads(json.dumps(v)), sort_keys=True)


def dist_body(d: BaseDistribution) -> str:
    return json.dumps(json.loads(distribution_to_json(d)), sort_keys=True)


def dist_enc(d: BaseDistribution) -> dict[str, Any]:
    kind = 0 if isinstance(d, FloatDistribution) else 1 if isinstance(d, IntDistribution) else 2
    return {"kind": kind, "log": bool(getattr(d, "log", False)), "body": dist_body(d)}


def pairs(d: dict[str, Any]) -> list[list[Any]]:
    return [[k, v] for k, v in d.items()]


def err_name(e: BaseException) -> str:
    if isinstance(e, DuplicatedStudyError):
        return "DuplicatedStudyError"
    if isinstance(e, UpdateFinishedTrialError):
        return "UpdateFinishedTrialError"
    if isinstance(e, KeyError):
        return "KeyError"
    if isinstance(e, ValueError):
        return "ValueError"
    if type(e) is RuntimeError:
        return "RuntimeError"
    return "other:" + type(e).__name__


# ---- abstract op -> driver request -------------------------------------------------------------
def tmpl_to_driver(t: dict[str, Any]) -> dict[str, Any]:
    params = {}
    for name, p in t["params"].items():
        d = json_to_distribution(p["dist"])
        params[name] = dict(dist_enc(d), internal=ftok(d.to_internal_repr(p["ext"])))
    return {
        "state": t["state"],
        "values": t["values"],
        "params": pairs(params),
        "user": pairs({k: atok(v) for k, v in t["user"].items()}),
        "system": pairs({k: atok(v) for k, v in t["system"].items()}),
        "inter": [[int(s), v] for s, v in t["inter"].items()],
        "start": t["start"],
        "complete": t["complete"],
    }


def to_driver(op: dict[str, Any], impl_raised: bool = False, dump: bool = False) -> dict[str, Any]:
    o = dict(op)
    k = op["op"]
    if k in ("setStudyUserAttr", "setStudySystemAttr", "setTrialUserAttr", "setTrialSystemAttr"):
        o["v"] = atok(op["v"])
    elif k == "createTrial":
        o["tmpl"] = None if op.get("tmpl") is None else tmpl_to_driver(op["tmpl"])
        o["implRaised"] = impl_raised
    elif k == "setTrialParam":
        d = json_to_distribution(op["dist"])
        o["param"] = dict(dist_enc(d), internal=op["internal"])
        o["implRaised"] = impl_raised
        del o["dist"], o["internal"]
    if dump:
        o["dump"] = True
    return o


# ---- canonical views of real objects -----------------------------------------------------------
def canon_trial(t: FrozenTrial, cid: int | str) -> dict[str, Any]:
    return {
        "id": cid,
        "number": t.number,
        "state": t.state.value,
        "values": None if t.values is None else [ftok(v) for v in t.values],
        "params": {
            name: {"internal": ftok(t.distributions[name].to_internal_repr(v)), "body": dist_body(t.distributions[name])}
            for name, v in t.params.items()
        },
        "user": {k: atok(v) for k, v in t.user_attrs.items()},
        "system": {k: atok(v) for k, v in t.system_attrs.items()},
        "inter": {str(s): ftok(v) for s, v in t.intermediate_values.items()},
        "start": t.datetime_start is not None,
        "complete": t.datetime_complete is not None,
    }


def canon_study(fs: Any, cid: int | str) -> dict[str, Any]:
    return {
        "id": cid,
        "name": fs.study_name,
        "dirs": [int(d.value) for d in fs.directions],
        "user": {k: atok(v) for k, v in fs.user_attrs.items()},
        "system": {k: atok(v) for k, v in fs.system_attrs.items()},
    }


def strip_model(j: Any) -> Any:
    """Drop the model-only 'study' field of trials printed by the driver."""
    if isinstance(j, dict):
        return {k: strip_model(v) for k, v in j.items() if not (k == "study" and "number" in j)}
    if isinstance(j, list):
        return [strip_model(x) for x in j]
    return j


class IdReuse(Exception):
    def __init__(self, msg: str, prior_deleted: bool) -> None:
        super().__init__(msg)
        self.prior_deleted = prior_deleted


class Exec:
    """Runs abstract ops on one real storage object, keeping the canonical<->real id maps.
    Several Exec objects (clients) may share the maps (`share=`) when they talk to one backend."""

    def __init__(self, storage: Any, share: "Exec | None" = None, ignore_studies: set[int] | None = None) -> None:
        self.s = storage
        # real study ids that existed before this history began (a storage object may be reused)
        self.ignore = ignore_studies if ignore_studies is not None else set()
        if share is None:
            self.s2r: dict[int, int] = {}
            self.t2r: dict[int, int] = {}
            self.r2s: dict[int, int] = {}
            self.r2t: dict[int, int] = {}
        else:
            self.s2r, self.t2r, self.r2s, self.r2t = share.s2r, share.t2r, share.r2s, share.r2t
        self.deleted_studies: set[int] = set() if share is None else share.deleted_studies  # canonical ids
        self.trial_study: dict[int, int] = {} if share is None else share.trial_study  # canonical trial -> study
        self.reuse_events: list[str] = [] if share is None else share.reuse_events

    def rs(self, c: int) -> int:
        return self.s2r.get(c, UNKNOWN_ID + c)

    def rt(self, c: int) -> int:
        return self.t2r.get(c, UNKNOWN_ID + c)

    def _new_study(self, real: int) -> int:
        if real in self.r2s:
            prior = self.r2s[real]
            if prior not in self.deleted_studies:
                raise IdReuse("study id %d returned again while study #%d still uses it" % (real, prior), False)
            # the id of a *deleted* study came back: remember it (reported by the caller), make the
            # old handle point nowhere and carry on, so that the rest of the history is still compared
            self.reuse_events.append("study id %d of deleted study #%d handed out again" % (real, prior))
            self.s2r[prior] = UNKNOWN_ID * 2 + prior
        c = len(self.s2r)
        self.s2r[c] = real
        self.r2s[real] = c
        return c

    def _new_trial(self, real: int) -> int:
        if real in self.r2t:
            prior = self.r2t[real]
            if self.trial_study.get(prior) not in self.deleted_studies:
                raise IdReuse("trial id %d returned again while trial #%d still uses it" % (real, prior), False)
            self.reuse_events.append("trial id %d of deleted trial #%d handed out again" % (real, prior))
            self.t2r[prior] = UNKNOWN_ID * 2 + prior
        c = len(self.t2r)
        self.t2r[c] = real
        self.r2t[real] = c
        return c

    def build_template(self, t: dict[str, Any]) -> FrozenTrial:
        dists = {n: json_to_distribution(p["dist"]) for n, p in t["params"].items()}
        values = None if t["values"] is None else [untok(v) for v in t["values"]]
        return FrozenTrial(
            number=-1,
            trial_id=-1,
            state=TrialState(t["state"]),
            value=None,
            values=values,
            datetime_start=datetime.datetime(2024, 1, 1, 1, 1, 1, 123456) if t["start"] else None,
            datetime_complete=datetime.datetime(2024, 1, 2, 3, 4, 5, 654321) if t["complete"] else None,
            params={n: p["ext"] for n, p in t["params"].items()},
            distributions=dists,
            user_attrs=json.loads(json.dumps(t["user"])),
            system_attrs=json.loads(json.dumps(t["system"])),
            intermediate_values={int(s): untok(v) for s, v in t["inter"].items()},
        )

    def states(self, op: dict[str, Any]) -> Any:
        st = op.get("states")
        if st is None:
            return None
        return tuple(TrialState(x) for x in st)

    def run(self, op: dict[str, Any]) -> dict[str, Any]:
        """Execute; return the observation in the driver's `out` shape."""
        s = self.s
        k = op["op"]
        try:
            if k == "createStudy":
                real = s.create_new_study([StudyDirection(d) for d in op["dirs"]], op["name"])
                return {"k": "id", "n": self._new_study(real)}
            if k == "deleteStudy":
                s.delete_study(self.rs(op["sid"]))
                self.deleted_studies.add(op["sid"])
                return {"k": "unit"}
            if k == "setStudyUserAttr":
                s.set_study_user_attr(self.rs(op["sid"]), op["k"], json.loads(json.dumps(op["v"])))
                return {"k": "unit"}
            if k == "setStudySystemAttr":
                s.set_study_system_attr(self.rs(op["sid"]), op["k"], json.loads(json.dumps(op["v"])))
                return {"k": "unit"}
            if k == "createTrial":
                tmpl = None if op.get("tmpl") is None else self.build_template(op["tmpl"])
                real = s.create_new_trial(self.rs(op["sid"]), tmpl)
                c = self._new_trial(real)
                self.trial_study[c] = op["sid"]
                return {"k": "id", "n": c}
            if k == "setTrialParam":
                s.set_trial_param(self.rt(op["tid"]), op["name"], untok(op["internal"]), json_to_distribution(op["dist"]))
                return {"k": "unit"}
            if k == "setTrialStateValues":
                vals = None if op["values"] is None else [untok(v) for v in op["values"]]
                b = s.set_trial_state_values(self.rt(op["tid"]), TrialState(op["state"]), vals)
                return {"k": "bool", "b": bool(b)}
            if k == "setTrialInter":
                s.set_trial_intermediate_value(self.rt(op["tid"]), op["step"], untok(op["v"]))
                return {"k": "unit"}
            if k == "setTrialUserAttr":
                s.set_trial_user_attr(self.rt(op["tid"]), op["k"], json.loads(json.dumps(op["v"])))
                return {"k": "unit"}
            if k == "setTrialSystemAttr":
                s.set_trial_system_attr(self.rt(op["tid"]), op["k"], json.loads(json.dumps(op["v"])))
                return {"k": "unit"}
            if k == "getStudyIdFromName":
                real = s.get_study_id_from_name(op["name"])
                return {"k": "nat", "n": self.r2s.get(real, "?%d" % real)}
            if k == "getStudyNameFromId":
                return {"k": "str", "s": s.get_study_name_from_id(self.rs(op["sid"]))}
            if k == "getStudyDirections":
                return {"k": "nats", "l": [int(d.value) for d in s.get_study_directions(self.rs(op["sid"]))]}
            if k == "getStudyUserAttrs":
                return {"k": "attrs", "v": {a: atok(v) for a, v in s.get_study_user_attrs(self.rs(op["sid"])).items()}}
            if k == "getStudySystemAttrs":
                return {"k": "attrs", "v": {a: atok(v) for a, v in s.get_study_system_attrs(self.rs(op["sid"])).items()}}
            if k == "getAllStudies":
                l = [canon_study(fs, self.r2s.get(fs._study_id, "?%d" % fs._study_id)) for fs in s.get_all_studies()
                     if fs._study_id not in self.ignore]
                return {"k": "studies", "l": sorted(l, key=lambda x: str(x["id"]) if not isinstance(x["id"], int) else "%09d" % x["id"])}
            if k == "getTrialIdFromNumber":
                real = s.get_trial_id_from_study_id_trial_number(self.rs(op["sid"]), op["number"])
                return {"k": "nat", "n": self.r2t.get(real, "?%d" % real)}
            if k == "getTrialNumberFromId":
                return {"k": "nat", "n": s.get_trial_number_from_id(self.rt(op["tid"]))}
            if k == "getTrialParam":
                return {"k": "str", "s": ftok(s.get_trial_param(self.rt(op["tid"]), op["name"]))}
            if k == "getTrial":
                t = s.get_trial(self.rt(op["tid"]))
                return {"k": "trial", "t": canon_trial(t, self.r2t.get(t._trial_id, "?%d" % t._trial_id))}
            if k == "getAllTrials":
                ts = s.get_all_trials(self.rs(op["sid"]), deepcopy=False, states=self.states(op))
                return {"k": "trials", "l": [canon_trial(t, self.r2t.get(t._trial_id, "?%d" % t._trial_id)) for t in ts]}
            if k == "getNTrials":
                return {"k": "nat", "n": s.get_n_trials(self.rs(op["sid"]), self.states(op))}
            if k == "getBestTrial":
                t = s.get_best_trial(self.rs(op["sid"]))
                return {"k": "trial", "t": canon_trial(t, self.r2t.get(t._trial_id, "?%d" % t._trial_id))}
        except IdReuse:
            raise
        except Exception as e:  # noqa: BLE001 - the class of the error is the observation
            return {"k": "err", "e": err_name(e), "msg": str(e)[:120]}
        raise ValueError("unknown op %r" % k)

    def dump(self) -> list[dict[str, Any]]:
        """The whole readable state in the shape of the driver's `state`."""
        out = []
        studies = [fs for fs in self.s.get_all_studies() if fs._study_id not in self.ignore]
        for fs in sorted(studies, key=lambda fs: self.r2s.get(fs._study_id, 10**9 + fs._study_id)):
            cid = self.r2s.get(fs._study_id, "?%d" % fs._study_id)
            ts = self.s.get_all_trials(fs._study_id, deepcopy=False)
            out.append({"study": canon_study(fs, cid), "trials": [canon_trial(t, self.r2t.get(t._trial_id, "?%d" % t._trial_id)) for t in ts]})
        return out


MUTATING = {"createStudy", "deleteStudy", "setStudyUserAttr", "setStudySystemAttr", "createTrial", "setTrialParam",
            "setTrialStateValues", "setTrialInter", "setTrialUserAttr", "setTrialSystemAttr"}


def compare_out(model_out: dict[str, Any], obs: dict[str, Any]) -> str | None:
    """None if the observation is allowed by the model's output, else a description."""
    m = strip_model(model_out)
    o = {k: v for k, v in obs.items() if k != "msg"}
    if m.get("k") == "oneOf":
        if o.get("k") == "trial" and o["t"] in m["l"]:
            return None
        return "expected one of the optimal trials %s, got %s" % ([t["id"] for t in m["l"]], json.dumps(o)[:300])
    if m == o:
        return None
    return "model says %s, implementation says %s" % (json.dumps(m, sort_keys=True)[:400], json.dumps(o, sort_keys=True)[:400])


# ---- generators --------------------------------------------------------------------------------
DISTS = [
    FloatDistribution(0, 1),
    FloatDistribution(1e-3, 1, log=True),
    FloatDistribution(0, 1, step=0.25),
    FloatDistribution(-5.5, 5.5),
    IntDistribution(0, 10),
    IntDistribution(0, 10, step=2),
    IntDistribution(1, 64, log=True),
    CategoricalDistribution(["a", "b"]),
    CategoricalDistribution([1, 2, 3]),
    CategoricalDistribution([None, True, 0.5, "x"]),
]
VALS = [0.0, 1.5, -2.0, 1e-300, 123456789.125, float("inf"), float("-inf")]
ATTRS = [1, "x", [1, 2], {"a": None}, 1.5, True, None, "", {"n": [1, {"m": "z"}]}, "ünï"]


def ext_value(r: Any, d: BaseDistribution) -> Any:
    if isinstance(d, CategoricalDistribution):
        return r.choice(list(d.choices))
    if isinstance(d, IntDistribution):
        ks = list(range(d.low, d.high + 1, d.step))
        return r.choice(ks)
    assert isinstance(d, FloatDistribution)
    if d.step is not None:
        n = int(round((d.high - d.low) / d.step))
        return d.low + d.step * r.randrange(n + 1)
    if d.log:
        return r.choice([d.low, d.high, math.sqrt(d.low * d.high)])
    return r.choice([d.low, d.high, (d.low + d.high) / 2, d.low + (d.high - d.low) * r.random()])


class Gen:
    """Seeded generator of mostly-valid storage histories (plus a malformed share)."""

    def __init__(self, r: Any, max_studies: int = 3, max_trials: int = 8, names_per_study: int = 3) -> None:
        self.r = r
        self.ns = 0  # studies created so far (canonical ids 0..ns-1)
        self.nt = 0
        self.max_studies = max_studies
        self.max_trials = max_trials
        # per study: the distribution family fixed for each param name, so that templates never
        # conflict (U1 is exercised only through set_trial_param)
        self.fam: dict[tuple[int, str], BaseDistribution] = {}
        self.npar = names_per_study
        self.trial_study: dict[int, int] = {}

    def sid(self) -> int:
        if self.ns == 0 or self.r.random() < 0.04:
            return self.ns + self.r.randrange(2)  # unknown
        return self.r.randrange(self.ns)

    def tid(self) -> int:
        if self.nt == 0 or self.r.random() < 0.04:
            return self.nt + self.r.randrange(2)
        # prefer recent trials
        if self.r.random() < 0.5:
            return max(0, self.nt - 1 - self.r.randrange(min(3, self.nt)))
        return self.r.randrange(self.nt)

    def family(self, sid: int, name: str) -> BaseDistribution:
        key = (sid, name)
        if key not in self.fam:
            self.fam[key] = self.r.choice(DISTS)
        return self.fam[key]

    def compatible_variant(self, d: BaseDistribution) -> BaseDistribution:
        r = self.r
        if isinstance(d, CategoricalDistribution) or r.random() < 0.5:
            return d
        if isinstance(d, FloatDistribution):
            if d.log:
                return r.choice([d, FloatDistribution(1e-2, 10, log=True)])
            return r.choice([d, FloatDistribution(-1, 2), FloatDistribution(0, 2, step=0.5)])
        assert isinstance(d, IntDistribution)
        if d.log:
            return r.choice([d, IntDistribution(2, 8, log=True)])
        return r.choice([d, IntDistribution(-3, 30), IntDistribution(0, 9, step=3)])

    def template(self, sid: int) -> dict[str, Any]:
        r = self.r
        st = r.choice([0, 1, 1, 2, 3, 4, 4])
        values = None
        if st == 1:
            values = [ftok(r.choice(VALS))]
        elif st == 2 and r.random() < 0.5:
            values = [ftok(r.choice(VALS))]
        params = {}
        for i in range(self.npar):
            if r.random() < 0.45:
                name = "p%d" % i
                d = self.compatible_variant(self.family(sid, name))
                params[name] = {"dist": distribution_to_json(d), "ext": ext_value(r, d)}
        inter = {}
        for _ in range(r.randrange(3)):
            inter[str(r.randrange(4))] = ftok(r.choice(VALS + [float("nan")]))
        return {
            "state": st,
            "values": values,
            "params": params,
            "user": {"u%d" % r.randrange(2): r.choice(ATTRS)} if r.random() < 0.5 else {},
            "system": {"s%d" % r.randrange(2): r.choice(ATTRS)} if r.random() < 0.5 else {},
            "inter": inter,
            "start": st != 4,
            "complete": st in (1, 2, 3),
        }

    def next(self, multi_objective: bool = False) -> dict[str, Any]:
        r = self.r
        w = [
            ("createStudy", 6 if self.ns < self.max_studies else 1),
            ("deleteStudy", 1),
            ("setStudyUserAttr", 2), ("setStudySystemAttr", 2),
            ("createTrial", 12 if self.nt < self.max_trials else 1),
            ("createTrialT", 8 if self.nt < self.max_trials else 1),
            ("setTrialParam", 10), ("setTrialStateValues", 12), ("setTrialInter", 6),
            ("setTrialUserAttr", 4), ("setTrialSystemAttr", 4),
            ("getStudyIdFromName", 1), ("getStudyNameFromId", 1), ("getStudyDirections", 1),
            ("getStudyUserAttrs", 1), ("getStudySystemAttrs", 1), ("getAllStudies", 1),
            ("getTrialIdFromNumber", 2), ("getTrialNumberFromId", 2), ("getTrialParam", 2), ("getTrial", 3),
            ("getAllTrials", 4), ("getNTrials", 2), ("getBestTrial", 3),
        ]
        k = r.choices([a for a, _ in w], [b for _, b in w])[0]
        if self.ns == 0:
            k = "createStudy"
        if k == "createStudy":
            nd = 1 if (not multi_objective or r.random() < 0.8) else 2
            return {"op": k, "name": "n%d" % r.randrange(self.max_studies + 1), "dirs": [r.choice([1, 2]) for _ in range(nd)]}
        if k == "deleteStudy":
            return {"op": k, "sid": self.sid()}
        if k in ("setStudyUserAttr", "setStudySystemAttr"):
            return {"op": k, "sid": self.sid(), "k": "k%d" % r.randrange(3), "v": r.choice(ATTRS)}
        if k == "createTrial":
            return {"op": "createTrial", "sid": self.sid(), "tmpl": None}
        if k == "createTrialT":
            sid = self.sid()
            return {"op": "createTrial", "sid": sid, "tmpl": self.template(sid)}
        if k == "setTrialParam":
            tid = self.tid()
            sid = self.trial_study.get(tid, 0)
            name = "p%d" % r.randrange(self.npar)
            d = self.family(sid, name)
            if r.random() < 0.15:
                d = r.choice(DISTS)  # possibly incompatible
            else:
                d = self.compatible_variant(d)
            return {"op": k, "tid": tid, "name": name, "dist": distribution_to_json(d), "internal": ftok(d.to_internal_repr(ext_value(r, d)))}
        if k == "setTrialStateValues":
            st = r.choice([0, 0, 1, 1, 1, 2, 3, 4])
            values = None
            if st == 1 or (st in (2,) and r.random() < 0.4):
                values = [ftok(r.choice(VALS))]
            return {"op": k, "tid": self.tid(), "state": st, "values": values}
        if k == "setTrialInter":
            return {"op": k, "tid": self.tid(), "step": r.randrange(5), "v": ftok(r.choice(VALS + [float("nan")]))}
        if k in ("setTrialUserAttr", "setTrialSystemAttr"):
            return {"op": k, "tid": self.tid(), "k": "k%d" % r.randrange(3), "v": r.choice(ATTRS)}
        if k == "getStudyIdFromName":
            return {"op": k, "name": "n%d" % r.randrange(self.max_studies + 1)}
        if k in ("getStudyNameFromId", "getStudyDirections", "getStudyUserAttrs", "getStudySystemAttrs", "getBestTrial"):
            return {"op": k, "sid": self.sid()}
        if k == "getAllStudies":
            return {"op": k}
        if k == "getTrialIdFromNumber":
            return {"op": k, "sid": self.sid(), "number": r.randrange(self.max_trials + 1)}
        if k in ("getTrialNumberFromId", "getTrial"):
            return {"op": k, "tid": self.tid()}
        if k == "getTrialParam":
            return {"op": k, "tid": self.tid(), "name": "p%d" % r.randrange(self.npar)}
        if k in ("getAllTrials", "getNTrials"):
            return {"op": k, "sid": self.sid(), "states": r.choice([None, None, [4], [1, 0], [1], [2, 3], [0, 1, 2, 3, 4], []])}
        raise AssertionError(k)

    def feedback(self, op: dict[str, Any], out: dict[str, Any]) -> None:
        """Tell the generator what the model answered (so that ids stay meaningful)."""
        if out.get("k") == "id":
            if op["op"] == "createStudy":
                self.ns += 1
            else:
                self.trial_study[self.nt] = op["sid"]
                self.nt += 1
