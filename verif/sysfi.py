"""`sysfi`: "process = thread with its own backend object" simulator for the journal file backend.

The names `os`, `open` and `time` inside module `optuna.storages.journal._file` are rebound
(harness-side, nothing in /repo changes) to proxies so that
  * every system call (symlink, open(O_EXCL), stat, rename, unlink, open, write, flush, fsync, close,
    seek/read/truncate, readline) is a scheduling point and a possible crash point,
  * a `write` may be delivered in several chunks with scheduling points between them and may be cut
    short by a crash after any byte,
  * the clock is virtual: it advances only while every live thread sleeps, so a grace period can
    only expire on a lock whose holder is dead, never on one that is merely preempted,
  * a crash parks the thread for ever (kill -9: no `finally`, lock file and torn bytes stay).
"""
from __future__ import annotations

import builtins
import os as _os
import time as _time
from typing import Any

from verif import sched as _sched


class Crash(BaseException):
    pass


class Plan:
    """Which thread dies where: at its `at`-th system call event (counted per thread), `when` =
    'before' | 'after' the call; for a write, `cut` = number of bytes that still reach the file."""

    def __init__(self, thread: int | None = None, at: int = -1, when: str = "before", cut: int | None = None, chunks: int = 1) -> None:
        self.thread = thread
        self.at = at
        self.when = when
        self.cut = cut
        self.chunks = chunks
        self.counts: dict[int, int] = {}
        self.events: list[tuple[int, str]] = []
        self.crashed: int | None = None
        self.crash_event: str | None = None
        # a LIVE but slow thread: (thread, its k-th system call, virtual seconds) - it is suspended before that call
        # for that long (a stopped process, an NFS hiccup), e.g. longer than the lock's grace period
        self.stall: tuple[int, int, float] | None = None
        self.stalled_at: str | None = None


class Sys:
    def __init__(self, s: _sched.Sched, plan: Plan, rng: Any) -> None:
        self.s = s
        self.plan = plan
        self.rng = rng
        self.time = VTime(s)
        self.hooks: dict[str, Any] = {}
        self.lock_serial = 0

    def me(self) -> int | None:
        return getattr(self.s.tl, "i", None)

    def event(self, name: str, do: Any) -> Any:
        """A system call: scheduling point, then possibly die before/after performing it."""
        t = self.me()
        if t is None:
            return do()
        self.s.yield_(t)
        n = self.plan.counts.get(t, 0)
        self.plan.counts[t] = n + 1
        self.plan.events.append((t, name))
        if self.plan.stall is not None and self.plan.stall[0] == t and self.plan.stall[1] == n:
            self.plan.stalled_at = name
            self.time.stall(t, self.plan.stall[2])
        hit = self.plan.thread == t and self.plan.at == n
        if hit and self.plan.when == "before":
            self.die(name + " (before)")
        r = do()
        if hit and self.plan.when == "after":
            self.die(name + " (after)")
        return r

    def die(self, what: str) -> None:
        self.plan.crashed = self.me()
        self.plan.crash_event = what
        self.s.park_forever()


class VTime:
    def __init__(self, s: _sched.Sched) -> None:
        self.s = s
        self.now = 1000.0
        self.sleeping: set[int] = set()
        # "sleepers": time passes only while every live thread sleeps (a grace period can only expire on a dead
        # holder); "handover": time passes only when a holder releases the lock (each holder keeps it < grace,
        # a waiter may wait much longer in total)
        self.mode = "sleepers"

    def stall(self, t: int, secs: float) -> None:
        """The calling thread makes no progress for `secs` virtual seconds; the others run meanwhile (their polling
        sleeps move the clock, since this thread counts as asleep)."""
        until = self.now + secs
        self.sleeping.add(t)
        try:
            for _ in range(100000):
                if self.now >= until:
                    break
                if self.s.alive <= self.sleeping:
                    self.now += 0.5
                self.s.yield_(t, blocked=True)
        finally:
            self.sleeping.discard(t)

    def sleep(self, secs: float) -> None:
        t = getattr(self.s.tl, "i", None)
        if t is None:
            return
        self.sleeping.add(t)
        # the clock moves only when every live thread is asleep (nobody could make progress instead)
        if self.mode == "sleepers" and self.s.alive <= self.sleeping:
            self.now += max(secs, 0.001)
        try:
            self.s.yield_(t, blocked=True)
        finally:
            self.sleeping.discard(t)

    def monotonic(self) -> float:
        return self.now

    def time(self) -> float:
        return self.now

    def __getattr__(self, name: str) -> Any:
        return getattr(_time, name)


class OsProxy:
    def __init__(self, sys: Sys) -> None:
        self._sys = sys

    def __getattr__(self, name: str) -> Any:
        return getattr(_os, name)

    def _created(self, r: Any) -> Any:
        self._sys.lock_serial += 1
        h = self._sys.hooks.get("lock_created")
        if h is not None:
            h(self._sys.me())
        return r

    def symlink(self, *a: Any, **k: Any) -> Any:
        return self._sys.event("symlink", lambda: self._created(_os.symlink(*a, **k)))

    def open(self, *a: Any, **k: Any) -> Any:
        return self._sys.event("os.open", lambda: self._created(_os.open(*a, **k)))

    def close(self, *a: Any, **k: Any) -> Any:
        return self._sys.event("os.close", lambda: _os.close(*a, **k))

    def lstat(self, *a: Any, **k: Any) -> Any:
        # JournalFileSymlinkLock watches the lock file itself since the repair of F31 (os.lstat); same event, same
        # virtual mtime as `stat`
        return self.stat(*a, _call=_os.lstat, **k)

    def stat(self, *a: Any, _call: Any = None, **k: Any) -> Any:
        def do() -> Any:
            r = (_call or _os.stat)(*a, **k)
            if a and str(a[0]).endswith(".lock"):
                # real mtimes of lock files created microseconds apart can be equal (coarse kernel clock);
                # give every lock file a distinct virtual mtime = serial number of its creation
                class R:
                    pass

                o = R()
                for f in ("st_mode", "st_size", "st_ino", "st_mtime_ns"):
                    setattr(o, f, getattr(r, f))
                o.st_mtime = float(self._sys.lock_serial)
                return o
            return r

        return self._sys.event("stat", do)

    def rename(self, *a: Any, **k: Any) -> Any:
        def do() -> Any:
            r = _os.rename(*a, **k)
            h = self._sys.hooks.get("renamed")
            if h is not None:
                h(self._sys.me())
            return r

        return self._sys.event("rename", do)

    def unlink(self, *a: Any, **k: Any) -> Any:
        return self._sys.event("unlink", lambda: _os.unlink(*a, **k))

    def fsync(self, *a: Any, **k: Any) -> Any:
        return self._sys.event("fsync", lambda: _os.fsync(*a, **k))


class FileProxy:
    def __init__(self, sys: Sys, f: Any) -> None:
        self._sys = sys
        self._f = f

    def __enter__(self) -> "FileProxy":
        return self

    def __exit__(self, *a: Any) -> None:
        self._sys.event("close", self._f.close)

    def __iter__(self) -> Any:
        while True:
            line = self._sys.event("readline", self._f.readline)
            if not line:
                return
            yield line

    def write(self, data: bytes) -> int:
        sys = self._sys
        t = sys.me()
        plan = sys.plan
        if t is None:
            return self._f.write(data)
        # deliver in chunks, unbuffered, with scheduling points in between; a crash may cut it short
        n = plan.counts.get(t, 0)
        hit = plan.thread == t and plan.at == n
        if hit and plan.cut is not None:
            sys.s.yield_(t)
            plan.counts[t] = n + 1
            plan.events.append((t, "write(cut=%d/%d)" % (plan.cut, len(data))))
            self._f.write(data[: plan.cut])
            self._f.flush()
            sys.die("write cut after %d of %d bytes" % (plan.cut, len(data)))
        k = max(1, plan.chunks if plan.chunks > 0 else 1)
        cuts = sorted(sys.rng.sample(range(1, len(data)), min(k - 1, max(len(data) - 1, 0)))) if k > 1 and len(data) > 1 else []
        pos = 0
        first = True
        for c in cuts + [len(data)]:
            piece = data[pos:c]
            pos = c

            def do(piece: bytes = piece) -> None:
                self._f.write(piece)
                self._f.flush()

            if first:
                sys.event("write", do)
                first = False
            else:
                sys.s.yield_(t)
                do()
        return len(data)

    def flush(self) -> Any:
        return self._sys.event("flush", self._f.flush)

    def fileno(self) -> int:
        return self._f.fileno()

    def seek(self, *a: Any) -> Any:
        return self._sys.event("seek", lambda: self._f.seek(*a))

    def read(self, *a: Any) -> Any:
        return self._sys.event("read", lambda: self._f.read(*a))

    def truncate(self, *a: Any) -> Any:
        return self._sys.event("truncate", lambda: self._f.truncate(*a))

    def tell(self) -> Any:
        return self._f.tell()

    def close(self) -> Any:
        return self._sys.event("close", self._f.close)


def install(sys: Sys) -> Any:
    """Rebind os / open / time inside optuna.storages.journal._file; returns an undo function."""
    import optuna.storages.journal._file as jf

    saved = (jf.os, jf.__dict__.get("open"), jf.time)

    def open_proxy(path: Any, mode: str = "r", *a: Any, **k: Any) -> Any:
        if sys.me() is None:
            return builtins.open(path, mode, *a, **k)
        f = sys.event("open(%s)" % mode, lambda: builtins.open(path, mode, *a, **k))
        return FileProxy(sys, f)

    jf.os = OsProxy(sys)
    jf.open = open_proxy
    jf.time = sys.time

    def undo() -> None:
        jf.os = saved[0]
        if saved[1] is None:
            jf.__dict__.pop("open", None)
        else:
            jf.open = saved[1]
        jf.time = saved[2]

    return undo
