"""T-best: regenerate lean/OptunaVerif/Generated/Best.lean from the optuna source tree (C12).

What is read from the source (everything else of the six functions must have exactly the modelled shape):

  optuna/storages/_rdb/models.py   TrialModel.find_{min,max}_value_trial_id   the `case({...})` rank table, asc/desc of both
                                                                             ORDER BY terms, the state the query filters on
  optuna/storages/_rdb/storage.py  RDBStorage.get_best_trial                  which query is called for which direction, objective index
  optuna/storages/_in_memory.py    InMemoryStorage._update_cache              the two comparisons `best_value <op> new_value`, branch order
  optuna/storages/_base.py         BaseStorage.get_best_trial                 the `states=[...]` filter, max/min per direction
  optuna/study/study.py            Study.best_trial                           `x <op> 0.0`, any/all, states, max/min per direction
  optuna/study/_constrained_optimization.py  _get_feasible_trials             `x <op> 0.0`, all/any

Method: the function's AST is normalised — every *whitelisted variation point* (a "hole") is replaced by a
placeholder and its value recorded — and the normalised dump must equal the normalised dump of the template kept
below (the shape Model/Best.lean was written against).  Any other difference is "untranslatable" and is reported as
a broken tie by the caller.
"""
from __future__ import annotations

import ast
import os
from typing import Any

from verif import core

OUT = os.path.join(core.LEAN_DIR, "OptunaVerif", "Generated", "Best.lean")


class Untranslatable(Exception):
    pass


# ---------------------------------------------------------------------------------------------- templates
# The shapes the Lean model mirrors.  Hole values in these templates are irrelevant (they are erased).
T_FIND = '''
def find_value_trial_id(cls, study_id: int, objective: int, session: orm.Session) -> int:
    trial = (
        session.query(cls)
        .with_entities(cls.trial_id)
        .filter(cls.study_id == study_id)
        .filter(cls.state == TrialState.COMPLETE)
        .join(TrialValueModel)
        .filter(TrialValueModel.objective == objective)
        .order_by(
            desc(
                case(
                    {"INF_NEG": -1, "FINITE": 0, "INF_POS": 1},
                    value=TrialValueModel.value_type,
                )
            ),
            desc(TrialValueModel.value),
        )
        .limit(1)
        .one_or_none()
    )
    if trial is None:
        raise ValueError(NOT_FOUND_MSG)
    return trial[0]
'''

T_RDB_GET = '''
def get_best_trial(self, study_id: int) -> FrozenTrial:
    with _create_scoped_session(self.scoped_session) as session:
        _directions = self.get_study_directions(study_id)
        if len(_directions) > 1:
            raise RuntimeError(
                "Best trial can be obtained only for single-objective optimization."
            )
        direction = _directions[0]

        if direction == StudyDirection.MAXIMIZE:
            trial_id = models.TrialModel.find_max_value_trial_id(study_id, 0, session)
        else:
            trial_id = models.TrialModel.find_min_value_trial_id(study_id, 0, session)

    return self.get_trial(trial_id)
'''

T_MEM = '''
def _update_cache(self, trial_id: int, study_id: int) -> None:
    trial = self._get_trial(trial_id)

    if trial.state != TrialState.COMPLETE:
        return

    best_trial_id = self._studies[study_id].best_trial_id
    if best_trial_id is None:
        self._studies[study_id].best_trial_id = trial_id
        return

    _directions = self.get_study_directions(study_id)
    if len(_directions) > 1:
        return
    direction = _directions[0]

    best_trial = self._get_trial(best_trial_id)
    assert best_trial is not None
    if best_trial.value is None:
        self._studies[study_id].best_trial_id = trial_id
        return
    # Complete trials do not have `None` values.
    assert trial.value is not None
    best_value = best_trial.value
    new_value = trial.value

    if direction == StudyDirection.MAXIMIZE:
        if best_value < new_value:
            self._studies[study_id].best_trial_id = trial_id
    else:
        if best_value > new_value:
            self._studies[study_id].best_trial_id = trial_id
'''

T_BASE = '''
def get_best_trial(self, study_id: int) -> FrozenTrial:
    all_trials = self.get_all_trials(study_id, deepcopy=False, states=[TrialState.COMPLETE])

    if len(all_trials) == 0:
        raise ValueError("No trials are completed yet.")

    directions = self.get_study_directions(study_id)
    if len(directions) > 1:
        raise RuntimeError(
            "Best trial can be obtained only for single-objective optimization."
        )
    direction = directions[0]

    if direction == StudyDirection.MAXIMIZE:
        best_trial = max(all_trials, key=lambda t: cast(float, t.value))
    else:
        best_trial = min(all_trials, key=lambda t: cast(float, t.value))

    return best_trial
'''

T_STUDY = '''
def best_trial(self) -> FrozenTrial:
    if self._is_multi_objective():
        raise RuntimeError(
            "A single best trial cannot be retrieved from a multi-objective study. Consider "
            "using Study.best_trials to retrieve a list containing the best trials."
        )

    best_trial = self._storage.get_best_trial(self._study_id)

    constraints = best_trial.system_attrs.get(_CONSTRAINTS_KEY)
    if constraints is not None and any([x > 0.0 for x in constraints]):
        complete_trials = self.get_trials(deepcopy=False, states=[TrialState.COMPLETE])
        feasible_trials = _get_feasible_trials(complete_trials)
        if len(feasible_trials) == 0:
            raise ValueError("No feasible trials are completed yet.")
        if self.direction == StudyDirection.MAXIMIZE:
            best_trial = max(feasible_trials, key=lambda t: cast(float, t.value))
        else:
            best_trial = min(feasible_trials, key=lambda t: cast(float, t.value))

    return copy.deepcopy(best_trial)
'''

T_FEAS = '''
def _get_feasible_trials(trials: Sequence[FrozenTrial]) -> list[FrozenTrial]:
    feasible_trials = []
    for trial in trials:
        constraints = trial.system_attrs.get(_CONSTRAINTS_KEY)
        if constraints is not None and all(x <= 0.0 for x in constraints):
            feasible_trials.append(trial)
    return feasible_trials
'''

CMP = {ast.Lt: "lt", ast.LtE: "le", ast.Gt: "gt", ast.GtE: "ge", ast.Eq: "eq", ast.NotEq: "ne"}
FLIP = {"lt": "gt", "le": "ge", "gt": "lt", "ge": "le", "eq": "eq", "ne": "ne"}
STATE_CODES = {"RUNNING": 0, "COMPLETE": 1, "PRUNED": 2, "FAIL": 3, "WAITING": 4}


def _attr_chain(n: ast.AST) -> str | None:
    parts = []
    while isinstance(n, ast.Attribute):
        parts.append(n.attr)
        n = n.value
    if isinstance(n, ast.Name):
        parts.append(n.id)
        return ".".join(reversed(parts))
    return None


def _const_num(n: ast.AST) -> Any:
    if isinstance(n, ast.Constant) and isinstance(n.value, (int, float)) and not isinstance(n.value, bool):
        return n.value
    if isinstance(n, ast.UnaryOp) and isinstance(n.op, ast.USub) and isinstance(n.operand, ast.Constant):
        return -n.operand.value
    return None


class _Norm(ast.NodeTransformer):
    """Erase the whitelisted variation points, recording their values in order of appearance."""

    def __init__(self) -> None:
        self.holes: list[tuple[str, Any]] = []

    def visit_FunctionDef(self, node: ast.FunctionDef) -> Any:
        node.name = "_f_"
        node.decorator_list = []
        node.returns = None
        for a in node.args.args + node.args.kwonlyargs:
            a.annotation = None
        if node.body and isinstance(node.body[0], ast.Expr) and isinstance(node.body[0].value, ast.Constant) \
                and isinstance(node.body[0].value.value, str):
            node.body = node.body[1:]
        self.generic_visit(node)
        return node

    def visit_Compare(self, node: ast.Compare) -> Any:
        if len(node.ops) == 1:
            l, r = node.left, node.comparators[0]
            lc, rc = _attr_chain(l), _attr_chain(r)
            op = CMP.get(type(node.ops[0]))
            # direction == StudyDirection.X
            if op == "eq" and lc in ("direction", "self.direction") and rc in ("StudyDirection.MAXIMIZE", "StudyDirection.MINIMIZE"):
                self.holes.append(("dir", rc.split(".")[1]))
                return ast.Name(id="__DIR_TEST__", ctx=ast.Load())
            # best_value <op> new_value
            if op and {lc, rc} == {"best_value", "new_value"}:
                self.holes.append(("cmp_bn", op if lc == "best_value" else FLIP[op]))
                return ast.Name(id="__CMP_BN__", ctx=ast.Load())
            # x <op> 0.0
            if op and lc == "x" and _const_num(r) == 0:
                self.holes.append(("cmp0", op))
                return ast.Name(id="__CMP0__", ctx=ast.Load())
            if op and rc == "x" and _const_num(l) == 0:
                self.holes.append(("cmp0", FLIP[op]))
                return ast.Name(id="__CMP0__", ctx=ast.Load())
            # cls.state == TrialState.X   (SQL filter)
            if op == "eq" and lc == "cls.state" and rc and rc.startswith("TrialState."):
                self.holes.append(("sqlstate", rc.split(".")[1]))
                return ast.Name(id="__SQLSTATE__", ctx=ast.Load())
        self.generic_visit(node)
        return node

    def visit_keyword(self, node: ast.keyword) -> Any:
        if node.arg == "states" and isinstance(node.value, (ast.List, ast.Tuple)):
            names = [_attr_chain(e) for e in node.value.elts]
            if all(n and n.startswith("TrialState.") and n.split(".")[1] in STATE_CODES for n in names):
                self.holes.append(("states", [STATE_CODES[n.split(".")[1]] for n in names]))
                node.value = ast.Name(id="__STATES__", ctx=ast.Load())
                return node
        self.generic_visit(node)
        return node

    def visit_Call(self, node: ast.Call) -> Any:
        f = node.func
        if isinstance(f, ast.Name) and f.id in ("any", "all"):
            self.holes.append(("quant", f.id))
            node.func = ast.Name(id="__QUANT__", ctx=ast.Load())
        elif isinstance(f, ast.Name) and f.id in ("max", "min"):
            self.holes.append(("pick", f.id))
            node.func = ast.Name(id="__PICK__", ctx=ast.Load())
        elif isinstance(f, ast.Name) and f.id in ("asc", "desc"):
            self.holes.append(("order", f.id))
            node.func = ast.Name(id="__ORDER__", ctx=ast.Load())
        elif isinstance(f, ast.Name) and f.id == "case" and node.args and isinstance(node.args[0], ast.Dict):
            d = node.args[0]
            table = {}
            for k, v in zip(d.keys, d.values):
                if not (isinstance(k, ast.Constant) and isinstance(k.value, str)) or not isinstance(_const_num(v), int):
                    raise Untranslatable("case() table is not a {str: int} literal")
                table[k.value] = _const_num(v)
            self.holes.append(("case", table))
            node.args[0] = ast.Name(id="__CASE__", ctx=ast.Load())
        elif isinstance(f, ast.Attribute) and f.attr in ("find_max_value_trial_id", "find_min_value_trial_id"):
            obj = _const_num(node.args[1]) if len(node.args) == 3 else None
            if not isinstance(obj, int) or obj < 0:
                raise Untranslatable("objective index of %s is not a literal" % f.attr)
            self.holes.append(("find", (f.attr, obj)))
            f.attr = "__FIND__"
            node.args[1] = ast.Name(id="__OBJ__", ctx=ast.Load())
        self.generic_visit(node)
        return node


def _normalise(fn: ast.FunctionDef) -> tuple[str, list[tuple[str, Any]]]:
    n = _Norm()
    fn = n.visit(fn)
    return ast.dump(fn, annotate_fields=True, include_attributes=False), n.holes


def _template(src: str) -> str:
    fn = ast.parse(src).body[0]
    assert isinstance(fn, ast.FunctionDef)
    return _normalise(fn)[0]


def _find_func(tree: ast.Module, cls: str | None, name: str) -> ast.FunctionDef:
    scope: list[ast.stmt] = tree.body
    if cls is not None:
        for n in tree.body:
            if isinstance(n, ast.ClassDef) and n.name == cls:
                scope = n.body
                break
        else:
            raise Untranslatable("class %s not found" % cls)
    for n in scope:
        if isinstance(n, ast.FunctionDef) and n.name == name:
            return n
    raise Untranslatable("function %s%s not found" % (cls + "." if cls else "", name))


def _extract(repo: str, rel: str, cls: str | None, name: str, template: str, kinds: list[str]) -> list[Any]:
    path = os.path.join(repo, rel)
    try:
        tree = ast.parse(open(path).read())
    except (OSError, SyntaxError) as e:
        raise Untranslatable("%s: %s" % (rel, e))
    fn = _find_func(tree, cls, name)
    dump, holes = _normalise(fn)
    where = "%s::%s%s" % (rel, cls + "." if cls else "", name)
    if dump != _template(template):
        raise Untranslatable("%s no longer has the modelled shape (outside the whitelisted variation points)" % where)
    if [k for k, _ in holes] != kinds:
        raise Untranslatable("%s: variation points %s, expected %s" % (where, [k for k, _ in holes], kinds))
    return [v for _, v in holes]


def _b(x: bool) -> str:
    return "true" if x else "false"


def _rank(table: dict[str, int], where: str) -> tuple[int, int, int]:
    if set(table) != {"INF_NEG", "FINITE", "INF_POS"}:
        raise Untranslatable("%s: case() keys %s" % (where, sorted(table)))
    return table["INF_NEG"], table["FINITE"], table["INF_POS"]


def generate(repo: str) -> tuple[str, list[str]]:
    """Returns (Lean text, list of 'file::function' it was translated from)."""
    src: list[str] = []
    out = [
        "-- GENERATED by verif/translators/best.py from the optuna source tree; do not edit.",
        "-- Regenerated on every run of `./check C12`; Model/Best.lean is built on these definitions and the",
        "-- theorems of Props/C12 are re-proved against them.",
        "namespace OptunaVerif.Generated.Best",
        "",
        "/-- A Python comparison operator `lhs <op> rhs`. -/",
        "inductive Cmp where",
        "  | lt | le | gt | ge | eq | ne",
        "deriving DecidableEq, Repr, Inhabited",
        "",
    ]
    rel = "optuna/storages/_rdb/models.py"
    for which in ("min", "max"):
        fname = "find_%s_value_trial_id" % which
        state, o1, table, o2 = _extract(repo, rel, "TrialModel", fname, T_FIND, ["sqlstate", "order", "case", "order"])
        neg, fin, pos = _rank(table, fname)
        src.append("%s::TrialModel.%s" % (rel, fname))
        out += [
            "/-! %s :: TrialModel.%s -/" % (rel, fname),
            "def %sRankInfNeg : Int := %d" % (which, neg),
            "def %sRankFinite : Int := %d" % (which, fin),
            "def %sRankInfPos : Int := %d" % (which, pos),
            "def %sRankAsc : Bool := %s" % (which, _b(o1 == "asc")),
            "def %sValueAsc : Bool := %s" % (which, _b(o2 == "asc")),
            "def %sFilterComplete : Bool := %s" % (which, _b(state == "COMPLETE")),
            "",
        ]
    rel = "optuna/storages/_rdb/storage.py"
    d, (f1, obj1), (f2, obj2) = _extract(repo, rel, "RDBStorage", "get_best_trial", T_RDB_GET, ["dir", "find", "find"])
    if obj1 != obj2:
        raise Untranslatable("RDBStorage.get_best_trial: the two branches query different objectives")
    src.append("%s::RDBStorage.get_best_trial" % rel)
    out += [
        "/-! %s :: RDBStorage.get_best_trial -/" % rel,
        "def rdbFirstBranchIsMaximize : Bool := %s" % _b(d == "MAXIMIZE"),
        "def rdbFirstCallsMax : Bool := %s" % _b(f1 == "find_max_value_trial_id"),
        "def rdbElseCallsMax : Bool := %s" % _b(f2 == "find_max_value_trial_id"),
        "def rdbObjectiveIndex : Nat := %d" % obj1,
        "",
    ]
    rel = "optuna/storages/_in_memory.py"
    d, c1, c2 = _extract(repo, rel, "InMemoryStorage", "_update_cache", T_MEM, ["dir", "cmp_bn", "cmp_bn"])
    src.append("%s::InMemoryStorage._update_cache" % rel)
    out += [
        "/-! %s :: InMemoryStorage._update_cache -/" % rel,
        "def memSkipsNonComplete : Bool := true",
        "def memFirstBranchIsMaximize : Bool := %s" % _b(d == "MAXIMIZE"),
        "/-- `if best_value <op> new_value:` in the first branch (lhs = best_value, rhs = new_value) -/",
        "def memFirstCmp : Cmp := .%s" % c1,
        "/-- `if best_value <op> new_value:` in the else branch -/",
        "def memElseCmp : Cmp := .%s" % c2,
        "",
    ]
    rel = "optuna/storages/_base.py"
    states, d, p1, p2 = _extract(repo, rel, "BaseStorage", "get_best_trial", T_BASE, ["states", "dir", "pick", "pick"])
    src.append("%s::BaseStorage.get_best_trial" % rel)
    out += [
        "/-! %s :: BaseStorage.get_best_trial -/" % rel,
        "def baseStates : List Nat := [%s]" % ", ".join(str(s) for s in states),
        "def baseFirstBranchIsMaximize : Bool := %s" % _b(d == "MAXIMIZE"),
        "def baseFirstUsesMax : Bool := %s" % _b(p1 == "max"),
        "def baseElseUsesMax : Bool := %s" % _b(p2 == "max"),
        "",
    ]
    rel = "optuna/study/study.py"
    q, c, states, d, p1, p2 = _extract(repo, rel, "Study", "best_trial", T_STUDY,
                                       ["quant", "cmp0", "states", "dir", "pick", "pick"])
    src.append("%s::Study.best_trial" % rel)
    out += [
        "/-! %s :: Study.best_trial (constraint fallback) -/" % rel,
        "/-- `any([x <op> 0.0 for x in constraints])` -/",
        "def studyViolationCmp : Cmp := .%s" % c,
        "def studyViolationIsAny : Bool := %s" % _b(q == "any"),
        "def studyFallbackStates : List Nat := [%s]" % ", ".join(str(s) for s in states),
        "def studyFallbackFiltersFeasible : Bool := true",
        "def studyFirstBranchIsMaximize : Bool := %s" % _b(d == "MAXIMIZE"),
        "def studyFirstUsesMax : Bool := %s" % _b(p1 == "max"),
        "def studyElseUsesMax : Bool := %s" % _b(p2 == "max"),
        "",
    ]
    rel = "optuna/study/_constrained_optimization.py"
    q, c = _extract(repo, rel, None, "_get_feasible_trials", T_FEAS, ["quant", "cmp0"])
    src.append("%s::_get_feasible_trials" % rel)
    out += [
        "/-! %s :: _get_feasible_trials -/" % rel,
        "/-- `all(x <op> 0.0 for x in constraints)` -/",
        "def feasibleCmp : Cmp := .%s" % c,
        "def feasibleIsAll : Bool := %s" % _b(q == "all"),
        "",
        "end OptunaVerif.Generated.Best",
        "",
    ]
    return "\n".join(out), src


def run(chk: core.Check) -> bool:
    """Regenerate the Lean file; on failure report a broken translation and keep the previous file."""
    try:
        text, src = generate(core.REPO)
    except Untranslatable as e:
        chk.broke("translation", {"translator": "T-best", "why": str(e)})
        return False
    changed = core.write_if_changed(OUT, text)
    chk.translated += src
    chk.extra["generated_changed"] = changed
    return True


if __name__ == "__main__":
    import sys

    print(generate(sys.argv[1] if len(sys.argv) > 1 else core.REPO)[0])
