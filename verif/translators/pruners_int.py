"""T-int for C16: regenerate the pure-integer pieces of optuna/pruners from the Python source.

Reads (with `ast`) from `core.REPO`:
  _percentile.py         _is_first_in_interval_step (whole function); integer guards / final comparisons of
                         PercentilePruner.prune
  _threshold.py          guards of ThresholdPruner.prune
  _successive_halving.py promotable index + the two index expressions and comparison operators of
                         _is_trial_promotable_to_next_rung; rung promotion step and guards of
                         SuccessiveHalvingPruner.prune
  _hyperband.py          _calculate_trial_allocation_budget; the _get_bracket_id walk
  _patient.py            the size guard and the two slice bounds of PatientPruner.prune
and writes lean/OptunaVerif/Generated/PrunersInt.lean.  Props/C16Gen.lean proves the generated
definitions equal to the hand model (Model/Pruners.lean), so an edit of the source that changes any of
them breaks a proof.

Whitelist.  Expressions: int constants, names, `self._x`, `x.size`, `len(x)`, + - * // % **, unary -,
comparisons (one operator), and/or/not, conditional expressions.  `//` -> Int.fdiv, `%` -> Int.fmod,
`**` -> `^ (..).toNat`.  `math.ceil(a / b)` is rendered as `Int.fdiv (a + b - 1) b` (exact ceiling for
integers a >= 0, b > 0; the float rounding of `a / b` is outside the translation).  Statements:
`x = e`, `x -= e`, `if t: x = e`, `assert` (skipped), `return e`, `functools.reduce(lambda a, b: e, xs,
init)` -> foldl, and the loop shape `for i in range(n): x -= xs[i]; if t: return i`.
Anything else in a place that must be translated raises Untranslatable -> chk.broke("translation").
"""
from __future__ import annotations

import ast
import os
from typing import Any

from verif import core

GEN_PATH = os.path.join(core.LEAN_DIR, "OptunaVerif", "Generated", "PrunersInt.lean")


class Untranslatable(Exception):
    pass


# ------------------------------------------------------------------------------------------------
# expressions
# ------------------------------------------------------------------------------------------------
BINOPS = {ast.Add: "+", ast.Sub: "-", ast.Mult: "*"}
CMPOPS = {ast.Lt: "<", ast.LtE: "≤", ast.Gt: ">", ast.GtE: "≥", ast.Eq: "=", ast.NotEq: "≠"}
CMP_PY = {ast.Lt: "<", ast.LtE: "<=", ast.Gt: ">", ast.GtE: ">=", ast.Eq: "==", ast.NotEq: "!="}


class Ctx:
    """Collects the free variables (in order of first use) of what is being translated."""

    def __init__(self, bound: list[str] | None = None, subst: dict[str, str] | None = None) -> None:
        self.free: list[str] = []
        self.bound = list(bound or [])
        self.subst = dict(subst or {})  # unparse(node) -> Lean text

    def name(self, n: str) -> str:
        n = n.lstrip("_")
        if n not in self.bound and n not in self.free:
            self.free.append(n)
        return n


def ident(node: ast.AST, cx: Ctx) -> str | None:
    if isinstance(node, ast.Name):
        return cx.name(node.id)
    if isinstance(node, ast.Attribute) and isinstance(node.value, ast.Name):
        if node.value.id == "self":
            return cx.name(node.attr)
        if node.attr == "size":
            return cx.name(node.value.id + "_size")
    if isinstance(node, ast.Call) and isinstance(node.func, ast.Name) and node.func.id == "len" and len(node.args) == 1 \
            and isinstance(node.args[0], ast.Name):
        return cx.name("len_" + node.args[0].id)
    return None


def expr(node: ast.AST, cx: Ctx) -> str:
    key = ast.unparse(node)
    if key in cx.subst:
        return cx.subst[key]
    if isinstance(node, ast.Constant) and isinstance(node.value, int) and not isinstance(node.value, bool):
        return str(node.value) if node.value >= 0 else "(%d)" % node.value
    nm = ident(node, cx)
    if nm is not None:
        return nm
    if isinstance(node, ast.UnaryOp) and isinstance(node.op, ast.USub):
        if isinstance(node.operand, ast.Constant) and isinstance(node.operand.value, int):
            return "(-%d)" % node.operand.value
        return "(-%s)" % expr(node.operand, cx)
    if isinstance(node, ast.BinOp):
        a, b = expr(node.left, cx), expr(node.right, cx)
        if type(node.op) in BINOPS:
            return "(%s %s %s)" % (a, BINOPS[type(node.op)], b)
        if isinstance(node.op, ast.FloorDiv):
            return "(Int.fdiv %s %s)" % (a, b)
        if isinstance(node.op, ast.Mod):
            return "(Int.fmod %s %s)" % (a, b)
        if isinstance(node.op, ast.Pow):
            return "(%s ^ (%s).toNat)" % (a, b)
        raise Untranslatable("operator in %s" % key)
    if isinstance(node, ast.IfExp):
        return "(if %s then %s else %s)" % (prop(node.test, cx), expr(node.body, cx), expr(node.orelse, cx))
    if isinstance(node, ast.Call) and ast.unparse(node.func) == "math.ceil" and len(node.args) == 1 \
            and isinstance(node.args[0], ast.BinOp) and isinstance(node.args[0].op, ast.Div):
        a, b = expr(node.args[0].left, cx), expr(node.args[0].right, cx)
        return "(Int.fdiv (%s + %s - 1) %s)" % (a, b, b)
    raise Untranslatable("expression %s" % key)


def prop(node: ast.AST, cx: Ctx) -> str:
    if isinstance(node, ast.Compare) and len(node.ops) == 1 and type(node.ops[0]) in CMPOPS:
        return "(%s %s %s)" % (expr(node.left, cx), CMPOPS[type(node.ops[0])], expr(node.comparators[0], cx))
    if isinstance(node, ast.BoolOp):
        op = " ∧ " if isinstance(node.op, ast.And) else " ∨ "
        return "(" + op.join(prop(v, cx) for v in node.values) + ")"
    if isinstance(node, ast.UnaryOp) and isinstance(node.op, ast.Not):
        return "(¬ %s)" % prop(node.operand, cx)
    raise Untranslatable("condition %s" % ast.unparse(node))


# ------------------------------------------------------------------------------------------------
# helpers over the module ASTs
# ------------------------------------------------------------------------------------------------
def parse(rel: str) -> ast.Module:
    path = os.path.join(core.REPO, rel)
    with open(path) as f:
        return ast.parse(f.read(), filename=path)


def find_func(mod: ast.Module, name: str, cls: str | None = None) -> ast.FunctionDef:
    body: list[ast.stmt] = mod.body
    if cls is not None:
        for n in mod.body:
            if isinstance(n, ast.ClassDef) and n.name == cls:
                body = n.body
                break
        else:
            raise Untranslatable("class %s not found" % cls)
    for n in body:
        if isinstance(n, ast.FunctionDef) and n.name == name:
            return n
    raise Untranslatable("function %s not found" % name)


def no_doc(body: list[ast.stmt]) -> list[ast.stmt]:
    return [s for s in body if not (isinstance(s, ast.Expr) and isinstance(s.value, ast.Constant) and isinstance(s.value.value, str))]


def sig(free: list[str]) -> str:
    return " ".join("(%s : Int)" % v for v in free)


def straight_line(stmts: list[ast.stmt], cx: Ctx, ret_bool: bool) -> str:
    """`x = e` / `if t: x = e` / assert / final `return e` -> nested lets."""
    lines: list[str] = []
    for i, s in enumerate(stmts):
        if isinstance(s, ast.Assert):
            continue
        if isinstance(s, ast.Assign) and len(s.targets) == 1 and isinstance(s.targets[0], ast.Name):
            tgt = s.targets[0].id.lstrip("_")
            rhs = reduce_call(s.value, cx) or expr(s.value, cx)
            lines.append("let %s := %s" % (tgt, rhs))
            cx.bound.append(tgt)
            continue
        if isinstance(s, ast.If) and not s.orelse and len(s.body) == 1 and isinstance(s.body[0], ast.Assign) \
                and isinstance(s.body[0].targets[0], ast.Name) and s.body[0].targets[0].id.lstrip("_") in cx.bound:
            tgt = s.body[0].targets[0].id.lstrip("_")
            lines.append("let %s := if %s then %s else %s" % (tgt, prop(s.test, cx), expr(s.body[0].value, cx), tgt))
            continue
        if isinstance(s, ast.Return) and s.value is not None and i == len(stmts) - 1:
            lines.append("decide %s" % prop(s.value, cx) if ret_bool else expr(s.value, cx))
            return "\n  ".join(lines)
        raise Untranslatable("statement %s" % ast.unparse(s)[:80])
    raise Untranslatable("no final return")


def reduce_call(node: ast.AST, cx: Ctx) -> str | None:
    """functools.reduce(lambda a, b: e, xs, init) -> List.foldl"""
    if not (isinstance(node, ast.Call) and ast.unparse(node.func) == "functools.reduce" and len(node.args) == 3):
        return None
    lam, xs, init = node.args
    if not (isinstance(lam, ast.Lambda) and len(lam.args.args) == 2 and isinstance(xs, ast.Name)):
        raise Untranslatable("reduce shape")
    a, b = lam.args.args[0].arg, lam.args.args[1].arg
    inner = Ctx(bound=cx.bound + [a, b])
    body = expr(lam.body, inner)
    for v in inner.free:
        cx.name(v)
    cx.name(xs.id)
    cx.lists = getattr(cx, "lists", []) + [xs.id]  # type: ignore[attr-defined]
    return "List.foldl (fun %s %s => %s) %s %s" % (a, b, body, expr(init, cx), xs.id)


def guards_of(fn: ast.FunctionDef) -> tuple[list[tuple[ast.expr, bool]], list[ast.expr]]:
    """Every `if TEST: return <bool constant>` (any depth, source order) and every `return <comparison>`."""
    gs: list[tuple[ast.expr, bool]] = []
    rets: list[ast.expr] = []
    for node in ast.walk(fn):
        if isinstance(node, ast.If) and len(node.body) == 1 and isinstance(node.body[0], ast.Return) \
                and isinstance(node.body[0].value, ast.Constant) and isinstance(node.body[0].value.value, bool):
            gs.append((node.test, node.body[0].value.value))
        if isinstance(node, ast.Return) and isinstance(node.value, ast.Compare):
            rets.append(node.value)
    gs.sort(key=lambda g: (g[0].lineno, g[0].col_offset))
    rets.sort(key=lambda r: (r.lineno, r.col_offset))
    return gs, rets


def guard_table(fn: ast.FunctionDef, lean_name: str, doc: str) -> tuple[str, list[str]]:
    """The integer/ordered guards of a `prune` method as one Lean function returning
    [(test, returned constant), ...] followed by the final comparisons [(cmp, true)]."""
    gs, rets = guards_of(fn)
    cx = Ctx()
    rows: list[str] = []
    kept: list[str] = []
    for test, const in gs:
        try:
            p = prop(test, cx)
        except Untranslatable:
            continue  # not an integer / order test (is None, isnan, calls): not T-int's business
        rows.append("(decide %s, %s)" % (p, "true" if const else "false"))
        kept.append("if %s: return %s" % (ast.unparse(test), const))
    for r in rets:
        try:
            p = prop(r, cx)
        except Untranslatable:
            continue
        rows.append("(decide %s, true)" % p)
        kept.append("return %s" % ast.unparse(r))
    text = "/-- %s\n%s -/\ndef %s %s : List (Bool × Bool) :=\n  [%s]\n" % (
        doc, "\n".join("  " + k for k in kept), lean_name, sig(cx.free), ",\n   ".join(rows))
    return text, kept


# ------------------------------------------------------------------------------------------------
# the pieces
# ------------------------------------------------------------------------------------------------
def gen_is_first(mod: ast.Module) -> str:
    fn = find_func(mod, "_is_first_in_interval_step")
    params = [a.arg for a in fn.args.args]
    if params != ["step", "intermediate_steps", "n_warmup_steps", "interval_steps"]:
        raise Untranslatable("_is_first_in_interval_step parameters %s" % params)
    cx = Ctx(bound=params)
    body = straight_line(no_doc(fn.body), cx, ret_bool=True)
    if cx.free:
        raise Untranslatable("free variables %s" % cx.free)
    return ("/-- optuna/pruners/_percentile.py `_is_first_in_interval_step` -/\n"
            "def isFirstInIntervalStep (step : Int) (intermediate_steps : List Int) (n_warmup_steps interval_steps : Int) : Bool :=\n  %s\n" % body)


def gen_promotable(mod: ast.Module) -> str:
    fn = find_func(mod, "_is_trial_promotable_to_next_rung")
    body = no_doc(fn.body)
    # index arithmetic: everything before `competing_values.sort()`
    cut = None
    for i, s in enumerate(body):
        if isinstance(s, ast.Expr) and ast.unparse(s.value) == "competing_values.sort()":
            cut = i
            break
    if cut is None:
        raise Untranslatable("competing_values.sort() not found")
    cx = Ctx()
    head = body[:cut] + [ast.Return(value=ast.Name(id="promotable_idx", ctx=ast.Load()))]
    idx_body = straight_line(head, cx, ret_bool=False)
    if cx.free != ["len_competing_values", "reduction_factor"]:
        raise Untranslatable("promotable index depends on %s" % cx.free)
    out = ("/-- `_is_trial_promotable_to_next_rung`: the statements before `competing_values.sort()` -/\n"
           "def promotableIdx (len_competing_values reduction_factor : Int) : Int :=\n  %s\n\n" % idx_body)
    # the two returns: `value OP competing_values[INDEX]`
    tail = body[cut + 1:]
    found: dict[str, tuple[str, str]] = {}
    for node in ast.walk(ast.Module(body=tail, type_ignores=[])):
        if isinstance(node, ast.Return) and isinstance(node.value, ast.Compare) and len(node.value.ops) == 1:
            c = node.value
            rhs = c.comparators[0]
            if not (isinstance(c.left, ast.Name) and c.left.id == "value" and isinstance(rhs, ast.Subscript)
                    and isinstance(rhs.value, ast.Name) and rhs.value.id == "competing_values"):
                raise Untranslatable("return shape %s" % ast.unparse(node))
            icx = Ctx()
            index = expr(rhs.slice, icx)
            if icx.free != ["promotable_idx"]:
                raise Untranslatable("index depends on %s" % icx.free)
            found[ast.unparse(node)] = (CMP_PY[type(c.ops[0])], index)
    # which is the maximize branch: the return inside `if study_direction == StudyDirection.MAXIMIZE`
    mx = mn = None
    for s in tail:
        if isinstance(s, ast.If) and "MAXIMIZE" in ast.unparse(s.test) and len(s.body) == 1 and isinstance(s.body[0], ast.Return):
            mx = found.get(ast.unparse(s.body[0]))
        elif isinstance(s, ast.Return):
            mn = found.get(ast.unparse(s))
    if mx is None or mn is None or len(found) != 2:
        raise Untranslatable("maximize / minimize returns not identified")
    out += ("/-- maximize: `return value %s competing_values[INDEX]` (a negative INDEX counts from the end) -/\n"
            "def promotableIndexMax (promotable_idx : Int) : Int := %s\ndef promotableCmpMax : String := \"%s\"\n"
            "/-- minimize: `return value %s competing_values[INDEX]` -/\n"
            "def promotableIndexMin (promotable_idx : Int) : Int := %s\ndef promotableCmpMin : String := \"%s\"\n" % (
                mx[0], mx[1], mx[0], mn[0], mn[1], mn[0]))
    return out


def gen_sh(mod: ast.Module) -> str:
    fn = find_func(mod, "prune", "SuccessiveHalvingPruner")
    assign = None
    for node in ast.walk(fn):
        if isinstance(node, ast.Assign) and isinstance(node.targets[0], ast.Name) and node.targets[0].id == "rung_promotion_step":
            assign = node
    if assign is None:
        raise Untranslatable("rung_promotion_step assignment not found")
    cx = Ctx()
    e = expr(assign.value, cx)
    if cx.free != ["min_resource", "reduction_factor", "min_early_stopping_rate", "rung"]:
        raise Untranslatable("rung_promotion_step depends on %s" % cx.free)
    out = ("/-- `SuccessiveHalvingPruner.prune`: `rung_promotion_step = %s` -/\n"
           "def rungPromotionStep %s : Int :=\n  %s\n\n" % (ast.unparse(assign.value), sig(cx.free), e))
    table, kept = guard_table(fn, "shPruneGuards", "`SuccessiveHalvingPruner.prune`: integer guards, in source order")
    if len(kept) != 2:
        raise Untranslatable("expected 2 integer guards in SuccessiveHalvingPruner.prune, found %s" % kept)
    return out + table


def gen_budget(mod: ast.Module) -> str:
    fn = find_func(mod, "_calculate_trial_allocation_budget", "HyperbandPruner")
    cx = Ctx()
    body = straight_line(no_doc(fn.body), cx, ret_bool=False)
    if cx.free != ["n_brackets", "bracket_id", "reduction_factor"]:
        raise Untranslatable("budget depends on %s" % cx.free)
    return ("/-- `HyperbandPruner._calculate_trial_allocation_budget` (`math.ceil(a / b)` as `(a + b - 1) // b`) -/\n"
            "def calculateTrialAllocationBudget %s : Int :=\n  %s\n" % (sig(cx.free), body))


def gen_bracket(mod: ast.Module) -> str:
    fn = find_func(mod, "_get_bracket_id", "HyperbandPruner")
    body = no_doc(fn.body)
    # n = crc32(...) % total
    init = None
    loop = None
    for s in body:
        if isinstance(s, ast.Assign) and isinstance(s.targets[0], ast.Name) and s.targets[0].id == "n":
            init = s
        if isinstance(s, ast.For):
            loop = s
    if init is None or loop is None:
        raise Untranslatable("_get_bracket_id shape")
    v = init.value
    if not (isinstance(v, ast.BinOp) and isinstance(v.op, ast.Mod) and isinstance(v.left, ast.Call)
            and ast.unparse(v.left.func) == "binascii.crc32"):
        raise Untranslatable("n = crc32(...) % total expected, got %s" % ast.unparse(v))
    crc_arg = ast.unparse(v.left.args[0])
    if crc_arg != "'{}_{}'.format(study.study_name, trial.number).encode()":
        raise Untranslatable("crc32 argument is %s" % crc_arg)
    cx = Ctx(subst={ast.unparse(v.left): "crc"})
    n0 = expr(v, cx)
    if cx.free != ["total_trial_allocation_budget"]:
        raise Untranslatable("initial n depends on %s" % cx.free)
    # for bracket_id in range(self._n_brackets): n -= budgets[bracket_id]; if n < 0: return bracket_id
    if not (isinstance(loop.target, ast.Name) and ast.unparse(loop.iter) == "range(self._n_brackets)" and len(loop.body) == 2):
        raise Untranslatable("loop header/body")
    var = loop.target.id
    aug, cond = loop.body
    if not (isinstance(aug, ast.AugAssign) and isinstance(aug.op, ast.Sub) and isinstance(aug.target, ast.Name) and aug.target.id == "n"
            and ast.unparse(aug.value) == "self._trial_allocation_budgets[%s]" % var):
        raise Untranslatable("loop statement 1: %s" % ast.unparse(aug))
    if not (isinstance(cond, ast.If) and not cond.orelse and len(cond.body) == 1 and isinstance(cond.body[0], ast.Return)):
        raise Untranslatable("loop statement 2: %s" % ast.unparse(cond))
    lcx = Ctx(bound=["n", var])
    test = prop(cond.test, lcx)
    ret = expr(cond.body[0].value, lcx)
    if lcx.free:
        raise Untranslatable("loop body depends on %s" % lcx.free)
    after = body[body.index(loop) + 1:]
    if not (len(after) == 1 and isinstance(after[0], ast.Assert) and ast.unparse(after[0].test) == "False"):
        raise Untranslatable("statement after the loop: %s" % [ast.unparse(a) for a in after])
    return ("/-- `HyperbandPruner._get_bracket_id`: `for %s in range(n_brackets): n -= budgets[%s]; if %s: return %s`;\n"
            "`none` = falling out of the loop (`assert False`) -/\n"
            "def getBracketIdLoop : List Int → Int → Int → Option Int\n"
            "  | [], _, _ => none\n"
            "  | b :: rest, n, %s =>\n"
            "    let n := n - b\n"
            "    if %s then some %s else getBracketIdLoop rest n (%s + 1)\n\n"
            "/-- `n = binascii.crc32(\"{study_name}_{number}\") %% total` then the loop (the loop is skipped, bracket 0, when there are no pruners yet) -/\n"
            "def getBracketId (crc total_trial_allocation_budget : Int) (budgets : List Int) : Option Int :=\n"
            "  getBracketIdLoop budgets %s 0\n" % (var, var, ast.unparse(cond.test), ast.unparse(cond.body[0].value), var, test, ret, var, n0))


def gen_patient(mod: ast.Module) -> str:
    fn = find_func(mod, "prune", "PatientPruner")
    table, kept = guard_table(fn, "patientPruneGuards", "`PatientPruner.prune`: integer guards")
    if len(kept) != 1:
        raise Untranslatable("expected 1 integer guard in PatientPruner.prune, found %s" % kept)
    slices: dict[str, ast.Slice] = {}
    for node in ast.walk(fn):
        if isinstance(node, ast.Assign) and isinstance(node.targets[0], ast.Name) and node.targets[0].id in ("steps_before_patience", "steps_after_patience"):
            v = node.value
            if not (isinstance(v, ast.Subscript) and isinstance(v.value, ast.Name) and v.value.id == "steps" and isinstance(v.slice, ast.Slice)):
                raise Untranslatable("slice shape %s" % ast.unparse(node))
            slices[node.targets[0].id] = v.slice
    if set(slices) != {"steps_before_patience", "steps_after_patience"}:
        raise Untranslatable("patience slices not found")
    b, a = slices["steps_before_patience"], slices["steps_after_patience"]
    if b.lower is not None or b.upper is None or b.step is not None or a.lower is None or a.upper is not None or a.step is not None:
        raise Untranslatable("patience slices are not steps[:e] / steps[e:]")
    cx1, cx2 = Ctx(), Ctx()
    e1, e2 = expr(b.upper, cx1), expr(a.lower, cx2)
    if cx1.free != ["patience"] or cx2.free != ["patience"]:
        raise Untranslatable("slice bounds depend on %s %s" % (cx1.free, cx2.free))
    return table + ("\n/-- `steps_before_patience = steps[: %s]` -/\ndef patientBeforeUpper (patience : Int) : Int := %s\n"
                    "/-- `steps_after_patience = steps[%s :]` -/\ndef patientAfterLower (patience : Int) : Int := %s\n" % (
                        ast.unparse(b.upper), e1, ast.unparse(a.lower), e2))


def generate() -> str:
    pct = parse("optuna/pruners/_percentile.py")
    thr = parse("optuna/pruners/_threshold.py")
    sh = parse("optuna/pruners/_successive_halving.py")
    hb = parse("optuna/pruners/_hyperband.py")
    pat = parse("optuna/pruners/_patient.py")
    parts = [
        "-- generated by verif/translators/pruners_int.py from optuna/pruners/*.py; do not edit\n"
        "/-! Integer kernels of the pruners, regenerated from the Python source on every run (T-int, C16).\n"
        "`//` is `Int.fdiv`, `%` is `Int.fmod`; every variable is an `Int`. -/\n"
        "namespace OptunaVerif.Generated.PrunersInt\n",
        gen_is_first(pct),
        guard_table(find_func(pct, "prune", "PercentilePruner"), "percentilePruneGuards",
                    "`PercentilePruner.prune`: integer guards `if TEST: return CONST` and final comparisons, in source order")[0],
        guard_table(find_func(thr, "prune", "ThresholdPruner"), "thresholdPruneGuards",
                    "`ThresholdPruner.prune`: guards (the value comparisons are order comparisons on an abstract ordered type, rendered over Int)")[0],
        gen_promotable(sh),
        gen_sh(sh),
        gen_budget(hb),
        gen_bracket(hb),
        gen_patient(pat),
        "end OptunaVerif.Generated.PrunersInt\n",
    ]
    return "\n".join(parts)


def regenerate(chk: Any) -> None:
    try:
        text = generate()
    except Untranslatable as e:
        chk.broke("translation", {"translator": "pruners_int", "why": str(e)})
        return
    except (OSError, SyntaxError) as e:
        chk.broke("translation", {"translator": "pruners_int", "why": "%s: %s" % (type(e).__name__, e)})
        return
    changed = core.write_if_changed(GEN_PATH, text)
    chk.translated += ["optuna/pruners/_percentile.py::_is_first_in_interval_step", "PercentilePruner.prune guards",
                       "ThresholdPruner.prune guards", "_is_trial_promotable_to_next_rung index arithmetic",
                       "SuccessiveHalvingPruner.prune promotion step + guards",
                       "HyperbandPruner._calculate_trial_allocation_budget", "HyperbandPruner._get_bracket_id",
                       "PatientPruner.prune size guard + slice bounds"]
    chk.extra["generated_changed_this_run"] = bool(changed)


if __name__ == "__main__":
    print(generate())
