"""Control skeletons of optuna's pruners: Python `ast` -> lean/OptunaVerif/Generated/PrunersSkel.lean (IR of Model/Skel.lean).

For each function listed in FUNCTIONS one `Skel.Fn` is regenerated from `core.REPO` on every run:

  atoms    maximal sub-expressions the translator does not look into (names, attributes, calls, subscripts, `in` tests),
           verbatim, numbered in order of first use;
  locals   names that are re-assigned: assigned more than once (a parameter counts as one assignment), augmented, assigned
           inside a loop, loop targets, `self.<attr>` targets;
  data     every other assignment, `assert <cond>`, `_logger.*(...)` call: verbatim, in source order;
  body     `if` / `return` (numbered in source order) / `raise` + `assert False` / assignments to locals / expression
           statements (effects) / `while True` / `while c` / `for x in range(e)`; an `if` whose branches do not all return
           gets the rest of the block inlined into the branches that fall through.

Expressions: int / bool / None constants, `math.nan`, `StudyDirection.MAXIMIZE|MINIMIZE`, + - * ** %, unary -, one-operator
comparisons < <= > >= == !=, `is None` / `is not None`, not / and / or, `math.isnan(e)`; everything else is an atom.
Anything outside the whitelist raises Untranslatable -> chk.broke("translation").  Props/C16SkelGen.lean proves, for every
function, `interp (environment built from Model/Pruners.lean) generated skeleton = the model's function` for all inputs.
"""
from __future__ import annotations

import ast
import os
from typing import Any

from verif import core

GEN_PATH = os.path.join(core.LEAN_DIR, "OptunaVerif", "Generated", "PrunersSkel.lean")

# (file, dotted path of nested defs / classes, Lean name)
FUNCTIONS = [
    ("_percentile.py", "PercentilePruner.prune", "percentilePrune"),
    ("_percentile.py", "_get_best_intermediate_result_over_steps", "bestOverSteps"),
    ("_percentile.py", "_get_percentile_intermediate_result_over_trials", "percentileOverTrials"),
    ("_median.py", "MedianPruner.__init__", "medianInit"),
    ("_threshold.py", "ThresholdPruner.prune", "thresholdPrune"),
    ("_patient.py", "PatientPruner.prune", "patientPrune"),
    ("_nop.py", "NopPruner.prune", "nopPrune"),
    ("_successive_halving.py", "SuccessiveHalvingPruner.prune", "shPrune"),
    ("_successive_halving.py", "_get_current_rung", "currentRung"),
    ("_successive_halving.py", "_completed_rung_key", "completedRungKey"),
    ("_successive_halving.py", "_estimate_min_resource", "estimateMinResource"),
    ("_successive_halving.py", "_get_competing_values", "competingValues"),
    ("_successive_halving.py", "_is_trial_promotable_to_next_rung", "isPromotable"),
    ("_hyperband.py", "HyperbandPruner.prune", "hbPrune"),
    ("_hyperband.py", "HyperbandPruner._get_bracket_id", "bracketId"),
    ("_hyperband.py", "HyperbandPruner._create_bracket_study._BracketStudy.get_trials", "bracketGetTrials"),
]


class Untranslatable(Exception):
    pass


# atoms a function's skeleton MUST contain: the source shape the proofs are about.  `_get_percentile_intermediate_result_over_trials`
# has to compute the MAXIMIZE case as the mirror of the MINIMIZE case (repair of F41); the older `percentile = 100 - percentile`
# shape is rejected here (and would also fail gen_percentile_over_trials / gen_percentileOverTrials_tables).
REQUIRED_ATOMS = {
    "percentileOverTrials": ["float(-np.nanpercentile(-values, percentile))", "float(np.nanpercentile(values, percentile))"],
}
FORBIDDEN_LOCALS = {"percentileOverTrials": ["percentile"]}


def norm(node: ast.AST) -> str:
    return " ".join(ast.unparse(node).split())


def lean_str(s: str) -> str:
    return '"' + s.replace("\\", "\\\\").replace('"', '\\"') + '"'


def find(mod: ast.Module, path: str) -> ast.FunctionDef:
    body: list[ast.stmt] = mod.body
    node: Any = None
    for part in path.split("."):
        node = None
        for s in body:
            if isinstance(s, (ast.FunctionDef, ast.ClassDef)) and s.name == part:
                node = s
                break
        if node is None:
            raise Untranslatable("%s not found" % path)
        body = node.body
    if not isinstance(node, ast.FunctionDef):
        raise Untranslatable("%s is not a function" % path)
    return node


def target_name(t: ast.AST) -> str | None:
    if isinstance(t, ast.Name):
        return t.id
    if isinstance(t, ast.Attribute) and isinstance(t.value, ast.Name) and t.value.id == "self":
        return "self." + t.attr
    return None


def is_docstring(s: ast.stmt) -> bool:
    return isinstance(s, ast.Expr) and isinstance(s.value, ast.Constant) and isinstance(s.value.value, str)


CMP = {ast.Lt: "lt", ast.LtE: "le", ast.Gt: "gt", ast.GtE: "ge", ast.Eq: "eq", ast.NotEq: "ne"}
BIN = {ast.Add: "add", ast.Sub: "sub", ast.Mult: "mul", ast.Pow: "pow", ast.Mod: "mod"}


class FnTr:
    def __init__(self, fn: ast.FunctionDef, lean_name: str, qual: str) -> None:
        self.fn = fn
        self.lean_name = lean_name
        self.qual = qual
        self.atoms: list[str] = []
        self.data: list[str] = []
        self.locals: list[str] = []
        self.init: list[str] = []
        self.exit_idx: dict[int, int] = {}
        self._find_locals()
        self._number_exits()

    # ---- which names live in the store ------------------------------------------------------------
    def _find_locals(self) -> None:
        params = [a.arg for a in self.fn.args.args + self.fn.args.kwonlyargs if a.arg != "self"]
        count: dict[str, int] = {p: 1 for p in params}
        forced: list[str] = []

        def visit(stmts: list[ast.stmt], in_loop: bool) -> None:
            for s in stmts:
                if isinstance(s, (ast.FunctionDef, ast.ClassDef)):
                    continue
                if isinstance(s, (ast.Assign, ast.AnnAssign, ast.AugAssign)):
                    tgts = s.targets if isinstance(s, ast.Assign) else [s.target]
                    if isinstance(s, ast.AnnAssign) and s.value is None:
                        continue
                    for t in tgts:
                        n = target_name(t)
                        if n is None:
                            continue  # tuple / subscript target: a data statement
                        count[n] = count.get(n, 0) + 1
                        if in_loop or isinstance(s, ast.AugAssign) or n.startswith("self."):
                            forced.append(n)
                elif isinstance(s, ast.For):
                    n = target_name(s.target)
                    if n is None:
                        raise Untranslatable("%s: loop target `%s`" % (self.qual, norm(s.target)))
                    forced.append(n)
                    visit(s.body, True)
                    visit(s.orelse, in_loop)
                elif isinstance(s, ast.While):
                    visit(s.body, True)
                    visit(s.orelse, in_loop)
                elif isinstance(s, ast.If):
                    visit(s.body, in_loop)
                    visit(s.orelse, in_loop)
                elif isinstance(s, (ast.Try, ast.With)):
                    raise Untranslatable("%s: statement `%s`" % (self.qual, type(s).__name__))

        visit(self.fn.body, False)
        order = []
        for n in list(count) + forced:
            if (count.get(n, 0) > 1 or n in forced) and n not in order:
                order.append(n)
        self.locals = order
        self.params = params

    def _number_exits(self) -> None:
        nodes = []
        for n in ast.walk(self.fn):
            if isinstance(n, (ast.FunctionDef, ast.ClassDef)) and n is not self.fn:
                continue
            if isinstance(n, (ast.Return, ast.Raise)) or (isinstance(n, ast.Assert) and norm(n.test) == "False"):
                nodes.append(n)
        # nested function bodies must not contribute
        inner = set()
        for n in ast.walk(self.fn):
            if isinstance(n, (ast.FunctionDef, ast.ClassDef)) and n is not self.fn:
                for m in ast.walk(n):
                    inner.add(id(m))
        nodes = [n for n in nodes if id(n) not in inner]
        nodes.sort(key=lambda n: (n.lineno, n.col_offset))
        self.exit_idx = {id(n): i for i, n in enumerate(nodes)}
        self.n_exits = len(nodes)

    # ---- expressions ------------------------------------------------------------------------------
    def atom(self, node: ast.AST) -> str:
        text = norm(node)
        if text not in self.atoms:
            self.atoms.append(text)
        return "(.atom %d)" % self.atoms.index(text)

    def tx(self, e: ast.AST) -> str:
        if isinstance(e, ast.Constant):
            if isinstance(e.value, bool):
                return "(.bool %s)" % ("true" if e.value else "false")
            if isinstance(e.value, int):
                return "(.int %d)" % e.value if e.value >= 0 else "(.int (%d))" % e.value
            if e.value is None:
                return ".none"
            raise Untranslatable("%s: constant %r" % (self.qual, e.value))
        n = target_name(e)
        if n is not None and n in self.locals:
            return "(.lvar %d)" % self.locals.index(n)
        text = norm(e)
        if text == "math.nan":
            return ".nan"
        if text == "StudyDirection.MAXIMIZE":
            return ".dirMax"
        if text == "StudyDirection.MINIMIZE":
            return ".dirMin"
        if isinstance(e, ast.BoolOp):
            op = "and" if isinstance(e.op, ast.And) else "or"
            out = self.tx(e.values[-1])
            for v in reversed(e.values[:-1]):
                out = "(.%s %s %s)" % (op, self.tx(v), out)
            return out
        if isinstance(e, ast.UnaryOp):
            if isinstance(e.op, ast.Not):
                return "(.not %s)" % self.tx(e.operand)
            if isinstance(e.op, ast.USub):
                if isinstance(e.operand, ast.Constant) and isinstance(e.operand.value, int) and not isinstance(e.operand.value, bool):
                    return "(.int (-%d))" % e.operand.value
                return "(.neg %s)" % self.tx(e.operand)
        if isinstance(e, ast.BinOp) and type(e.op) in BIN:
            return "(.%s %s %s)" % (BIN[type(e.op)], self.tx(e.left), self.tx(e.right))
        if isinstance(e, ast.Compare) and len(e.ops) == 1:
            op, rhs = e.ops[0], e.comparators[0]
            if type(op) in CMP:
                return "(.%s %s %s)" % (CMP[type(op)], self.tx(e.left), self.tx(rhs))
            if isinstance(op, (ast.Is, ast.IsNot)) and isinstance(rhs, ast.Constant) and rhs.value is None:
                t = "(.isNone %s)" % self.tx(e.left)
                return t if isinstance(op, ast.Is) else "(.not %s)" % t
            if isinstance(op, (ast.In, ast.NotIn)):
                return self.atom(e)
        if isinstance(e, ast.Call) and norm(e.func) == "math.isnan" and len(e.args) == 1 and not e.keywords:
            return "(.isNan %s)" % self.tx(e.args[0])
        if isinstance(e, (ast.Name, ast.Attribute, ast.Call, ast.Subscript, ast.ListComp, ast.JoinedStr)):
            return self.atom(e)
        if isinstance(e, ast.BinOp) and isinstance(e.op, (ast.FloorDiv, ast.Div)):
            return self.atom(e)  # division leaves the IR's arithmetic: opaque (the integer kernels are T-int's, Generated/PrunersInt.lean)
        raise Untranslatable("%s: expression `%s`" % (self.qual, text[:100]))

    # ---- statements -------------------------------------------------------------------------------
    def terminates(self, stmts: list[ast.stmt]) -> bool:
        for s in stmts:
            if isinstance(s, (ast.Return, ast.Raise)) or (isinstance(s, ast.Assert) and norm(s.test) == "False"):
                return True
            if isinstance(s, ast.If) and s.orelse and self.terminates(s.body) and self.terminates(s.orelse):
                return True
            if isinstance(s, ast.While) and norm(s.test) == "True":
                return True
        return False

    def block(self, stmts: list[ast.stmt], tail: str | None, ind: str) -> str:
        stmts = [s for s in stmts if not is_docstring(s) and not isinstance(s, (ast.Pass,))]
        if not stmts:
            if tail is not None:
                return ind + tail
            return ind + "(.ret %d .none)" % self.n_exits  # falling off the end of the function
        s, rest = stmts[0], stmts[1:]
        if isinstance(s, (ast.FunctionDef, ast.ClassDef)):
            self.data.append("%s %s: ..." % ("def" if isinstance(s, ast.FunctionDef) else "class", s.name))
            return self.block(rest, tail, ind)
        if isinstance(s, ast.Return):
            e = ".none" if s.value is None else self.tx(s.value)
            return ind + "(.ret %d %s)" % (self.exit_idx[id(s)], e)
        if isinstance(s, ast.Raise) or (isinstance(s, ast.Assert) and norm(s.test) == "False"):
            return ind + "(.raise %d %s)" % (self.exit_idx[id(s)], lean_str(norm(s)))
        if isinstance(s, ast.Assert):
            self.data.append(norm(s))
            return self.block(rest, tail, ind)
        if isinstance(s, (ast.Assign, ast.AnnAssign)):
            if isinstance(s, ast.AnnAssign) and s.value is None:
                return self.block(rest, tail, ind)
            tgts = s.targets if isinstance(s, ast.Assign) else [s.target]
            n = target_name(tgts[0]) if len(tgts) == 1 else None
            if n is not None and n in self.locals:
                return "%s(.set %d %s\n%s)" % (ind, self.locals.index(n), self.tx(s.value), self.block(rest, tail, ind))  # type: ignore[arg-type]
            self.data.append(norm(s))
            return self.block(rest, tail, ind)
        if isinstance(s, ast.AugAssign):
            n = target_name(s.target)
            if n is None or n not in self.locals or type(s.op) not in BIN:
                raise Untranslatable("%s: `%s`" % (self.qual, norm(s)))
            k = self.locals.index(n)
            return "%s(.set %d (.%s (.lvar %d) %s)\n%s)" % (ind, k, BIN[type(s.op)], k, self.tx(s.value), self.block(rest, tail, ind))
        if isinstance(s, ast.Expr):
            if isinstance(s.value, ast.Call) and norm(s.value.func).startswith("_logger."):
                self.data.append(norm(s))
                return self.block(rest, tail, ind)
            if not isinstance(s.value, ast.Call):
                raise Untranslatable("%s: expression statement `%s`" % (self.qual, norm(s)[:80]))
            a = self.atom(s.value)
            return "%s(.effect %s\n%s)" % (ind, a[len("(.atom "):-1], self.block(rest, tail, ind))
        if isinstance(s, ast.If):
            c = self.tx(s.test)
            if self.terminates(s.body) and (self.terminates(s.orelse) or not s.orelse):
                # `if c: ... return` [else: ...]: the rest of the block continues the else branch
                th = self.block(s.body, None, ind + "  ")
                el = self.block(s.orelse + rest, tail, ind + "  ")
                return "%s(.ite %s\n%s\n%s)" % (ind, c, th, el)
            th = self.block(s.body, ".skip", ind + "    ")
            el = self.block(s.orelse, ".skip", ind + "    ")
            return "%s(.seq\n%s  (.ite %s\n%s\n%s)\n%s)" % (ind, ind, c, th, el, self.block(rest, tail, ind + "  "))
        if isinstance(s, ast.While):
            if s.orelse:
                raise Untranslatable("%s: while/else" % self.qual)
            body = self.block(s.body, ".skip", ind + "  ")
            if norm(s.test) == "True":
                return "%s(.whileTrue\n%s)" % (ind, body)
            return "%s(.whileC %s\n%s\n%s)" % (ind, self.tx(s.test), body, self.block(rest, tail, ind + "  "))
        if isinstance(s, ast.For):
            it = s.iter
            if s.orelse or not (isinstance(it, ast.Call) and norm(it.func) == "range" and len(it.args) == 1 and not it.keywords):
                raise Untranslatable("%s: for loop `%s`" % (self.qual, norm(it)))
            k = self.locals.index(target_name(s.target))  # type: ignore[arg-type]
            return "%s(.forRange %d %s\n%s\n%s)" % (ind, k, self.tx(it.args[0]), self.block(s.body, ".skip", ind + "  "),
                                                   self.block(rest, tail, ind + "  "))
        raise Untranslatable("%s: statement `%s`" % (self.qual, norm(s)[:100]))

    def lean(self) -> str:
        body = self.block(list(self.fn.body), None, "    ")
        init = []
        for n in self.locals:
            if n in self.params:
                init.append(self.atom(ast.Name(id=n, ctx=ast.Load())))
            elif n.startswith("self."):
                init.append(self.atom(ast.Attribute(value=ast.Name(id="self", ctx=ast.Load()), attr=n[5:], ctx=ast.Load())))
            else:
                init.append(".none")
        return ("/-- `%s` -/\ndef %s : Fn where\n  name := %s\n  atoms := [%s]\n  locals := [%s]\n  init := [%s]\n  data := [%s]\n  body :=\n%s\n" % (
            self.qual, self.lean_name, lean_str(self.qual),
            ",\n    ".join(lean_str(a) for a in self.atoms), ", ".join(lean_str(a) for a in self.locals), ", ".join(init),
            ",\n    ".join(lean_str(d) for d in self.data), body))


def generate() -> str:
    out = [
        "-- generated by verif/translators/pruners_skel.py from optuna/pruners/*.py; do not edit",
        "import OptunaVerif.Model.Skel",
        "/-! Control skeletons of the pruners, regenerated from the Python source on every run (C16). -/",
        "namespace OptunaVerif.Generated.PrunersSkel",
        "open OptunaVerif.Skel",
        "",
    ]
    mods: dict[str, ast.Module] = {}
    for rel, path, lean_name in FUNCTIONS:
        if rel not in mods:
            p = os.path.join(core.REPO, "optuna", "pruners", rel)
            with open(p) as f:
                mods[rel] = ast.parse(f.read(), filename=p)
        tr = FnTr(find(mods[rel], path), lean_name, "%s::%s" % (rel, path))
        text = tr.lean()
        for a in REQUIRED_ATOMS.get(lean_name, []):
            if a not in tr.atoms:
                raise Untranslatable("%s: the expression `%s` is not in the source (an unsupported formulation, e.g. the pre-F41 "
                                     "`percentile = 100 - percentile`)" % (path, a))
        for n in FORBIDDEN_LOCALS.get(lean_name, []):
            if n in tr.locals:
                raise Untranslatable("%s: `%s` is re-assigned (pre-F41 formulation `percentile = 100 - percentile`)" % (path, n))
        out.append(text)
    out.append("end OptunaVerif.Generated.PrunersSkel")
    return "\n".join(out) + "\n"


def regenerate(chk: Any) -> None:
    try:
        text = generate()
    except Untranslatable as e:
        chk.broke("translation", {"translator": "pruners_skel", "why": str(e)})
        return
    except (OSError, SyntaxError) as e:
        chk.broke("translation", {"translator": "pruners_skel", "why": "%s: %s" % (type(e).__name__, e)})
        return
    changed = core.write_if_changed(GEN_PATH, text)
    chk.translated += ["optuna/pruners/*.py control skeletons: " + ", ".join(p for _, p, _ in FUNCTIONS)]
    chk.extra["pruners_skel_changed_this_run"] = bool(changed)


if __name__ == "__main__":
    print(generate())
