"""Translator for C17: regenerate lean/OptunaVerif/Generated/SearchSpaceCode.lean from the Python source.

What is translated (and therefore *proved against*, not merely compared):
  * `_calculate` in optuna/search_space/intersection.py — its statement skeleton is matched against a
    pinned skeleton with holes; the holes (the states-of-interest list, the state appended for
    `include_pruned`, the default of `cached_trial_number`, the initial `next_cached_trial_number`, the
    "next is unset" test, the value assigned for the first trial of interest, the `break` test, the value
    assigned in the unfinished branch) are translated by a tiny expression translator
    (int constants, + - *, comparisons, and/or/not over the names `cached_trial_number`,
    `next_cached_trial_number`, `trial.number`; lists of `TrialState` members);
  * `IntersectionSearchSpace.__init__`: the initial `_cached_trial_number`;
  * `_GroupDecomposedSearchSpace.calculate`: the two `states_of_interest` tuples.
Anything that does not fit is reported as untranslatable (the caller turns that into
`chk.broke("translation", ...)`); the Generated file is then left as it was.
"""
from __future__ import annotations

import ast
import os
from typing import Any

from verif import core

OUT = os.path.join(core.LEAN_DIR, "OptunaVerif", "Generated", "SearchSpaceCode.lean")

SKELETON = '''
def _calculate(trials, include_pruned=False, search_space=None, cached_trial_number=HOLE_cachedDefault):
    states_of_interest = HOLE_statesBase
    if include_pruned:
        states_of_interest.append(HOLE_statesPrunedExtra)
    next_cached_trial_number = HOLE_nextInit
    for trial in reversed(trials):
        if trial.state not in states_of_interest:
            continue
        if HOLE_nextUnsetTest:
            next_cached_trial_number = HOLE_nextFirst
        if HOLE_breakTest:
            break
        if not trial.state.is_finished():
            next_cached_trial_number = HOLE_nextUnfinished
            continue
        if search_space is None:
            search_space = copy.copy(trial.distributions)
            continue
        search_space = {
            name: distribution
            for name, distribution in search_space.items()
            if trial.distributions.get(name) == distribution
        }
    return search_space, next_cached_trial_number
'''

GROUP_SKELETON = '''
if self._include_pruned:
    states_of_interest = HOLE_groupStatesPruned
else:
    states_of_interest = HOLE_groupStates
'''

STATE_NAMES = {"RUNNING": ".running", "COMPLETE": ".complete", "PRUNED": ".pruned", "FAIL": ".fail", "WAITING": ".waiting"}


class Untranslatable(Exception):
    pass


def _strip(node: ast.AST) -> ast.AST:
    """Remove what the model does not depend on: annotations, docstrings, type comments."""
    for n in ast.walk(node):
        if isinstance(n, (ast.FunctionDef, ast.AsyncFunctionDef)):
            n.returns = None
            n.type_comment = None
            if n.body and isinstance(n.body[0], ast.Expr) and isinstance(n.body[0].value, ast.Constant) and isinstance(n.body[0].value.value, str):
                n.body = n.body[1:]
        if isinstance(n, ast.arg):
            n.annotation = None
            n.type_comment = None
    return node


def _match(skel: Any, src: Any, holes: dict[str, ast.AST], path: str) -> None:
    if isinstance(skel, ast.Name) and skel.id.startswith("HOLE_"):
        if not isinstance(src, ast.expr):
            raise Untranslatable("%s: expression expected" % path)
        holes[skel.id[5:]] = src
        return
    if isinstance(skel, ast.AST):
        if type(skel) is not type(src):
            raise Untranslatable("%s: expected %s, found %s (%s)" % (path, type(skel).__name__, type(src).__name__, _src(src)))
        for f in skel._fields:
            if f in ("ctx", "type_comment", "kind", "type_params"):
                continue
            _match(getattr(skel, f, None), getattr(src, f, None), holes, "%s.%s" % (path, f))
        return
    if isinstance(skel, list):
        if not isinstance(src, list) or len(skel) != len(src):
            raise Untranslatable("%s: %d statement(s)/item(s) expected, found %s" % (path, len(skel), len(src) if isinstance(src, list) else type(src).__name__))
        for i, (a, b) in enumerate(zip(skel, src)):
            _match(a, b, holes, "%s[%d]" % (path, i))
        return
    if skel != src:
        raise Untranslatable("%s: expected %r, found %r" % (path, skel, src))


def _src(node: Any) -> str:
    try:
        return ast.unparse(node)[:120]
    except Exception:
        return repr(node)[:120]


# ---- expression translators ---------------------------------------------------------------------

def _var(node: ast.AST, env: dict[str, str]) -> str | None:
    if isinstance(node, ast.Name) and node.id in env:
        return env[node.id]
    if isinstance(node, ast.Attribute) and isinstance(node.value, ast.Name):
        key = "%s.%s" % (node.value.id, node.attr)
        if key in env:
            return env[key]
    return None


def int_expr(node: ast.AST, env: dict[str, str]) -> str:
    v = _var(node, env)
    if v is not None:
        return v
    if isinstance(node, ast.Constant) and type(node.value) is int:
        return str(node.value) if node.value >= 0 else "(%d)" % node.value
    if isinstance(node, ast.UnaryOp) and isinstance(node.op, ast.USub):
        if isinstance(node.operand, ast.Constant) and type(node.operand.value) is int:
            return "(-%d)" % node.operand.value
        return "(-%s)" % int_expr(node.operand, env)
    if isinstance(node, ast.BinOp) and type(node.op) in (ast.Add, ast.Sub, ast.Mult):
        op = {ast.Add: "+", ast.Sub: "-", ast.Mult: "*"}[type(node.op)]
        return "(%s %s %s)" % (int_expr(node.left, env), op, int_expr(node.right, env))
    raise Untranslatable("integer expression not in the translated fragment: %s" % _src(node))


def bool_expr(node: ast.AST, env: dict[str, str]) -> str:
    if isinstance(node, ast.Compare) and len(node.ops) == 1:
        ops = {ast.Lt: "<", ast.LtE: "≤", ast.Gt: ">", ast.GtE: "≥", ast.Eq: "=", ast.NotEq: "≠"}
        if type(node.ops[0]) not in ops:
            raise Untranslatable("comparison not in the translated fragment: %s" % _src(node))
        return "decide (%s %s %s)" % (int_expr(node.left, env), ops[type(node.ops[0])], int_expr(node.comparators[0], env))
    if isinstance(node, ast.BoolOp):
        op = " && " if isinstance(node.op, ast.And) else " || "
        return "(" + op.join(bool_expr(v, env) for v in node.values) + ")"
    if isinstance(node, ast.UnaryOp) and isinstance(node.op, ast.Not):
        return "(!%s)" % bool_expr(node.operand, env)
    if isinstance(node, ast.Constant) and type(node.value) is bool:
        return "true" if node.value else "false"
    raise Untranslatable("boolean expression not in the translated fragment: %s" % _src(node))


def int_const(node: ast.AST) -> str:
    s = int_expr(node, {})
    return s[1:-1] if s.startswith("(") and s.endswith(")") else s


def state(node: ast.AST) -> str:
    # optuna.trial.TrialState.X  |  TrialState.X
    if isinstance(node, ast.Attribute) and node.attr in STATE_NAMES:
        base = node.value
        if (isinstance(base, ast.Name) and base.id == "TrialState") or (isinstance(base, ast.Attribute) and base.attr == "TrialState"):
            return STATE_NAMES[node.attr]
    raise Untranslatable("not a TrialState member: %s" % _src(node))


def state_list(node: ast.AST) -> str:
    if isinstance(node, (ast.List, ast.Tuple)):
        return "[" + ", ".join(state(e) for e in node.elts) + "]"
    raise Untranslatable("list/tuple of TrialState members expected: %s" % _src(node))


# ---- the translation -----------------------------------------------------------------------------

def _find_func(tree: ast.AST, name: str, cls: str | None = None) -> ast.FunctionDef:
    body = tree.body  # type: ignore[attr-defined]
    if cls is not None:
        for n in body:
            if isinstance(n, ast.ClassDef) and n.name == cls:
                body = n.body
                break
        else:
            raise Untranslatable("class %s not found" % cls)
    for n in body:
        if isinstance(n, ast.FunctionDef) and n.name == name:
            return n
    raise Untranslatable("function %s%s not found" % ((cls + ".") if cls else "", name))


def translate(repo: str) -> tuple[str, list[str]]:
    """Returns (lean source, list of 'python fragment -> lean' descriptions). Raises Untranslatable."""
    p_int = os.path.join(repo, "optuna", "search_space", "intersection.py")
    p_grp = os.path.join(repo, "optuna", "search_space", "group_decomposed.py")
    t_int = ast.parse(open(p_int).read())
    t_grp = ast.parse(open(p_grp).read())

    holes: dict[str, ast.AST] = {}
    skel = _strip(ast.parse(SKELETON)).body[0]  # type: ignore[attr-defined]
    fn = _strip(_find_func(t_int, "_calculate"))
    _match(skel, fn, holes, "_calculate")

    # IntersectionSearchSpace.__init__: self._cached_trial_number (: int) = <const>
    init = _find_func(t_int, "__init__", "IntersectionSearchSpace")
    cursor_init = None
    for st in init.body:
        tgt, val = None, None
        if isinstance(st, ast.AnnAssign):
            tgt, val = st.target, st.value
        elif isinstance(st, ast.Assign) and len(st.targets) == 1:
            tgt, val = st.targets[0], st.value
        if isinstance(tgt, ast.Attribute) and isinstance(tgt.value, ast.Name) and tgt.value.id == "self" and tgt.attr == "_cached_trial_number":
            cursor_init = val
    if cursor_init is None:
        raise Untranslatable("IntersectionSearchSpace.__init__: no assignment to self._cached_trial_number")

    # _GroupDecomposedSearchSpace.calculate: the if/else that picks the states
    gcalc = _find_func(t_grp, "calculate", "_GroupDecomposedSearchSpace")
    gskel = ast.parse(GROUP_SKELETON).body[0]
    gh: dict[str, ast.AST] = {}
    last_err = "no `if self._include_pruned:` statement"
    for st in gcalc.body:
        if isinstance(st, ast.If):
            try:
                tmp: dict[str, ast.AST] = {}
                _match(gskel, st, tmp, "_GroupDecomposedSearchSpace.calculate")
                gh = tmp
                break
            except Untranslatable as e:
                last_err = str(e)
    if not gh:
        raise Untranslatable("_GroupDecomposedSearchSpace.calculate: " + last_err)

    env_next = {"next_cached_trial_number": "next"}
    env_num = {"trial.number": "number"}
    env_break = {"cached_trial_number": "cached", "trial.number": "number"}
    d = {
        "statesBase": state_list(holes["statesBase"]),
        "statesPrunedExtra": "[" + state(holes["statesPrunedExtra"]) + "]",
        "cachedDefault": int_const(holes["cachedDefault"]),
        "nextInit": int_const(holes["nextInit"]),
        "nextUnsetTest": bool_expr(holes["nextUnsetTest"], env_next),
        "nextFirst": int_expr(holes["nextFirst"], env_num),
        "breakTest": bool_expr(holes["breakTest"], env_break),
        "nextUnfinished": int_expr(holes["nextUnfinished"], env_num),
        "cursorInit": int_const(cursor_init),
        "groupStates": state_list(gh["groupStates"]),
        "groupStatesPruned": state_list(gh["groupStatesPruned"]),
    }
    py = {k: _src(v) for k, v in {**holes, **gh, "cursorInit": cursor_init}.items()}
    lean = """-- generated by verif/translators/search_space.py from optuna/search_space/intersection.py and
-- optuna/search_space/group_decomposed.py (the committed copy is the pristine tree); do not edit
import OptunaVerif.Model.Basic
namespace OptunaVerif.Generated.SearchSpaceCode
open OptunaVerif

/-- `_calculate`: `states_of_interest = [...]` -/
def statesBase : List TState := {statesBase}
/-- `_calculate`: `if include_pruned: states_of_interest.append(...)` -/
def statesPrunedExtra : List TState := {statesPrunedExtra}
/-- `_calculate`: default of the parameter `cached_trial_number` -/
def cachedDefault : Int := {cachedDefault}
/-- `_calculate`: `next_cached_trial_number = <const>` before the loop -/
def nextInit : Int := {nextInit}
/-- `_calculate`: the test of `if next_cached_trial_number == -1:` -/
def nextUnsetTest (next : Int) : Bool := {nextUnsetTest}
/-- `_calculate`: the value assigned by `next_cached_trial_number = trial.number + 1` -/
def nextFirst (number : Int) : Int := {nextFirst}
/-- `_calculate`: the test of `if cached_trial_number > trial.number: break` -/
def breakTest (cached number : Int) : Bool := {breakTest}
/-- `_calculate`, unfinished branch: the value assigned by `next_cached_trial_number = trial.number` -/
def nextUnfinished (number : Int) : Int := {nextUnfinished}
/-- `IntersectionSearchSpace.__init__`: `self._cached_trial_number = <const>` -/
def cursorInit : Int := {cursorInit}
/-- `_GroupDecomposedSearchSpace.calculate`: states when not `include_pruned` -/
def groupStates : List TState := {groupStates}
/-- `_GroupDecomposedSearchSpace.calculate`: states when `include_pruned` -/
def groupStatesPruned : List TState := {groupStatesPruned}

end OptunaVerif.Generated.SearchSpaceCode
""".format(**d)
    info = ["%s: `%s` -> `%s`" % (k, py.get(k, "?"), d[k]) for k in d]
    return lean, info


def run(chk: core.Check) -> bool:
    """Regenerate the Lean file from core.REPO.  Returns False (and records the breakage) when the source
    no longer fits the translated fragment."""
    try:
        lean, info = translate(core.REPO)
    except (Untranslatable, SyntaxError, OSError) as e:
        chk.broke("translation", {"translator": "search_space", "why": str(e)[:600]})
        return False
    changed = core.write_if_changed(OUT, lean)
    chk.translated += info
    chk.extra["generated_changed_this_run"] = bool(changed)
    return True


if __name__ == "__main__":
    import sys

    text, inf = translate(sys.argv[1] if len(sys.argv) > 1 else core.REPO)
    print(text)
    print("\n".join(inf))
