"""T-best2 (C12): the "best trial" code  ->  lean/OptunaVerif/Generated/BestMethods.lean

Regenerated from the working tree of the repo on every run (Python `ast`, whitelisted shapes only), as DATA of the IR of
lean/OptunaVerif/Model/BestIR.lean (`prog : Prog`):

  optuna/study/_constrained_optimization.py  _CONSTRAINTS_KEY, _get_feasible_trials (key, `is not None` guard, quantifier, operator, literal)
  optuna/study/study.py                      Study.best_trial (multi-objective guard via _is_multi_objective, constraints lookup, violation test,
                                             the pool of the fallback incl. WHERE the trials are read from, _get_feasible_trials, the
                                             `len == 0` raise, max/min per direction), Study.direction, best_value, best_params, best_trials
  optuna/study/_multi_objective.py           _normalize_value, _dominates (decision trees), _get_pareto_front_trials_by_trials (stage list),
                                             _get_pareto_front_trials, _is_pareto_front, _is_pareto_front_for_unique_sorted,
                                             _is_pareto_front_2d (expressions over named numpy primitives), _is_pareto_front_nd (one while loop)
  optuna/storages/_in_memory.py              InMemoryStorage._update_cache (decision tree), get_best_trial, every call site of _update_cache
                                             (inside `with self._lock`? after the trial was stored? under `if state.is_finished()`?)
  optuna/storages/_base.py                   BaseStorage.get_best_trial
  optuna/storages/_rdb/storage.py            RDBStorage.get_best_trial
  optuna/storages/_rdb/models.py             TrialModel.find_{max,min}_value_trial_id: filters, ORDER BY terms (case tables over value_type, else_,
                                             the value column, asc/desc), limit; a helper classmethod called with constant keyword arguments is inlined

Anything else raises `Untranslatable`; the harness turns that into chk.broke("translation", ...).
"""
from __future__ import annotations

import ast
import hashlib
import os
import sys
from fractions import Fraction
from typing import Any

OUT_REL = os.path.join("OptunaVerif", "Generated", "BestMethods.lean")
SOURCES = {
    "cons": "optuna/study/_constrained_optimization.py",
    "study": "optuna/study/study.py",
    "mo": "optuna/study/_multi_objective.py",
    "mem": "optuna/storages/_in_memory.py",
    "base": "optuna/storages/_base.py",
    "rdb": "optuna/storages/_rdb/storage.py",
    "models": "optuna/storages/_rdb/models.py",
}
STATE_CODES = {"RUNNING": 0, "COMPLETE": 1, "PRUNED": 2, "FAIL": 3, "WAITING": 4}
CMP = {ast.Lt: ".lt", ast.LtE: ".le", ast.Gt: ".gt", ast.GtE: ".ge", ast.Eq: ".eq", ast.NotEq: ".ne"}
FLIP = {".lt": ".gt", ".le": ".ge", ".gt": ".lt", ".ge": ".le", ".eq": ".eq", ".ne": ".ne"}
ERRS = {"ValueError": ".valueError", "RuntimeError": ".runtimeError"}


class Untranslatable(Exception):
    pass


def need(cond: Any, msg: str) -> None:
    if not cond:
        raise Untranslatable(msg)


def dotted(n: ast.AST | None) -> str | None:
    if isinstance(n, ast.Name):
        return n.id
    if isinstance(n, ast.Attribute):
        b = dotted(n.value)
        return None if b is None else b + "." + n.attr
    return None


def src(n: ast.AST) -> str:
    try:
        return ast.unparse(n)[:200]
    except Exception:  # noqa: BLE001
        return ast.dump(n)[:200]


def rat(fr: Fraction) -> str:
    if fr.denominator == 1:
        return "(%d : Rat)" % fr.numerator
    return "((%d : Rat) / %d)" % (fr.numerator, fr.denominator)


def strip_doc(body: list[ast.stmt]) -> list[ast.stmt]:
    if body and isinstance(body[0], ast.Expr) and isinstance(body[0].value, ast.Constant) and isinstance(body[0].value.value, str):
        return body[1:]
    return body


def fn_named(body: list[ast.stmt], name: str) -> ast.FunctionDef:
    for n in body:
        if isinstance(n, ast.FunctionDef) and n.name == name:
            return n
    raise Untranslatable("function %s not found" % name)


def class_named(mod: ast.Module, name: str) -> ast.ClassDef:
    for n in mod.body:
        if isinstance(n, ast.ClassDef) and n.name == name:
            return n
    raise Untranslatable("class %s not found" % name)


def state_code(n: ast.AST) -> int:
    d = dotted(n) or ""
    need(d.startswith("TrialState.") and d.split(".")[1] in STATE_CODES, "trial state " + src(n))
    return STATE_CODES[d.split(".")[1]]


def is_none(n: ast.AST) -> bool:
    return isinstance(n, ast.Constant) and n.value is None


def raise_of(st: ast.stmt) -> str | None:
    if isinstance(st, ast.Raise) and st.exc is not None:
        f = st.exc.func if isinstance(st.exc, ast.Call) else st.exc
        e = dotted(f)
        need(e in ERRS, "raise of " + src(st))
        return ERRS[e]  # type: ignore[index]
    return None


def num_const(n: ast.AST, consts: dict[str, Fraction]) -> Fraction | None:
    if isinstance(n, ast.Constant) and isinstance(n.value, (int, float)) and not isinstance(n.value, bool):
        return Fraction(n.value) if n.value == n.value and abs(n.value) != float("inf") else None
    if isinstance(n, ast.UnaryOp) and isinstance(n.op, ast.USub):
        v = num_const(n.operand, consts)
        return None if v is None else -v
    if isinstance(n, ast.Name) and n.id in consts:
        return consts[n.id]
    if dotted(n) == "sys.float_info.max":
        return Fraction(sys.float_info.max)
    return None


# ---------------------------------------------------------------------------------------------------------------
# constraint predicates
# ---------------------------------------------------------------------------------------------------------------
def cons_pred(test: ast.AST, cname: str) -> str:
    guard = False
    q = test
    if isinstance(test, ast.BoolOp) and isinstance(test.op, ast.And) and len(test.values) == 2:
        g = test.values[0]
        need(isinstance(g, ast.Compare) and isinstance(g.left, ast.Name) and g.left.id == cname and len(g.ops) == 1
             and isinstance(g.ops[0], ast.IsNot) and is_none(g.comparators[0]), "constraint guard " + src(g))
        guard = True
        q = test.values[1]
    need(isinstance(q, ast.Call) and dotted(q.func) in ("any", "all") and len(q.args) == 1 and not q.keywords
         and isinstance(q.args[0], (ast.ListComp, ast.GeneratorExp)), "constraint quantifier " + src(q))
    comp = q.args[0]  # type: ignore[union-attr]
    need(len(comp.generators) == 1 and not comp.generators[0].ifs and isinstance(comp.generators[0].target, ast.Name)
         and isinstance(comp.generators[0].iter, ast.Name) and comp.generators[0].iter.id == cname, "constraint comprehension " + src(comp))
    x = comp.generators[0].target.id
    e = comp.elt
    need(isinstance(e, ast.Compare) and len(e.ops) == 1 and type(e.ops[0]) in CMP, "constraint comparison " + src(e))
    op = CMP[type(e.ops[0])]
    if isinstance(e.left, ast.Name) and e.left.id == x:
        lit = num_const(e.comparators[0], {})
    else:
        need(isinstance(e.comparators[0], ast.Name) and e.comparators[0].id == x, "constraint comparison " + src(e))
        lit = num_const(e.left, {})
        op = FLIP[op]
    need(lit is not None, "constraint literal " + src(e))
    return "⟨%s, .%s, %s, %s⟩" % ("true" if guard else "false", dotted(q.func), op, rat(lit))  # type: ignore[arg-type]


def cons_lookup(st: ast.stmt, key_consts: dict[str, str]) -> tuple[str, str, str] | None:
    """`c = <trial>.system_attrs.get(KEY)` -> (c, trial expr, key string)"""
    if isinstance(st, ast.Assign) and len(st.targets) == 1 and isinstance(st.targets[0], ast.Name) and isinstance(st.value, ast.Call) \
            and isinstance(st.value.func, ast.Attribute) and st.value.func.attr == "get" and isinstance(st.value.func.value, ast.Attribute) \
            and st.value.func.value.attr == "system_attrs" and len(st.value.args) == 1 and not st.value.keywords:
        k = st.value.args[0]
        if isinstance(k, ast.Constant) and isinstance(k.value, str):
            key = k.value
        else:
            need(isinstance(k, ast.Name) and k.id in key_consts, "constraints key " + src(k))
            key = key_consts[k.id]  # type: ignore[union-attr]
        return st.targets[0].id, src(st.value.func.value.value), key
    return None


def feasible_fn(mod: ast.Module) -> tuple[dict[str, str], dict[str, str]]:
    keys: dict[str, str] = {}
    for st in mod.body:
        if isinstance(st, ast.Assign) and len(st.targets) == 1 and isinstance(st.targets[0], ast.Name) \
                and isinstance(st.value, ast.Constant) and isinstance(st.value.value, str):
            keys[st.targets[0].id] = st.value.value
    f = fn_named(mod.body, "_get_feasible_trials")
    b = strip_doc(f.body)
    need(len(b) == 3 and isinstance(b[0], ast.Assign) and isinstance(b[0].value, ast.List) and not b[0].value.elts
         and isinstance(b[1], ast.For) and isinstance(b[2], ast.Return) and dotted(b[2].value) == dotted(b[0].targets[0]),
         "_get_feasible_trials shape")
    loop = b[1]
    need(isinstance(loop.target, ast.Name) and dotted(loop.iter) == f.args.args[0].arg and len(loop.body) == 2 and not loop.orelse,  # type: ignore[union-attr]
         "_get_feasible_trials loop")
    lk = cons_lookup(loop.body[0], keys)  # type: ignore[union-attr]
    need(lk is not None and lk[1] == loop.target.id, "_get_feasible_trials lookup")  # type: ignore[union-attr,index]
    br = loop.body[1]  # type: ignore[union-attr]
    need(isinstance(br, ast.If) and not br.orelse and len(br.body) == 1
         and src(br.body[0]) == "%s.append(%s)" % (dotted(b[0].targets[0]), loop.target.id), "_get_feasible_trials append")  # type: ignore[union-attr]
    return {"feasKey": '"%s"' % lk[2], "feasible": cons_pred(br.test, lk[0])}, keys  # type: ignore[index]


# ---------------------------------------------------------------------------------------------------------------
# getter trees (get_best_trial of the three storages, the fallback of Study.best_trial)
# ---------------------------------------------------------------------------------------------------------------
def ite(c: str, a: str, b: str) -> str:
    return "(.ite %s %s %s)" % (c, a, b)


def leaf(x: str) -> str:
    return "(.leaf %s)" % x


def key_is_value(kw: list[ast.keyword]) -> bool:
    if len(kw) != 1 or kw[0].arg != "key" or not isinstance(kw[0].value, ast.Lambda):
        return False
    lam = kw[0].value
    if len(lam.args.args) != 1:
        return False
    t = lam.args.args[0].arg
    b = lam.body
    if isinstance(b, ast.Call) and dotted(b.func) == "cast" and len(b.args) == 2:
        b = b.args[1]
    return src(b) == t + ".value"


class Getter:
    """symbolic execution of a getter body -> DT GCond GLeaf; records the pool it reads"""

    def __init__(self, what: str, env: dict[str, Any]) -> None:
        self.what = what
        self.env = dict(env)
        self.pool: dict[str, Any] | None = None
        self.objective: int | None = None

    def cond(self, n: ast.AST, env: dict[str, Any]) -> str:
        if isinstance(n, ast.UnaryOp) and isinstance(n.op, ast.Not):
            return "(.not %s)" % self.cond(n.operand, env)
        if isinstance(n, ast.Compare) and len(n.ops) == 1:
            l, op, r = n.left, n.ops[0], n.comparators[0]
            if isinstance(l, ast.Call) and dotted(l.func) == "len" and len(l.args) == 1:
                a = self.kind(l.args[0], env)
                if a == "pool" and isinstance(op, ast.Eq) and isinstance(r, ast.Constant) and r.value == 0:
                    return ".poolEmpty"
                if a == "dirs" and isinstance(op, ast.Gt) and isinstance(r, ast.Constant) and isinstance(r.value, int):
                    return "(.nDirsGt %d)" % r.value
            if self.kind(l, env) == "dir0" and isinstance(op, (ast.Eq, ast.Is)):
                d = dotted(r)
                need(d in ("StudyDirection.MAXIMIZE", "StudyDirection.MINIMIZE"), "direction test " + src(n))
                return "(.dirEq %s)" % ("true" if d.endswith("MAXIMIZE") else "false")  # type: ignore[union-attr]
            if self.kind(l, env) == "cached" and is_none(r):
                if isinstance(op, ast.Is):
                    return ".cachedIsNone"
                if isinstance(op, ast.IsNot):
                    return "(.not .cachedIsNone)"
        raise Untranslatable("%s: condition %s" % (self.what, src(n)))

    def kind(self, n: ast.AST, env: dict[str, Any]) -> str | None:
        if isinstance(n, ast.Name) and n.id in env:
            v = env[n.id]
            return v if isinstance(v, str) else v[0]
        s = src(n)
        if s in ("self.directions", "self._directions", "self._studies[study_id].directions", "self.get_study_directions(study_id)"):
            return "dirs"
        if s in ("self.direction",):
            return "dir0"
        if isinstance(n, ast.Subscript) and isinstance(n.slice, ast.Constant) and n.slice.value == 0 and self.kind(n.value, env) == "dirs":
            return "dir0"
        if s == "self._studies[study_id].best_trial_id":
            return "cached"
        return None

    def pool_of(self, call: ast.Call) -> dict[str, Any] | None:
        f = dotted(call.func)
        if f in ("self.get_all_trials", "self.get_trials", "self._get_trials"):
            kw = {k.arg: k.value for k in call.keywords}
            need(len(call.args) == (1 if f == "self.get_all_trials" else 0), "%s: positional arguments of %s" % (self.what, src(call)))
            need(set(kw) <= {"deepcopy", "states", "use_cache"} and "states" in kw and isinstance(kw["states"], (ast.List, ast.Tuple)),
                 "%s: arguments of %s" % (self.what, src(call)))
            states = [state_code(e) for e in kw["states"].elts]  # type: ignore[union-attr]
            cached = False
            if "use_cache" in kw:
                need(isinstance(kw["use_cache"], ast.Constant) and isinstance(kw["use_cache"].value, bool), "use_cache " + src(call))
                cached = bool(kw["use_cache"].value)  # type: ignore[union-attr]
            return {"src": ".threadCache" if cached else ".fresh", "states": states, "feasibleOnly": False}
        return None

    def run(self, stmts: list[ast.stmt], env: dict[str, Any], depth: int = 0) -> str:
        need(depth < 30, self.what + ": too deeply nested")
        need(stmts, self.what + ": a path falls off the end")
        st, rest = stmts[0], stmts[1:]
        e = raise_of(st)
        if e is not None:
            return leaf("(.raise %s)" % e)
        if isinstance(st, ast.With):
            need(len(st.items) == 1, self.what + ": with")
            ctx = src(st.items[0].context_expr)
            need(ctx == "self._lock" or ctx.startswith("_create_scoped_session("), self.what + ": with " + ctx)
            return self.run(list(st.body) + rest, env, depth + 1)
        if isinstance(st, ast.Expr) and isinstance(st.value, ast.Call) and dotted(st.value.func) == "self._check_study_id":
            return self.run(rest, env, depth)
        if isinstance(st, ast.Assert):
            return self.run(rest, env, depth)     # asserts of the getters are assumed (listed in the assumptions)
        if isinstance(st, ast.If):
            c = self.cond(st.test, env)
            return ite(c, self.run(list(st.body) + rest, env, depth + 1), self.run(list(st.orelse) + rest, env, depth + 1))
        if isinstance(st, ast.Return):
            need(st.value is not None, self.what + ": bare return")
            v = st.value
            if isinstance(v, ast.Call) and dotted(v.func) == "copy.deepcopy" and len(v.args) == 1:
                v = v.args[0]
            if isinstance(v, ast.Call) and dotted(v.func) == "self.get_trial" and len(v.args) == 1:
                a = v.args[0]
                k = self.kind(a, env)
                if k == "cached":
                    return leaf(".cached")
                if isinstance(a, ast.Name) and isinstance(env.get(a.id), tuple) and env[a.id][0] == "res":
                    return leaf(env[a.id][1])
                raise Untranslatable("%s: return %s" % (self.what, src(st)))
            if isinstance(v, ast.Name) and isinstance(env.get(v.id), tuple) and env[v.id][0] == "res":
                return leaf(env[v.id][1])
            raise Untranslatable("%s: return %s" % (self.what, src(st)))
        if isinstance(st, ast.Assign) and len(st.targets) == 1 and isinstance(st.targets[0], ast.Name):
            name, v = st.targets[0].id, st.value
            env2 = dict(env)
            k = self.kind(v, env)
            if k in ("dirs", "dir0", "cached"):
                env2[name] = k
                return self.run(rest, env2, depth)
            if isinstance(v, ast.Call):
                p = self.pool_of(v)
                if p is not None:
                    need(self.pool is None, self.what + ": two pools")
                    self.pool = p
                    env2[name] = "pool"
                    return self.run(rest, env2, depth)
                f = dotted(v.func)
                if f == "_get_feasible_trials" and len(v.args) == 1 and self.kind(v.args[0], env) == "pool" and self.pool is not None:
                    self.pool["feasibleOnly"] = True
                    env2[name] = "pool"
                    return self.run(rest, env2, depth)
                if f in ("max", "min") and len(v.args) == 1 and self.kind(v.args[0], env) == "pool":
                    need(key_is_value(v.keywords), "%s: key of %s" % (self.what, src(v)))
                    env2[name] = ("res", "(.pick %s)" % (".pyMax" if f == "max" else ".pyMin"))
                    return self.run(rest, env2, depth)
                if f in ("models.TrialModel.find_max_value_trial_id", "models.TrialModel.find_min_value_trial_id"):
                    need(len(v.args) == 3 and not v.keywords and isinstance(v.args[1], ast.Constant) and isinstance(v.args[1].value, int),
                         "%s: arguments of %s" % (self.what, src(v)))
                    need(self.objective in (None, v.args[1].value), self.what + ": two objective indexes")
                    self.objective = v.args[1].value  # type: ignore[union-attr]
                    env2[name] = ("res", ".sqlMax" if "max" in f else ".sqlMin")
                    return self.run(rest, env2, depth)
        raise Untranslatable("%s: statement %s" % (self.what, src(st)))


def pool_lean(p: dict[str, Any] | None, what: str) -> str:
    need(p is not None, what + ": no pool of trials is read")
    return "⟨%s, [%s], %s⟩" % (p["src"], ", ".join(str(s) for s in p["states"]), "true" if p["feasibleOnly"] else "false")  # type: ignore[index]


# ---------------------------------------------------------------------------------------------------------------
# InMemoryStorage._update_cache and its call sites
# ---------------------------------------------------------------------------------------------------------------
def update_cache(f: ast.FunctionDef) -> str:
    a = [x.arg for x in f.args.args]
    need(a == ["self", "trial_id", "study_id"], "_update_cache parameters %s" % a)
    SET = "self._studies[study_id].best_trial_id = trial_id"

    def kind(n: ast.AST, env: dict[str, str]) -> str | None:
        if isinstance(n, ast.Name) and n.id in env:
            return env[n.id]
        s = src(n)
        if s == "self._get_trial(trial_id)":
            return "new"
        if s == "self._studies[study_id].best_trial_id":
            return "bestId"
        if s == "self.get_study_directions(study_id)" or s == "self._studies[study_id].directions":
            return "dirs"
        if isinstance(n, ast.Call) and dotted(n.func) == "self._get_trial" and len(n.args) == 1 and kind(n.args[0], env) == "bestId":
            return "best"
        if isinstance(n, ast.Subscript) and isinstance(n.slice, ast.Constant) and n.slice.value == 0 and kind(n.value, env) == "dirs":
            return "dir0"
        if isinstance(n, ast.Attribute) and n.attr == "value":
            k = kind(n.value, env)
            if k == "new":
                return "newValue"
            if k == "best":
                return "bestValue"
        if isinstance(n, ast.Attribute) and n.attr == "state" and kind(n.value, env) == "new":
            return "newState"
        return None

    def cond(n: ast.AST, env: dict[str, str]) -> str:
        if isinstance(n, ast.UnaryOp) and isinstance(n.op, ast.Not):
            return "(.not %s)" % cond(n.operand, env)
        if isinstance(n, ast.Compare) and len(n.ops) == 1:
            l, op, r = n.left, n.ops[0], n.comparators[0]
            kl, kr = kind(l, env), kind(r, env)
            if kl == "newState" and isinstance(op, (ast.NotEq, ast.Eq)):
                return "(.%s %d)" % ("stateNe" if isinstance(op, ast.NotEq) else "stateEq", state_code(r))
            if is_none(r) and isinstance(op, (ast.Is, ast.IsNot)):
                base = {"bestId": ".bestIdIsNone", "bestValue": ".bestValueIsNone", "newValue": ".newValueIsNone"}.get(kl or "")
                need(base is not None, "_update_cache: condition " + src(n))
                return base if isinstance(op, ast.Is) else "(.not %s)" % base  # type: ignore[return-value]
            if isinstance(l, ast.Call) and dotted(l.func) == "len" and len(l.args) == 1 and kind(l.args[0], env) == "dirs" \
                    and isinstance(op, ast.Gt) and isinstance(r, ast.Constant) and isinstance(r.value, int):
                return "(.nDirsGt %d)" % r.value
            if kl == "dir0" and isinstance(op, (ast.Eq, ast.Is)):
                d = dotted(r)
                need(d in ("StudyDirection.MAXIMIZE", "StudyDirection.MINIMIZE"), "_update_cache: direction test " + src(n))
                return "(.dirEq %s)" % ("true" if d.endswith("MAXIMIZE") else "false")  # type: ignore[union-attr]
            if kl in ("bestValue", "newValue") and kr in ("bestValue", "newValue") and type(op) in CMP:
                return "(.cmp %s .%s .%s)" % (CMP[type(op)], kl, kr)
        raise Untranslatable("_update_cache: condition " + src(n))

    def run(stmts: list[ast.stmt], env: dict[str, str], did_set: bool, depth: int = 0) -> str:
        need(depth < 30, "_update_cache: too deeply nested")
        if not stmts:
            return leaf(".set" if did_set else ".keep")
        st, rest = stmts[0], stmts[1:]
        if isinstance(st, ast.Return):
            need(st.value is None, "_update_cache: return with a value")
            return leaf(".set" if did_set else ".keep")
        if src(st) == SET:
            return run(rest, env, True, depth)
        if isinstance(st, ast.Assert):
            t = st.test
            if isinstance(t, ast.Compare) and len(t.ops) == 1 and isinstance(t.ops[0], ast.IsNot) and is_none(t.comparators[0]):
                k = kind(t.left, env)
                if k == "newValue":
                    return ite(".newValueIsNone", leaf(".assertFail"), run(rest, env, did_set, depth + 1))
                if k == "best":
                    return run(rest, env, did_set, depth)     # `_get_trial` never returns None
            raise Untranslatable("_update_cache: " + src(st))
        if isinstance(st, ast.Assign) and len(st.targets) == 1 and isinstance(st.targets[0], ast.Name):
            k = kind(st.value, env)
            need(k is not None, "_update_cache: " + src(st))
            return run(rest, dict(env, **{st.targets[0].id: k}), did_set, depth)  # type: ignore[dict-item]
        if isinstance(st, ast.If):
            c = cond(st.test, env)
            return ite(c, run(list(st.body) + rest, env, did_set, depth + 1), run(list(st.orelse) + rest, env, did_set, depth + 1))
        raise Untranslatable("_update_cache: statement " + src(st))

    return run(strip_doc(f.body), {}, False)


def cache_calls(cls: ast.ClassDef) -> str:
    out = []
    for m in cls.body:
        if not isinstance(m, ast.FunctionDef) or m.name == "_update_cache":
            continue

        def walk(stmts: list[ast.stmt], lock: bool, fin: bool, stored: bool) -> bool:
            for st in stmts:
                s = src(st)
                if isinstance(st, ast.Expr) and isinstance(st.value, ast.Call) and dotted(st.value.func) == "self._update_cache":
                    out.append('⟨"%s", %s, %s, %s⟩' % (m.name, "true" if lock else "false", "true" if stored else "false", "true" if fin else "false"))
                elif isinstance(st, ast.With):
                    stored = walk(list(st.body), lock or any(src(i.context_expr) == "self._lock" for i in st.items), fin, stored)
                elif isinstance(st, ast.If):
                    f2 = fin or src(st.test) == "state.is_finished()"
                    a = walk(list(st.body), lock, f2, stored)
                    b = walk(list(st.orelse), lock, fin, stored)
                    stored = a and b
                elif isinstance(st, (ast.For, ast.While, ast.Try)):
                    need("_update_cache" not in ast.dump(st), "%s: _update_cache inside a loop / try" % m.name)
                elif s.startswith("self._set_trial(") or ".trials.append(" in s:
                    stored = True
            return stored

        walk(list(m.body), False, False, False)
    return "[" + ", ".join(out) + "]"


# ---------------------------------------------------------------------------------------------------------------
# the RDB queries
# ---------------------------------------------------------------------------------------------------------------
def module_consts(mod: ast.Module) -> dict[str, Fraction]:
    c: dict[str, Fraction] = {}
    for st in mod.body:
        if isinstance(st, ast.Assign) and len(st.targets) == 1 and isinstance(st.targets[0], ast.Name):
            v = num_const(st.value, c)
            if v is not None:
                c[st.targets[0].id] = v
    return c


def sql_key(n: ast.AST, aliases: dict[str, ast.AST], consts: dict[str, Fraction]) -> str:
    if isinstance(n, ast.Name) and n.id in aliases:
        return sql_key(aliases[n.id], aliases, consts)
    if dotted(n) == "TrialValueModel.value":
        return ".valueCol"
    if isinstance(n, ast.Call) and dotted(n.func) == "case" and len(n.args) == 1 and isinstance(n.args[0], ast.Dict):
        kw = {k.arg: k.value for k in n.keywords}
        need(set(kw) <= {"value", "else_"} and dotted(kw.get("value")) == "TrialValueModel.value_type", "case(...) arguments " + src(n))
        tbl: dict[str, str] = {"INF_NEG": "none", "FINITE": "none", "INF_POS": "none"}
        for k, v in zip(n.args[0].keys, n.args[0].values):
            need(isinstance(k, ast.Constant) and k.value in tbl, "case key " + src(k) if k is not None else "case key")
            q = num_const(v, consts)
            need(q is not None, "case value " + src(v))
            tbl[k.value] = "(some %s)" % rat(q)  # type: ignore[union-attr,arg-type]
        els = "false"
        if "else_" in kw:
            need(dotted(kw["else_"]) == "TrialValueModel.value", "case else_ " + src(kw["else_"]))
            els = "true"
        return "(.caseType %s %s %s %s)" % (tbl["INF_NEG"], tbl["FINITE"], tbl["INF_POS"], els)
    raise Untranslatable("ORDER BY key " + src(n))


def order_term(n: ast.AST, aliases: dict[str, ast.AST], consts: dict[str, Fraction], env: dict[str, bool]) -> str:
    if isinstance(n, ast.IfExp) and isinstance(n.test, ast.Name) and n.test.id in env:
        return order_term(n.body if env[n.test.id] else n.orelse, aliases, consts, env)
    need(isinstance(n, ast.Call) and dotted(n.func) in ("asc", "desc") and len(n.args) == 1 and not n.keywords, "ORDER BY term " + src(n))
    return "⟨%s, %s⟩" % ("true" if dotted(n.func) == "asc" else "false", sql_key(n.args[0], aliases, consts))  # type: ignore[union-attr]


def query_fn(cls: ast.ClassDef, name: str, consts: dict[str, Fraction]) -> str:
    f = fn_named(cls.body, name)
    env: dict[str, bool] = {}
    body = strip_doc(f.body)
    # `return cls._helper(study_id, objective, session, flag=True)`: inline the helper with the constant keyword arguments
    if len(body) == 1 and isinstance(body[0], ast.Return) and isinstance(body[0].value, ast.Call) \
            and isinstance(body[0].value.func, ast.Attribute) and dotted(body[0].value.func.value) == "cls":
        c = body[0].value
        need([dotted(a) for a in c.args] == ["study_id", "objective", "session"], "%s: forwarded arguments" % name)
        for k in c.keywords:
            need(k.arg is not None and isinstance(k.value, ast.Constant) and isinstance(k.value.value, bool), "%s: keyword %s" % (name, src(k.value)))
            env[k.arg] = bool(k.value.value)  # type: ignore[index,union-attr]
        f = fn_named(cls.body, c.func.attr)
        need([a.arg for a in f.args.args][:4] == ["cls", "study_id", "objective", "session"], "%s: helper parameters" % name)
        body = strip_doc(f.body)
    aliases: dict[str, ast.AST] = {}
    i = 0
    while i < len(body) and isinstance(body[i], ast.Assign) and isinstance(body[i].targets[0], ast.Name) \
            and isinstance(body[i].value, ast.Call) and dotted(body[i].value.func) == "case":  # type: ignore[union-attr]
        aliases[body[i].targets[0].id] = body[i].value  # type: ignore[union-attr]
        i += 1
    need(len(body) == i + 3 and isinstance(body[i], ast.Assign) and isinstance(body[i].targets[0], ast.Name), "%s: body shape" % name)  # type: ignore[union-attr]
    tvar = body[i].targets[0].id  # type: ignore[union-attr]
    need(src(body[i + 1]).startswith("if %s is None:\n    raise ValueError(" % tvar) and src(body[i + 2]) == "return %s[0]" % tvar,
         "%s: result handling" % name)
    # unwind the call chain
    chain: list[tuple[str, ast.Call]] = []
    n: ast.AST = body[i].value  # type: ignore[union-attr]
    while isinstance(n, ast.Call) and isinstance(n.func, ast.Attribute):
        chain.append((n.func.attr, n))
        n = n.func.value
    need(dotted(n) == "session" and chain, "%s: query does not start at session" % name)
    chain.reverse()
    names = [c[0] for c in chain]
    need(names[0] == "query" and names[-1] == "one_or_none", "%s: query chain %s" % (name, names))
    state = "none"
    objective = False
    order: list[str] | None = None
    limit = False
    for meth, call in chain[1:-1]:
        if meth == "with_entities":
            need(src(call.args[0]) == "cls.trial_id" and len(call.args) == 1, "%s: with_entities" % name)
        elif meth == "join":
            need([dotted(a) for a in call.args] == ["TrialValueModel"], "%s: join" % name)
        elif meth == "filter":
            need(len(call.args) == 1 and isinstance(call.args[0], ast.Compare) and isinstance(call.args[0].ops[0], ast.Eq), "%s: filter %s" % (name, src(call.args[0])))
            l, r = dotted(call.args[0].left), call.args[0].comparators[0]  # type: ignore[union-attr]
            if l == "cls.study_id":
                need(dotted(r) == "study_id", "%s: study filter" % name)
            elif l == "cls.state":
                state = "(some %d)" % state_code(r)
            elif l == "TrialValueModel.objective":
                need(dotted(r) == "objective", "%s: objective filter" % name)
                objective = True
            else:
                raise Untranslatable("%s: filter %s" % (name, src(call.args[0])))
        elif meth == "order_by":
            need(order is None and not call.keywords, "%s: order_by" % name)
            order = [order_term(a, aliases, consts, env) for a in call.args]
        elif meth == "limit":
            need(len(call.args) == 1 and isinstance(call.args[0], ast.Constant) and call.args[0].value == 1, "%s: limit" % name)
            limit = True
        else:
            raise Untranslatable("%s: query method .%s" % (name, meth))
    need(order is not None, "%s: no ORDER BY" % name)
    return "⟨%s, %s, [%s], %s⟩" % (state, "true" if objective else "false", ", ".join(order), "true" if limit else "false")  # type: ignore[arg-type]


# ---------------------------------------------------------------------------------------------------------------
# _normalize_value, _dominates
# ---------------------------------------------------------------------------------------------------------------
def normalize_fn(f: ast.FunctionDef) -> str:
    a = [x.arg for x in f.args.args]
    need(len(a) == 2, "_normalize_value parameters")
    vname, dname = a

    def nx(n: ast.AST, env: dict[str, str]) -> str:
        if isinstance(n, ast.Name) and n.id in env:
            return env[n.id]
        if isinstance(n, ast.UnaryOp) and isinstance(n.op, ast.USub):
            inner = nx(n.operand, env)
            if inner == ".inf":
                return ".negInf"
            return "(.neg %s)" % inner
        if isinstance(n, ast.Call) and dotted(n.func) == "float" and len(n.args) == 1 and isinstance(n.args[0], ast.Constant) \
                and n.args[0].value in ("inf", "+inf", "-inf", "Infinity", "infinity"):
            return ".negInf" if n.args[0].value.startswith("-") else ".inf"
        if dotted(n) in ("math.inf", "np.inf", "numpy.inf"):
            return ".inf"
        raise Untranslatable("_normalize_value: expression " + src(n))

    def cond(n: ast.AST) -> str:
        if isinstance(n, ast.UnaryOp) and isinstance(n.op, ast.Not):
            return "(.not %s)" % cond(n.operand)
        if isinstance(n, ast.Compare) and len(n.ops) == 1 and isinstance(n.left, ast.Name):
            op, r = n.ops[0], n.comparators[0]
            if n.left.id == vname and is_none(r) and isinstance(op, (ast.Is, ast.IsNot)):
                return ".valueIsNone" if isinstance(op, ast.Is) else "(.not .valueIsNone)"
            if n.left.id == dname and isinstance(op, (ast.Is, ast.Eq, ast.IsNot, ast.NotEq)) \
                    and dotted(r) in ("StudyDirection.MAXIMIZE", "StudyDirection.MINIMIZE"):
                c = "(.dirIs %s)" % ("true" if dotted(r).endswith("MAXIMIZE") else "false")  # type: ignore[union-attr]
                return c if isinstance(op, (ast.Is, ast.Eq)) else "(.not %s)" % c
        raise Untranslatable("_normalize_value: condition " + src(n))

    def run(stmts: list[ast.stmt], env: dict[str, str], depth: int = 0) -> str:
        need(stmts and depth < 20, "_normalize_value: a path falls off the end")
        st, rest = stmts[0], stmts[1:]
        if isinstance(st, ast.Return) and st.value is not None:
            return leaf(nx(st.value, env))
        if isinstance(st, ast.Assign) and len(st.targets) == 1 and isinstance(st.targets[0], ast.Name):
            return run(rest, dict(env, **{st.targets[0].id: nx(st.value, env)}), depth)
        if isinstance(st, ast.If):
            return ite(cond(st.test), run(list(st.body) + rest, env, depth + 1), run(list(st.orelse) + rest, env, depth + 1))
        raise Untranslatable("_normalize_value: statement " + src(st))

    return run(strip_doc(f.body), {vname: ".value"})


def is_norm_row(n: ast.AST, values_expr: str, dirs_name: str) -> bool:
    """`[_normalize_value(v, d) for v, d in zip(<values>, <directions>)]`"""
    if not (isinstance(n, ast.ListComp) and len(n.generators) == 1 and not n.generators[0].ifs):
        return False
    g = n.generators[0]
    if not (isinstance(g.target, ast.Tuple) and len(g.target.elts) == 2 and all(isinstance(e, ast.Name) for e in g.target.elts)):
        return False
    v, d = (e.id for e in g.target.elts)  # type: ignore[union-attr]
    return src(g.iter) == "zip(%s, %s)" % (values_expr, dirs_name) and src(n.elt) == "_normalize_value(%s, %s)" % (v, d)


def dominates_fn(f: ast.FunctionDef) -> str:
    a = [x.arg for x in f.args.args]
    need(len(a) == 3, "_dominates parameters")
    t0, t1, dn = a

    def kind(n: ast.AST, env: dict[str, tuple[str, int]]) -> tuple[str, int] | None:
        if isinstance(n, ast.Name) and n.id in env:
            return env[n.id]
        for i, t in enumerate((t0, t1)):
            if src(n) == t + ".values":
                return ("values", i)
            if src(n) == t + ".state":
                return ("state", i)
        return None

    def dx(n: ast.AST, env: dict[str, tuple[str, int]]) -> str:
        if isinstance(n, ast.Constant) and isinstance(n.value, bool):
            return "(.const %s)" % ("true" if n.value else "false")
        if isinstance(n, ast.BoolOp):
            parts = [dx(v, env) for v in n.values]
            op = "and" if isinstance(n.op, ast.And) else "or"
            r = parts[-1]
            for p in reversed(parts[:-1]):
                r = "(.%s %s %s)" % (op, p, r)
            return r
        if isinstance(n, ast.UnaryOp) and isinstance(n.op, ast.Not):
            return "(.not %s)" % dx(n.operand, env)
        if isinstance(n, ast.Call) and dotted(n.func) in ("all", "any") and len(n.args) == 1 and isinstance(n.args[0], (ast.GeneratorExp, ast.ListComp)):
            c = n.args[0]
            g = c.generators[0]
            need(len(c.generators) == 1 and not g.ifs and isinstance(g.target, ast.Tuple) and len(g.target.elts) == 2
                 and isinstance(g.iter, ast.Call) and dotted(g.iter.func) == "zip" and len(g.iter.args) == 2, "_dominates: " + src(n))
            ks = [kind(x, env) for x in g.iter.args]  # type: ignore[union-attr]
            need(ks in ([("norm", 0), ("norm", 1)], [("norm", 1), ("norm", 0)]), "_dominates: zip over " + src(g.iter))
            v0, v1 = (e.id for e in g.target.elts)  # type: ignore[union-attr]
            e = c.elt
            need(isinstance(e, ast.Compare) and len(e.ops) == 1 and type(e.ops[0]) in CMP and isinstance(e.left, ast.Name)
                 and isinstance(e.comparators[0], ast.Name) and {e.left.id, e.comparators[0].id} == {v0, v1}, "_dominates: " + src(e))
            op = CMP[type(e.ops[0])]  # type: ignore[union-attr]
            flipped = (e.left.id == v1) != (ks[0] == ("norm", 1))  # type: ignore[union-attr]
            if flipped:
                op = FLIP[op]
            return "(.%s %s)" % ("zipAll" if dotted(n.func) == "all" else "zipAny", op)
        raise Untranslatable("_dominates: returned expression " + src(n))

    def cond(n: ast.AST, env: dict[str, tuple[str, int]]) -> str:
        if isinstance(n, ast.UnaryOp) and isinstance(n.op, ast.Not):
            return "(.not %s)" % cond(n.operand, env)
        if isinstance(n, ast.Compare) and len(n.ops) == 1:
            l, op, r = n.left, n.ops[0], n.comparators[0]
            kl, kr = kind(l, env), kind(r, env)
            if kl is not None and kl[0] == "state" and isinstance(op, (ast.NotEq, ast.Eq)):
                c = "(.stateNe %d %d)" % (kl[1], state_code(r))
                return c if isinstance(op, ast.NotEq) else "(.not %s)" % c
            if isinstance(l, ast.Call) and dotted(l.func) == "len" and isinstance(r, ast.Call) and dotted(r.func) == "len" \
                    and isinstance(op, (ast.NotEq, ast.Eq)):
                a0, a1 = kind(l.args[0], env), l.args[0]
                b0 = kind(r.args[0], env)
                if a0 is not None and a0[0] == "values" and b0 is not None and b0[0] == "values" and a0[1] != b0[1]:
                    c = ".lenNeValues"
                elif a0 is not None and a0[0] == "values" and dotted(r.args[0]) == dn:
                    c = "(.lenNeDirs %d)" % a0[1]
                else:
                    raise Untranslatable("_dominates: condition " + src(n))
                del a1
                return c if isinstance(op, ast.NotEq) else "(.not %s)" % c
            if kl is not None and kr is not None and kl[0] == "norm" and kr[0] == "norm" and kl[1] != kr[1] and isinstance(op, (ast.Eq, ast.NotEq)):
                return ".rowsEq" if isinstance(op, ast.Eq) else "(.not .rowsEq)"
        raise Untranslatable("_dominates: condition " + src(n))

    def run(stmts: list[ast.stmt], env: dict[str, tuple[str, int]], depth: int = 0) -> str:
        need(stmts and depth < 30, "_dominates: a path falls off the end")
        st, rest = stmts[0], stmts[1:]
        e = raise_of(st)
        if e is not None:
            return leaf("(.raise %s)" % e)
        if isinstance(st, ast.Return) and st.value is not None:
            return leaf("(.ret %s)" % dx(st.value, env))
        if isinstance(st, ast.Assert):
            t = st.test
            need(isinstance(t, ast.Compare) and len(t.ops) == 1 and isinstance(t.ops[0], ast.IsNot) and is_none(t.comparators[0]), "_dominates: " + src(st))
            k = kind(t.left, env)  # type: ignore[union-attr]
            need(k is not None and k[0] == "values", "_dominates: " + src(st))
            return ite("(.valuesNone %d)" % k[1], leaf(".assertFail"), run(rest, env, depth + 1))  # type: ignore[index]
        if isinstance(st, ast.Assign) and len(st.targets) == 1 and isinstance(st.targets[0], ast.Name):
            k = kind(st.value, env)
            if k is None:
                for i in (0, 1):
                    for nm, kk in list(env.items()) + [(t0 + ".values", ("values", 0)), (t1 + ".values", ("values", 1))]:
                        if kk == ("values", i) and is_norm_row(st.value, nm, dn):
                            k = ("norm", i)
            need(k is not None, "_dominates: " + src(st))
            return run(rest, dict(env, **{st.targets[0].id: k}), depth)  # type: ignore[dict-item]
        if isinstance(st, ast.If):
            return ite(cond(st.test, env), run(list(st.body) + rest, env, depth + 1), run(list(st.orelse) + rest, env, depth + 1))
        raise Untranslatable("_dominates: statement " + src(st))

    return run(strip_doc(f.body), {})


# ---------------------------------------------------------------------------------------------------------------
# numpy functions -> NE
# ---------------------------------------------------------------------------------------------------------------
FRONT_FUNCS = ("_is_pareto_front_for_unique_sorted", "_is_pareto_front_2d", "_is_pareto_front_nd", "_is_pareto_front")


class Np:
    def __init__(self, what: str, types: dict[str, str]) -> None:
        self.what = what
        self.ty = dict(types)

    def bad(self, n: ast.AST) -> Untranslatable:
        return Untranslatable("%s: numpy expression %s" % (self.what, src(n)))

    def e(self, n: ast.AST) -> tuple[str, str]:
        """-> (NE term, type) ; types: mat xmat bmat vec mask idx nat bool"""
        if isinstance(n, ast.Name):
            need(n.id in self.ty, "%s: unknown name %s" % (self.what, n.id))
            return '(.var "%s")' % n.id, self.ty[n.id]
        if isinstance(n, ast.Constant):
            if isinstance(n.value, bool):
                return "(.bool %s)" % ("true" if n.value else "false"), "bool"
            if isinstance(n.value, int) and n.value >= 0:
                return "(.nat %d)" % n.value, "nat"
            raise self.bad(n)
        if isinstance(n, ast.UnaryOp) and isinstance(n.op, ast.Invert):
            a, t = self.e(n.operand)
            need(t == "mask", "%s: ~ of %s" % (self.what, t))
            return "(.notMask %s)" % a, "mask"
        if isinstance(n, ast.Compare) and len(n.ops) == 1:
            l, op, r = n.left, n.ops[0], n.comparators[0]
            if isinstance(op, ast.Eq):
                (a, ta), (b, tb) = self.e(l), self.e(r)
                need(ta == "nat" and tb == "nat", "%s: == of %s, %s" % (self.what, ta, tb))
                return "(.eqNat %s %s)" % (a, b), "bool"
            if isinstance(op, (ast.Lt, ast.Gt)):
                (a, ta), (b, tb) = self.e(l), self.e(r)
                if isinstance(op, ast.Gt):
                    a, ta, b, tb = b, tb, a, ta
                if ta == "vec" and tb == "vec":
                    return "(.lt %s %s)" % (a, b), "mask"
                if ta == "mat" and tb == "vec":
                    return "(.lt %s %s)" % (a, b), "bmat"
                raise self.bad(n)
            if isinstance(op, ast.NotEq):
                a, ta = self.e(l)
                q = num_const(r, {})
                need(ta == "xmat" and q is not None, "%s: != of %s" % (self.what, ta))
                return "(.neScalar %s %s)" % (a, rat(q)), "bmat"  # type: ignore[arg-type]
            raise self.bad(n)
        if isinstance(n, ast.BinOp) and isinstance(n.op, ast.Sub) and isinstance(n.right, ast.Constant) and isinstance(n.right.value, int) \
                and not isinstance(n.right.value, bool):
            a, t = self.e(n.left)
            need(t in ("idx", "nat"), "%s: subtraction from %s" % (self.what, t))
            return "(.subNat %s %d)" % (a, n.right.value), t
        if isinstance(n, ast.Subscript):
            s = n.slice
            if isinstance(n.value, ast.Attribute) and n.value.attr == "shape" and isinstance(s, ast.Constant) and s.value in (0, 1):
                a, t = self.e(n.value.value)
                need(t in ("mat", "vec", "mask", "idx"), "%s: shape of %s" % (self.what, t))
                return ("(.nrows %s)" if s.value == 0 else "(.ncols %s)") % a, "nat"
            a, t = self.e(n.value)
            if isinstance(s, ast.Tuple) and len(s.elts) == 2 and isinstance(s.elts[0], ast.Slice) and s.elts[0].lower is None \
                    and s.elts[0].upper is None and s.elts[0].step is None and t == "mat":
                k = s.elts[1]
                if isinstance(k, ast.Constant) and isinstance(k.value, int) and k.value >= 0:
                    return "(.col %d %s)" % (k.value, a), "vec"
                if isinstance(k, ast.Slice) and k.upper is None and k.step is None and isinstance(k.lower, ast.Constant) and isinstance(k.lower.value, int):
                    return "(.dropCols %d %s)" % (k.lower.value, a), "mat"
                raise self.bad(n)
            if isinstance(s, ast.Slice) and s.step is None:
                if isinstance(s.lower, ast.Constant) and s.lower.value == 1 and s.upper is None and t in ("vec", "mask"):
                    return "(.tail %s)" % a, t
                if s.lower is None and isinstance(s.upper, ast.UnaryOp) and isinstance(s.upper.op, ast.USub) \
                        and isinstance(s.upper.operand, ast.Constant) and s.upper.operand.value == 1 and t in ("vec", "mask"):
                    return "(.init %s)" % a, t
                raise self.bad(n)
            i, ti = self.e(s)
            if ti == "nat" and t in ("mat", "idx"):
                return "(.at %s %s)" % (i, a), ("vec" if t == "mat" else "nat")
            if ti == "mask" and t in ("mat", "idx", "vec", "mask"):
                return "(.maskSel %s %s)" % (a, i), t
            if ti == "idx" and t in ("mask", "mat"):
                return "(.take %s %s)" % (a, i), t
            raise self.bad(n)
        if isinstance(n, ast.Call):
            f = dotted(n.func)
            kw = {k.arg: k.value for k in n.keywords}
            if f == "len" and len(n.args) == 1:
                a, t = self.e(n.args[0])
                need(t in ("mat", "vec", "mask", "idx"), "%s: len of %s" % (self.what, t))
                return "(.nrows %s)" % a, "nat"
            if f == "np.minimum.accumulate" and len(n.args) == 1 and not kw:
                a, t = self.e(n.args[0])
                need(t == "vec", "%s: accumulate of %s" % (self.what, t))
                return "(.cummin %s)" % a, "vec"
            if f in ("np.ones", "np.zeros", "np.empty") and len(n.args) == 1 and set(kw) == {"dtype"} and dotted(kw["dtype"]) == "bool":
                a, t = self.e(n.args[0])
                need(t == "nat", "%s: size %s" % (self.what, t))
                return "(.%s %s)" % (f[3:], a), "mask"
            if f == "np.arange" and len(n.args) == 1 and not kw:
                a, t = self.e(n.args[0])
                need(t == "nat", "%s: arange of %s" % (self.what, t))
                return "(.arange %s)" % a, "idx"
            if f == "np.any" and len(n.args) == 1 and set(kw) == {"axis"} and isinstance(kw["axis"], ast.Constant) and kw["axis"].value == 1:
                a, t = self.e(n.args[0])
                need(t == "bmat", "%s: np.any(axis=1) of %s" % (self.what, t))
                return "(.anyAxis1 %s)" % a, "mask"
            if f == "np.diff" and len(n.args) == 1 and set(kw) == {"axis"} and isinstance(kw["axis"], ast.Constant) and kw["axis"].value == 0:
                a, t = self.e(n.args[0])
                need(t == "mat", "%s: np.diff of %s" % (self.what, t))
                return "(.diffRows %s)" % a, "xmat"
            if f == "np.cumsum" and len(n.args) == 1 and not kw:
                a, t = self.e(n.args[0])
                need(t == "mask", "%s: np.cumsum of %s" % (self.what, t))
                return "(.cumsum %s)" % a, "idx"
            if f == "np.lexsort" and len(n.args) == 1 and not kw:
                x = n.args[0]
                need(isinstance(x, ast.Subscript) and isinstance(x.value, ast.Attribute) and x.value.attr == "T" and src(x.slice) == "::-1",
                     "%s: only np.lexsort(a.T[::-1]) is a primitive, got %s" % (self.what, src(n)))
                a, t = self.e(x.value.value)  # type: ignore[union-attr]
                need(t == "mat", "%s: lexsort of %s" % (self.what, t))
                return "(.lexsortRows %s)" % a, "idx"
            if isinstance(n.func, ast.Attribute) and n.func.attr == "reshape" and len(n.args) == 1 and src(n.args[0]) == "-1" and not kw:
                a, t = self.e(n.func.value)
                need(t in ("idx", "vec", "mask"), "%s: reshape of %s" % (self.what, t))
                return "(.reshape1 %s)" % a, t
            if f in FRONT_FUNCS:
                args = [self.e(a)[0] for a in n.args]
                for k, v in kw.items():
                    need(k == "assume_unique_lexsorted" and len(n.args) == 1, "%s: keyword %s" % (self.what, k))
                    args.append(self.e(v)[0])
                return '(.call "%s" [%s])' % (f, ", ".join(args)), "mask"
        raise self.bad(n)

    def assign(self, st: ast.stmt) -> list[tuple[str, str]]:
        """one assignment statement -> [(name, NE term)] (in-place updates become functional ones)"""
        if isinstance(st, ast.AnnAssign) and st.value is not None and isinstance(st.target, ast.Name):
            a, t = self.e(st.value)
            self.ty[st.target.id] = t
            return [(st.target.id, a)]
        need(isinstance(st, ast.Assign) and len(st.targets) == 1, "%s: statement %s" % (self.what, src(st)))
        tg, v = st.targets[0], st.value  # type: ignore[union-attr]
        if isinstance(tg, ast.Name):
            a, t = self.e(v)
            self.ty[tg.id] = t
            return [(tg.id, a)]
        if isinstance(tg, ast.Tuple) and len(tg.elts) == 2 and all(isinstance(x, ast.Name) for x in tg.elts):
            n0, n1 = (x.id for x in tg.elts)  # type: ignore[union-attr]
            if isinstance(v, ast.Attribute) and v.attr == "shape":
                a, t = self.e(v.value)
                need(t == "mat", "%s: shape of %s" % (self.what, t))
                self.ty[n0] = self.ty[n1] = "nat"
                return [(n0, "(.nrows %s)" % a), (n1, "(.ncols %s)" % a)]
            if isinstance(v, ast.Call) and dotted(v.func) == "np.unique" and len(v.args) == 1:
                kw = {k.arg: src(k.value) for k in v.keywords}
                need(kw == {"axis": "0", "return_inverse": "True"}, "%s: np.unique arguments %s" % (self.what, kw))
                a, t = self.e(v.args[0])
                need(t == "mat", "%s: np.unique of %s" % (self.what, t))
                self.ty[n0], self.ty[n1] = "mat", "idx"
                return [(n0, "(.uniqueRows %s)" % a), (n1, "(.uniqueInv %s)" % a)]
        if isinstance(tg, ast.Subscript) and isinstance(tg.value, ast.Name) and self.ty.get(tg.value.id) == "mask":
            x = tg.value.id
            s = tg.slice
            if isinstance(s, ast.Slice) and isinstance(s.lower, ast.Constant) and s.lower.value == 1 and s.upper is None and s.step is None:
                a, t = self.e(v)
                need(t == "mask", "%s: %s" % (self.what, src(st)))
                return [(x, '(.setTail (.var "%s") %s)' % (x, a))]
            i, ti = self.e(s)
            if ti == "nat" and isinstance(v, ast.Constant) and isinstance(v.value, bool):
                return [(x, '(.setAt (.var "%s") %s %s)' % (x, i, "true" if v.value else "false"))]
            if ti == "idx":
                a, t = self.e(v)
                need(t == "mask", "%s: %s" % (self.what, src(st)))
                return [(x, '(.scatter (.var "%s") %s %s)' % (x, i, a))]
        raise Untranslatable("%s: statement %s" % (self.what, src(st)))

    def block(self, stmts: list[ast.stmt], depth: int = 0) -> str:
        """statements ending in `return` on every path -> one NE"""
        need(stmts and depth < 30, "%s: a path falls off the end" % self.what)
        st, rest = stmts[0], stmts[1:]
        if isinstance(st, ast.Return) and st.value is not None:
            return self.e(st.value)[0]
        if isinstance(st, ast.If):
            c, t = self.e(st.test)
            need(t == "bool", "%s: condition %s" % (self.what, src(st.test)))
            saved = dict(self.ty)
            a = self.block(list(st.body) + rest, depth + 1)
            self.ty = dict(saved)
            b = self.block(list(st.orelse) + rest, depth + 1)
            self.ty = saved
            return "(.ifB %s %s %s)" % (c, a, b)
        pairs = self.assign(st)
        body = self.block(rest, depth + 1)
        for name, ex in reversed(pairs):
            body = '(.letE "%s" %s %s)' % (name, ex, body)
        return body


def np_fun(f: ast.FunctionDef, types: list[str]) -> str:
    ps = [a.arg for a in f.args.args]
    need(len(ps) == len(types) and not f.args.kwonlyargs, "%s: parameters %s" % (f.name, ps))
    t = Np(f.name, dict(zip(ps, types)))
    return "{ params := [%s], body := %s }" % (", ".join('"%s"' % p for p in ps), t.block(strip_doc(f.body)))


def np_loop(f: ast.FunctionDef) -> str:
    ps = [a.arg for a in f.args.args]
    need(len(ps) == 1, "%s: parameters %s" % (f.name, ps))
    t = Np(f.name, {ps[0]: "mat"})
    body = strip_doc(f.body)
    wi = [i for i, s in enumerate(body) if isinstance(s, ast.While)]
    need(len(wi) == 1 and wi[0] == len(body) - 2 and isinstance(body[-1], ast.Return) and body[-1].value is not None, "%s: one while loop, then return" % f.name)
    init: list[tuple[str, str]] = []
    for st in body[:wi[0]]:
        init += t.assign(st)
    w = body[wi[0]]
    need(isinstance(w.test, ast.Call) and dotted(w.test.func) == "len" and len(w.test.args) == 1 and isinstance(w.test.args[0], ast.Name)  # type: ignore[union-attr]
         and not w.orelse, "%s: loop condition must be len(<name>)" % f.name)  # type: ignore[union-attr]
    cond = w.test.args[0].id  # type: ignore[union-attr]
    before = dict(t.ty)
    loop: list[tuple[str, str]] = []
    for st in w.body:  # type: ignore[union-attr]
        loop += t.assign(st)
    for k, v in before.items():
        need(t.ty.get(k) == v, "%s: the loop changes the type of %s" % (f.name, k))
    res = t.e(body[-1].value)[0]  # type: ignore[union-attr,arg-type]
    fmt = lambda prs: "[" + ", ".join('("%s", %s)' % p for p in prs) + "]"  # noqa: E731
    return '{ params := ["%s"], init := %s, condLen := "%s", body := %s, result := %s }' % (ps[0], fmt(init), cond, fmt(loop), res)


# ---------------------------------------------------------------------------------------------------------------
# the Pareto pipeline and the Study glue
# ---------------------------------------------------------------------------------------------------------------
def pareto_stages(f: ast.FunctionDef) -> str:
    a = [x.arg for x in f.args.args]
    need(a == ["trials", "directions", "consider_constraint"], "_get_pareto_front_trials_by_trials parameters %s" % a)
    out = []
    loss = mask = None
    for st in strip_doc(f.body):
        s = src(st)
        if isinstance(st, ast.Assign) and len(st.targets) == 1 and dotted(st.targets[0]) == "trials" and isinstance(st.value, ast.ListComp):
            c = st.value
            g = c.generators[0]
            need(len(c.generators) == 1 and isinstance(g.target, ast.Name) and src(c.elt) == g.target.id and dotted(g.iter) == "trials" and len(g.ifs) == 1
                 and isinstance(g.ifs[0], ast.Compare) and src(g.ifs[0].left) == g.target.id + ".state" and isinstance(g.ifs[0].ops[0], ast.Eq), "pareto: " + s)
            out.append("(.keepState %d)" % state_code(g.ifs[0].comparators[0]))  # type: ignore[union-attr]
        elif s == "if consider_constraint:\n    trials = _get_feasible_trials(trials)":
            out.append(".keepFeasibleIf")
        elif s == "if len(trials) == 0:\n    return []":
            out.append(".emptyReturnsEmpty")
        elif isinstance(st, ast.If) and not st.orelse and len(st.body) == 1 and raise_of(st.body[0]) is not None and isinstance(st.test, ast.Call) \
                and dotted(st.test.func) == "any" and isinstance(st.test.args[0], ast.GeneratorExp):
            ge = st.test.args[0]
            g = ge.generators[0]
            need(isinstance(g.target, ast.Name) and dotted(g.iter) == "trials" and not g.ifs and isinstance(ge.elt, ast.Compare) and len(ge.elt.ops) == 1
                 and type(ge.elt.ops[0]) in CMP and src(ge.elt.left) == "len(%s.values)" % g.target.id and src(ge.elt.comparators[0]) == "len(directions)", "pareto: " + s)
            out.append("(.raiseIfValuesLen %s %s)" % (CMP[type(ge.elt.ops[0])], raise_of(st.body[0])))  # type: ignore[union-attr]
        elif isinstance(st, ast.Assign) and isinstance(st.value, ast.Call) and dotted(st.value.func) == "np.asarray" and len(st.value.args) == 1:
            oc = st.value.args[0]
            need(isinstance(oc, ast.ListComp) and len(oc.generators) == 1 and isinstance(oc.generators[0].target, ast.Name) and dotted(oc.generators[0].iter) == "trials"
                 and not oc.generators[0].ifs and is_norm_row(oc.elt, oc.generators[0].target.id + ".values", "directions"), "pareto: " + s)
            loss = dotted(st.targets[0])
            out.append(".lossRows")
        elif isinstance(st, ast.Assign) and isinstance(st.value, ast.Call) and dotted(st.value.func) == "_is_pareto_front":
            v = st.value
            need(len(v.args) == 1 and dotted(v.args[0]) == loss and len(v.keywords) == 1 and v.keywords[0].arg == "assume_unique_lexsorted"
                 and isinstance(v.keywords[0].value, ast.Constant) and isinstance(v.keywords[0].value.value, bool), "pareto: " + s)
            mask = dotted(st.targets[0])
            out.append("(.frontMask %s)" % ("true" if v.keywords[0].value.value else "false"))  # type: ignore[union-attr]
        elif isinstance(st, ast.Return) and isinstance(st.value, ast.ListComp):
            c = st.value
            g = c.generators[0]
            need(len(c.generators) == 1 and isinstance(g.target, ast.Tuple) and len(g.target.elts) == 2 and src(g.iter) == "zip(trials, %s)" % mask
                 and src(c.elt) == src(g.target.elts[0]) and len(g.ifs) == 1 and src(g.ifs[0]) == src(g.target.elts[1]), "pareto: " + s)
            out.append(".retSelected")
        else:
            raise Untranslatable("_get_pareto_front_trials_by_trials: statement " + s)
    return "[" + ", ".join(out) + "]"


def study_part(study: ast.ClassDef, mo: ast.Module, keys: dict[str, str]) -> dict[str, str]:
    res: dict[str, str] = {}
    # _is_multi_objective / direction / directions
    imo = strip_doc(fn_named(study.body, "_is_multi_objective").body)
    need(len(imo) == 1 and isinstance(imo[0], ast.Return) and isinstance(imo[0].value, ast.Compare) and src(imo[0].value.left) == "len(self.directions)"
         and isinstance(imo[0].value.ops[0], ast.Gt) and isinstance(imo[0].value.comparators[0], ast.Constant), "_is_multi_objective: " + src(imo[0]))
    multi = "(.nDirsGt %d)" % imo[0].value.comparators[0].value  # type: ignore[union-attr]
    need([src(s) for s in strip_doc(fn_named(study.body, "directions").body)] == ["return self._directions"], "Study.directions")
    db = strip_doc(fn_named(study.body, "direction").body)
    need(len(db) == 2 and src(db[0]).startswith("if self._is_multi_objective():\n    raise RuntimeError(") and src(db[1]) == "return self.directions[0]", "Study.direction")
    # best_trial
    b = strip_doc(fn_named(study.body, "best_trial").body)
    need(len(b) == 5, "Study.best_trial: %d statements" % len(b))
    need(isinstance(b[0], ast.If) and src(b[0].test) == "self._is_multi_objective()" and not b[0].orelse and len(b[0].body) == 1
         and raise_of(b[0].body[0]) is not None, "Study.best_trial: multi-objective guard")
    res["studyMultiGuard"] = multi
    res["studyMultiErr"] = raise_of(b[0].body[0])  # type: ignore[assignment,union-attr]
    need(src(b[1]).endswith("= self._storage.get_best_trial(self._study_id)") and isinstance(b[1], ast.Assign) and isinstance(b[1].targets[0], ast.Name),
         "Study.best_trial: storage call")
    best = b[1].targets[0].id  # type: ignore[union-attr]
    lk = cons_lookup(b[2], keys)
    need(lk is not None and lk[1] == best, "Study.best_trial: constraints lookup")
    res["consKey"] = '"%s"' % lk[2]  # type: ignore[index]
    need(isinstance(b[3], ast.If) and not b[3].orelse, "Study.best_trial: fallback block")
    res["violation"] = cons_pred(b[3].test, lk[0])  # type: ignore[union-attr,index]
    need(src(b[4]) == "return copy.deepcopy(%s)" % best, "Study.best_trial: return")
    g = Getter("Study.best_trial (fallback)", {})
    res["studyFallback"] = g.run(list(b[3].body) + [ast.parse("return copy.deepcopy(%s)" % best).body[0]], {})  # type: ignore[union-attr]
    res["studyPool"] = pool_lean(g.pool, "Study.best_trial")
    # best_value / best_params
    bv = strip_doc(fn_named(study.body, "best_value").body)
    srcs = [src(s) for s in bv]
    need(len(bv) in (2, 3) and isinstance(bv[0], ast.Assign) and src(bv[0].value) == "self.best_trial.value" and srcs[-1] == "return " + src(bv[0].targets[0]),
         "Study.best_value: %s" % srcs)
    res["bestValueOfBestTrial"] = "true"
    res["bestValueAsserts"] = "true" if len(bv) == 3 and srcs[1] == "assert %s is not None" % src(bv[0].targets[0]) else "false"  # type: ignore[union-attr]
    need(len(bv) == 2 or res["bestValueAsserts"] == "true", "Study.best_value: %s" % srcs)
    res["bestParamsOfBestTrial"] = "true" if [src(s) for s in strip_doc(fn_named(study.body, "best_params").body)] == ["return self.best_trial.params"] else "false"
    need(res["bestParamsOfBestTrial"] == "true", "Study.best_params")
    # best_trials
    bt = strip_doc(fn_named(study.body, "best_trials").body)
    need(len(bt) == 3 and src(bt[0]) == "trials = self.get_trials(deepcopy=False)" and isinstance(bt[1], ast.Assign) and isinstance(bt[1].value, ast.Call)
         and dotted(bt[1].value.func) in ("any", "all") and isinstance(bt[1].value.args[0], ast.GeneratorExp), "Study.best_trials shape")
    ge = bt[1].value.args[0]  # type: ignore[union-attr]
    g0 = ge.generators[0]
    need(isinstance(g0.target, ast.Name) and dotted(g0.iter) == "trials" and not g0.ifs and isinstance(ge.elt, ast.Compare) and isinstance(ge.elt.ops[0], ast.In)
         and src(ge.elt.comparators[0]) == g0.target.id + ".system_attrs", "Study.best_trials: constraint probe " + src(ge))
    k = ge.elt.left
    need((isinstance(k, ast.Name) and k.id in keys) or (isinstance(k, ast.Constant) and isinstance(k.value, str)), "Study.best_trials: key " + src(k))
    res["bestTrialsKey"] = '"%s"' % (keys[k.id] if isinstance(k, ast.Name) else k.value)
    res["bestTrialsQuant"] = "." + dotted(bt[1].value.func)  # type: ignore[operator,union-attr]
    need(src(bt[2]) == "return _get_pareto_front_trials(self, consider_constraint=%s)" % src(bt[1].targets[0]), "Study.best_trials: return")  # type: ignore[union-attr]
    gp = strip_doc(fn_named(mo.body, "_get_pareto_front_trials").body)
    need([src(s) for s in gp] == ["return _get_pareto_front_trials_by_trials(study.trials, study.directions, consider_constraint)"], "_get_pareto_front_trials")
    return res


# ---------------------------------------------------------------------------------------------------------------
FIELDS = ["consKey", "violation", "feasKey", "feasible", "updateCache", "memGet", "cacheCalls", "basePool", "baseGet", "rdbGet", "rdbObjective",
          "findMax", "findMin", "studyMultiGuard", "studyMultiErr", "studyPool", "studyFallback", "bestValueAsserts", "bestValueOfBestTrial",
          "bestParamsOfBestTrial", "normalize", "dominates", "pareto", "bestTrialsKey", "bestTrialsQuant", "front", "frontSorted", "front2d", "frontNd"]
TOPLEVEL = {"updateCache": "DT UCond UAct", "memGet": "DT GCond GLeaf", "baseGet": "DT GCond GLeaf", "rdbGet": "DT GCond GLeaf",
            "studyFallback": "DT GCond GLeaf", "normalize": "DT NCond NX", "dominates": "DT DCond DLeaf", "front": "NFun", "frontSorted": "NFun",
            "front2d": "NFun", "frontNd": "NLoop"}


def translate(repo: str) -> tuple[str, dict[str, Any]]:
    mods: dict[str, ast.Module] = {}
    h = hashlib.sha1()
    for k, rel in SOURCES.items():
        text = open(os.path.join(repo, rel)).read()
        h.update(text.encode())
        mods[k] = ast.parse(text)
    f: dict[str, str] = {}
    feas, keys = feasible_fn(mods["cons"])
    f.update(feas)
    f.update(study_part(class_named(mods["study"], "Study"), mods["mo"], keys))
    mem = class_named(mods["mem"], "InMemoryStorage")
    f["updateCache"] = update_cache(fn_named(mem.body, "_update_cache"))
    g = Getter("InMemoryStorage.get_best_trial", {})
    f["memGet"] = g.run(strip_doc(fn_named(mem.body, "get_best_trial").body), {})
    need(g.pool is None, "InMemoryStorage.get_best_trial reads a pool of trials")
    f["cacheCalls"] = cache_calls(mem)
    g = Getter("BaseStorage.get_best_trial", {})
    f["baseGet"] = g.run(strip_doc(fn_named(class_named(mods["base"], "BaseStorage").body, "get_best_trial").body), {})
    f["basePool"] = pool_lean(g.pool, "BaseStorage.get_best_trial")
    g = Getter("RDBStorage.get_best_trial", {})
    f["rdbGet"] = g.run(strip_doc(fn_named(class_named(mods["rdb"], "RDBStorage").body, "get_best_trial").body), {})
    need(g.objective is not None and g.pool is None, "RDBStorage.get_best_trial: no query call")
    f["rdbObjective"] = str(g.objective)
    tm = class_named(mods["models"], "TrialModel")
    mc = module_consts(mods["models"])
    f["findMax"] = query_fn(tm, "find_max_value_trial_id", mc)
    f["findMin"] = query_fn(tm, "find_min_value_trial_id", mc)
    mo = mods["mo"]
    f["normalize"] = normalize_fn(fn_named(mo.body, "_normalize_value"))
    f["dominates"] = dominates_fn(fn_named(mo.body, "_dominates"))
    f["pareto"] = pareto_stages(fn_named(mo.body, "_get_pareto_front_trials_by_trials"))
    f["front"] = np_fun(fn_named(mo.body, "_is_pareto_front"), ["mat", "bool"])
    f["frontSorted"] = np_fun(fn_named(mo.body, "_is_pareto_front_for_unique_sorted"), ["mat"])
    f["front2d"] = np_fun(fn_named(mo.body, "_is_pareto_front_2d"), ["mat"])
    f["frontNd"] = np_loop(fn_named(mo.body, "_is_pareto_front_nd"))
    need(sorted(f) == sorted(FIELDS), "internal: fields %s" % sorted(set(FIELDS) ^ set(f)))
    L = ["-- generated by verif/translators/tbest.py from optuna/study/{study,_multi_objective,_constrained_optimization}.py,",
         "-- optuna/storages/{_in_memory,_base}.py, optuna/storages/_rdb/{storage,models}.py; do not edit",
         "import OptunaVerif.Model.BestIR",
         "namespace OptunaVerif.Generated.BestMethods",
         "open OptunaVerif.BestIR OptunaVerif.Best",
         "open OptunaVerif.Generated.Best (Cmp)",
         ""]
    for k in FIELDS:
        if k in TOPLEVEL:
            L.append("def %s : %s := %s" % (k, TOPLEVEL[k], f[k]))
    L += ["", "def prog : Prog where"]
    for k in FIELDS:
        L.append("  %s := %s" % (k, k if k in TOPLEVEL else f[k]))
    L += ["", "end OptunaVerif.Generated.BestMethods", ""]
    info = {"fields": {k: f[k] for k in FIELDS}, "sha1_of_sources": h.hexdigest()[:16], "sources": sorted(SOURCES.values())}
    return "\n".join(L), info
