"""T-brute (C14): the exhaustive samplers -> Lean DATA.

Read with Python `ast` on every run:

  optuna/samplers/_brute_force.py
      _TreeNode.expand / set_running / set_leaf / add_path / count_unexpanded / sample_child
      BruteForceSampler._populate_tree / sample_independent / after_trial
      _enumerate_candidates                       (case split; Decimal arithmetic pinned as text)
                                                  -> lean/OptunaVerif/Generated/BruteForceMethods.lean
  optuna/samplers/_grid.py
      GridSampler._grid_value_equal / _same_search_space / _get_unvisited_grid_ids / before_trial / after_trial
      (+ the fact `self._n_min_trials = len(self._all_grids)` of __init__)
                                                  -> lean/OptunaVerif/Generated/GridMethods.lean

Every method body becomes a term of the statement language of `Model/SamplerIR.lean` (skip / seq / ite / assert / act /
loop / ret / raise / cont over one of three vocabularies).  Each primitive of a vocabulary stands for ONE whitelisted
source shape (quoted next to its constructor in SamplerIR.lean and matched below, variable names included).  Anything else
raises `Untranslatable`; the method is then emitted as the stub `.raise .unrepresentable` (so its equality theorem in
Props/C14Gen.lean fails as well) and `regenerate` reports chk.broke("translation", ...).

IR nodes in Python: a nullary constructor is a str ("skip" -> `.skip`), an application a tuple (ctor, arg, ...), a statement
list a `Block`, other lists plain lists, bool/int/str literals wrapped in `Lit`.
"""
from __future__ import annotations

import ast
import os
from typing import Any

BF_REL = "optuna/samplers/_brute_force.py"
GRID_REL = "optuna/samplers/_grid.py"
TSTATE = {"RUNNING": "running", "COMPLETE": "complete", "PRUNED": "pruned", "FAIL": "fail", "WAITING": "waiting"}


class Untranslatable(Exception):
    def __init__(self, where: str, why: str) -> None:
        super().__init__("%s: %s" % (where, why))
        self.where = where
        self.why = why


def U(node: ast.AST, why: str) -> Untranslatable:
    try:
        txt = ast.unparse(node)
    except Exception:  # noqa: BLE001
        txt = repr(node)
    return Untranslatable("line %s `%s`" % (getattr(node, "lineno", "?"), " ".join(txt.split())[:140]), why)


def norm(n: "ast.AST | str") -> str:
    """position-free canonical text of an expression / statement"""
    if isinstance(n, str):
        n = ast.parse(n).body[0]
    if isinstance(n, ast.Expr):
        n = n.value
    return ast.dump(n, annotate_fields=False, include_attributes=False).replace("Store()", "Load()").replace("Del()", "Load()")


def is_src(n: ast.AST, text: str) -> bool:
    return norm(n) == norm(text)


class Block(list):
    """a statement list"""


class Lit:
    def __init__(self, v: Any) -> None:
        self.v = v


def is_doc(st: ast.stmt) -> bool:
    return isinstance(st, ast.Expr) and isinstance(st.value, ast.Constant) and isinstance(st.value.value, str)


def pure_message(n: ast.AST) -> bool:
    """an exception message that only reads (f-strings / .format / set() / .keys() of names and attributes)"""
    for x in ast.walk(n):
        if isinstance(x, ast.Call):
            f = x.func
            ok = (isinstance(f, ast.Attribute) and f.attr in ("format", "keys")) or (isinstance(f, ast.Name) and f.id in ("set", "type", "str", "repr"))
            if not ok:
                return False
        if isinstance(x, (ast.Lambda, ast.NamedExpr, ast.Await, ast.Yield, ast.YieldFrom)):
            return False
    return True


# =====================================================================================================================
# generic statement walker
# =====================================================================================================================
class Ctx:
    """translation of one method body: subclasses give cond / simple statements / loops / returns"""

    ERRORS = {"ValueError": "valueError", "KeyError": "keyError", "AssertionError": "assertion", "TypeError": "typeError"}

    def block(self, body: list[ast.stmt]) -> Block:
        out = Block()
        for st in body:
            out += self.stmt(st)
        return out

    def stmt(self, st: ast.stmt) -> list[Any]:
        if isinstance(st, ast.Pass) or is_doc(st):
            return []
        if isinstance(st, ast.If):
            return [("ite", self.cond(st.test), self.block(st.body), self.block(st.orelse))]
        if isinstance(st, ast.Assert):
            if st.msg is not None and not pure_message(st.msg):
                raise U(st, "assert message with side effects")
            return [("assert", self.cond(st.test))]
        if isinstance(st, ast.Continue):
            return ["cont"]
        if isinstance(st, ast.Raise):
            e = st.exc
            if st.cause is None and isinstance(e, ast.Call) and isinstance(e.func, ast.Name) and e.func.id in self.ERRORS \
                    and all(pure_message(a) for a in e.args) and not e.keywords:
                return [("raise", self.ERRORS[e.func.id])]
            raise U(st, "only `raise ValueError|KeyError|AssertionError|TypeError(<message>)`")
        if isinstance(st, ast.Return):
            return [("ret", self.ret(st, st.value))]
        if isinstance(st, ast.For):
            if st.orelse:
                raise U(st, "for/else")
            return [self.loop(st)]
        return self.simple(st)

    # to be overridden -------------------------------------------------------------------------------------------
    def cond(self, n: ast.AST) -> Any:
        if isinstance(n, ast.UnaryOp) and isinstance(n.op, ast.Not):
            return ("not", self.cond(n.operand))
        if isinstance(n, ast.BoolOp):
            op = "and" if isinstance(n.op, ast.And) else "or"
            out = self.cond(n.values[-1])
            for v in reversed(n.values[:-1]):
                out = (op, self.cond(v), out)
            return out
        return self.atom(n)

    def atom(self, n: ast.AST) -> Any:
        raise U(n, "condition is not whitelisted")

    def simple(self, st: ast.stmt) -> list[Any]:
        raise U(st, "statement shape is not whitelisted")

    def loop(self, st: ast.For) -> Any:
        raise U(st, "loop header is not whitelisted")

    def ret(self, st: ast.Return, v: "ast.AST | None") -> Any:
        if v is None or (isinstance(v, ast.Constant) and v.value is None):
            return "none"
        raise U(st, "return value is not whitelisted")


def bexp(n: ast.AST) -> Any:
    """Boolean argument expressions: `exclude_running`, `self._avoid_premature_stop`, True/False, not"""
    if isinstance(n, ast.Name) and n.id == "exclude_running":
        return "excl"
    if is_src(n, "self._avoid_premature_stop"):
        return "avoid"
    if isinstance(n, ast.Constant) and isinstance(n.value, bool):
        return ("lit", Lit(n.value))
    if isinstance(n, ast.UnaryOp) and isinstance(n.op, ast.Not):
        return ("not", bexp(n.operand))
    raise U(n, "Boolean argument is not `exclude_running` / `self._avoid_premature_stop` / True / False / not ...")


def is_none_test(n: ast.AST, text: str) -> "bool | None":
    """`<text> is None` -> True, `<text> is not None` -> False, else None"""
    if isinstance(n, ast.Compare) and len(n.ops) == 1 and isinstance(n.comparators[0], ast.Constant) and n.comparators[0].value is None \
            and is_src(n.left, text):
        if isinstance(n.ops[0], ast.Is):
            return True
        if isinstance(n.ops[0], ast.IsNot):
            return False
    return None


# =====================================================================================================================
# vocabulary 1: _TreeNode
# =====================================================================================================================
CHILD_VALUES = "enumerate(self.children.values())"


class TreeCtx(Ctx):
    def __init__(self, method: str, args: list[str]) -> None:
        self.method = method
        self.args = args
        self.child_vars: list[str] = []   # names bound to self.children.values()[i]
        self.in_path_loop = False
        self.has_cur = False
        self.has_weights = False

    def need_arg(self, n: ast.AST, name: str) -> None:
        if name not in self.args:
            raise U(n, "`%s` is not a parameter of %s" % (name, self.method))

    def atom(self, n: ast.AST) -> Any:
        for text, ir in (("self.children", "childrenIsNone"), ("current_node.children", "curChildrenIsNone")):
            t = is_none_test(n, text)
            if t is not None:
                if ir == "curChildrenIsNone" and not self.has_cur:
                    raise U(n, "current_node is not bound")
                return ir if t else ("not", ir)
        if is_src(n, "self.param_name != param_name"):
            self.need_arg(n, "param_name")
            return "nameDiffers"
        if is_src(n, "self.param_name == param_name"):
            self.need_arg(n, "param_name")
            return ("not", "nameDiffers")
        if is_src(n, "self.children.keys() != set(search_space)"):
            self.need_arg(n, "search_space")
            return "keysDiffer"
        if is_src(n, "self.children.keys() == set(search_space)"):
            self.need_arg(n, "search_space")
            return ("not", "keysDiffer")
        if isinstance(n, ast.Name) and n.id == "exclude_running":
            self.need_arg(n, "exclude_running")
            return "exclArg"
        if is_src(n, "self.is_running"):
            return "selfRunning"
        if self.in_path_loop and is_src(n, "value in current_node.children"):
            return "valueInCur"
        if self.in_path_loop and is_src(n, "value not in current_node.children"):
            return ("not", "valueInCur")
        if isinstance(n, ast.Attribute) and n.attr == "is_running" and isinstance(n.value, ast.Name) and n.value.id in self.child_vars:
            return "childRunning"
        if self.has_weights and self.child_vars and is_src(n, "weights[i] > 0"):
            return "weightPos"
        if isinstance(n, ast.Call) and isinstance(n.func, ast.Name) and n.func.id == "any" and len(n.args) == 1 and not n.keywords \
                and isinstance(n.args[0], ast.GeneratorExp):
            g = n.args[0]
            if len(g.generators) == 1 and not g.generators[0].ifs and not g.generators[0].is_async and is_src(g.generators[0].iter, CHILD_VALUES) \
                    and isinstance(g.generators[0].target, ast.Tuple) and len(g.generators[0].target.elts) == 2 \
                    and all(isinstance(e, ast.Name) for e in g.generators[0].target.elts) and g.generators[0].target.elts[0].id == "i":
                self.child_vars.append(g.generators[0].target.elts[1].id)
                try:
                    return ("anyChild", self.cond(g.elt))
                finally:
                    self.child_vars.pop()
            raise U(n, "any(...) must range over `for i, <v> in enumerate(self.children.values())`")
        raise U(n, "condition is not whitelisted")

    def nexpr(self, n: ast.AST) -> Any:
        if isinstance(n, ast.Constant) and type(n.value) is int and n.value >= 0:
            return ("lit", Lit(n.value))
        if isinstance(n, ast.IfExp):
            return ("ifElse", self.cond(n.test), self.nexpr(n.body), self.nexpr(n.orelse))
        if isinstance(n, ast.Call) and isinstance(n.func, ast.Name) and n.func.id == "sum" and len(n.args) == 1 and not n.keywords \
                and isinstance(n.args[0], ast.GeneratorExp):
            g = n.args[0]
            if len(g.generators) == 1 and not g.generators[0].ifs and is_src(g.generators[0].iter, "self.children.values()") \
                    and isinstance(g.generators[0].target, ast.Name):
                v = g.generators[0].target.id
                return ("sumChildCounts", self.count_call(g.elt, v))
        raise U(n, "numeric expression is not whitelisted")

    def count_call(self, n: ast.AST, var: str) -> Any:
        """`<var>.count_unexpanded(<bexp>)` -> the bexp"""
        if isinstance(n, ast.Call) and isinstance(n.func, ast.Attribute) and n.func.attr == "count_unexpanded" and isinstance(n.func.value, ast.Name) \
                and n.func.value.id == var and len(n.args) == 1 and not n.keywords:
            b = bexp(n.args[0])
            if "avoid" in repr(b):
                raise U(n, "`self._avoid_premature_stop` inside _TreeNode")
            return b
        raise U(n, "must be `%s.count_unexpanded(<Boolean>)`" % var)

    def ret(self, st: ast.Return, v: "ast.AST | None") -> Any:
        if v is None or (isinstance(v, ast.Constant) and v.value is None):
            return "none"
        if isinstance(v, ast.Name) and v.id == "current_node" and self.has_cur:
            return "cur"
        if self.has_weights and is_src(v, "rng.choice(list(self.children.keys()), p=weights)"):
            self.need_arg(v, "rng")
            return "choice"
        return ("nat", self.nexpr(v))

    def loop(self, st: ast.For) -> Any:
        if is_src(st.target, "(param_name, search_space, value)") and is_src(st.iter, "params_and_search_spaces") and self.has_cur:
            self.need_arg(st, "params_and_search_spaces")
            if self.in_path_loop:
                raise U(st, "nested path loop")
            self.in_path_loop = True
            try:
                return ("loop", "pathTriples", self.block(st.body))
            finally:
                self.in_path_loop = False
        if is_src(st.iter, CHILD_VALUES) and isinstance(st.target, ast.Tuple) and len(st.target.elts) == 2 \
                and all(isinstance(e, ast.Name) for e in st.target.elts) and st.target.elts[0].id == "i":
            self.child_vars.append(st.target.elts[1].id)
            try:
                return ("loop", "children", self.block(st.body))
            finally:
                self.child_vars.pop()
        raise U(st, "loop header is not whitelisted")

    def simple(self, st: ast.stmt) -> list[Any]:
        if is_src(st, "self.param_name = param_name"):
            self.need_arg(st, "param_name")
            return [("act", "setParamName")]
        if is_src(st, "self.children = {value: _TreeNode() for value in search_space}"):
            self.need_arg(st, "search_space")
            return [("act", "setChildrenFresh")]
        for b in (True, False):
            if is_src(st, "self.is_running = %s" % b):
                return [("act", ("setIsRunning", Lit(b)))]
        if isinstance(st, ast.Expr) and isinstance(st.value, ast.Call) and is_src(st.value.func, "self.expand") and len(st.value.args) == 2 \
                and not st.value.keywords:
            a0, a1 = st.value.args
            if isinstance(a0, ast.Constant) and a0.value is None:
                n_arg = "none"
            elif isinstance(a0, ast.Name) and a0.id == "param_name" and "param_name" in self.args:
                n_arg = "argName"
            else:
                raise U(st, "first argument of self.expand must be None or the parameter param_name")
            if isinstance(a1, ast.List) and not a1.elts:
                s_arg = "empty"
            elif isinstance(a1, ast.Name) and a1.id == "search_space" and "search_space" in self.args:
                s_arg = "argSpace"
            else:
                raise U(st, "second argument of self.expand must be [] or the parameter search_space")
            return [("act", ("selfExpand", n_arg, s_arg))]
        if is_src(st, "current_node = self") and not self.in_path_loop:
            self.has_cur = True
            return [("act", "curFromSelf")]
        if self.in_path_loop and is_src(st, "current_node.expand(param_name, search_space)"):
            return [("act", "curExpand")]
        if self.in_path_loop and is_src(st, "current_node = current_node.children[value]"):
            return [("act", "curDescend")]
        if isinstance(st, ast.Assign) and len(st.targets) == 1 and isinstance(st.targets[0], ast.Name) and st.targets[0].id == "weights":
            v = st.value
            if isinstance(v, ast.Call) and is_src(v.func, "np.array") and len(v.args) == 1 and [k.arg for k in v.keywords] == ["dtype"] \
                    and is_src(v.keywords[0].value, "np.float64") and isinstance(v.args[0], ast.ListComp):
                lc = v.args[0]
                if len(lc.generators) == 1 and not lc.generators[0].ifs and is_src(lc.generators[0].iter, "self.children.values()") \
                        and isinstance(lc.generators[0].target, ast.Name):
                    b = self.count_call(lc.elt, lc.generators[0].target.id)
                    self.has_weights = True
                    return [("act", ("setWeights", b))]
            raise U(st, "weights must be np.array([child.count_unexpanded(<b>) for child in self.children.values()], dtype=np.float64)")
        if self.has_weights and self.child_vars and (is_src(st, "weights[i] = 0.0") or is_src(st, "weights[i] = 0")):
            return [("act", "zeroWeight")]
        if self.has_weights and is_src(st, "weights /= weights.sum()"):
            return [("act", "normalise")]
        raise U(st, "statement shape is not whitelisted")


# =====================================================================================================================
# vocabulary 2: BruteForceSampler
# =====================================================================================================================
GEN_PATH = ("tree.add_path(((param_name, _enumerate_candidates(param_distribution), "
            "param_distribution.to_internal_repr(trial.params[param_name])) "
            "for param_name, param_distribution in trial.distributions.items() if param_name not in params))")
GEN_OTHERS = "(t for t in trials if t.number != trial.number)"
GEN_CURRENT = ("((t if t.number != trial.number else create_trial(state=state, values=values, params=trial.params, "
               "distributions=trial.distributions)) for t in trials)")
# since the repair of F38 the comparison is the NaN-aware module-level helper `_param_value_equal` (translated separately into
# `paramValueEqual`, proved to be the same equality as `_grid_value_equal`: reflexive on NaN); the plain `==` form is no longer a
# whitelisted shape - a revert makes `_populate_tree` untranslatable
PARAMS_MATCH = "all((p in trial.params and _param_value_equal(trial.params[p], v) for p, v in params.items()))"


class BFCtx(Ctx):
    def __init__(self, method: str, args: list[str]) -> None:
        self.method = method
        self.args = args
        self.locals: set[str] = set()
        self.in_trials_loop = False

    def atom(self, n: ast.AST) -> Any:
        if self.method == "_populate_tree":
            if self.in_trials_loop and is_src(n, PARAMS_MATCH):
                return "paramsMatch"
            t = is_none_test(n, "leaf")
            if t is not None and "leaf" in self.locals:
                return "leafIsNone" if t else ("not", "leafIsNone")
            if self.in_trials_loop and is_src(n, "trial.state.is_finished()"):
                return "trialFinished"
            if self.in_trials_loop and isinstance(n, ast.Compare) and len(n.ops) == 1 and isinstance(n.ops[0], (ast.Eq, ast.NotEq)) \
                    and is_src(n.left, "trial.state"):
                s = trial_state(n.comparators[0])
                if s is not None:
                    c: Any = ("trialStateIs", s)
                    return c if isinstance(n.ops[0], ast.Eq) else ("not", c)
        if self.method == "after_trial":
            if is_src(n, "state.is_finished()"):
                return "argStateFinished"
            if isinstance(n, ast.Compare) and len(n.ops) == 1 and isinstance(n.ops[0], (ast.Eq, ast.NotEq)) and is_src(n.left, "state"):
                s = trial_state(n.comparators[0])
                if s is not None:
                    c = ("argStateIs", s)
                    return c if isinstance(n.ops[0], ast.Eq) else ("not", c)
        if isinstance(n, ast.Compare) and len(n.ops) == 1 and isinstance(n.ops[0], (ast.Eq, ast.NotEq)) and isinstance(n.comparators[0], ast.Constant) \
                and type(n.comparators[0].value) is int and n.comparators[0].value == 0 and "tree" in self.locals:
            c0 = n.left
            if isinstance(c0, ast.Call) and is_src(c0.func, "tree.count_unexpanded") and len(c0.args) == 1 and not c0.keywords:
                c = ("countIsZero", self.bexp(c0.args[0]))
                return c if isinstance(n.ops[0], ast.Eq) else ("not", c)
        raise U(n, "condition is not whitelisted")

    def bexp(self, n: ast.AST) -> Any:
        b = bexp(n)
        if "excl" in repr(b) and "exclude_running" not in self.locals:
            raise U(n, "exclude_running is not bound")
        return b

    def ret(self, st: ast.Return, v: "ast.AST | None") -> Any:
        if v is None or (isinstance(v, ast.Constant) and v.value is None):
            return "none"
        if self.method == "sample_independent":
            if is_src(v, "param_distribution.to_external_repr(self._rng.rng.choice(candidates))") and "candidates" in self.locals:
                return "choiceCandidates"
            if isinstance(v, ast.Call) and is_src(v.func, "param_distribution.to_external_repr") and len(v.args) == 1 and not v.keywords:
                c = v.args[0]
                if isinstance(c, ast.Call) and is_src(c.func, "tree.sample_child") and len(c.args) == 2 and not c.keywords \
                        and is_src(c.args[0], "self._rng.rng") and "tree" in self.locals:
                    return ("sampleChild", self.bexp(c.args[1]))
        raise U(st, "return value is not whitelisted")

    def loop(self, st: ast.For) -> Any:
        if self.method == "_populate_tree" and is_src(st.target, "trial") and is_src(st.iter, "trials") and not self.in_trials_loop:
            self.in_trials_loop = True
            try:
                return ("loop", "trials", self.block(st.body))
            finally:
                self.in_trials_loop = False
        raise U(st, "loop header is not whitelisted")

    def simple(self, st: ast.stmt) -> list[Any]:
        m = self.method
        if isinstance(st, ast.Assign) and len(st.targets) == 1 and isinstance(st.targets[0], ast.Name):
            name, v = st.targets[0].id, st.value
            if m in ("sample_independent", "after_trial"):
                if name == "exclude_running":
                    b = bexp(v)
                    if "excl" in repr(b):
                        raise U(st, "exclude_running defined by itself")
                    self.locals.add(name)
                    return [("act", ("setExcl", b))]
                if name == "trials" and isinstance(v, ast.Call) and is_src(v.func, "study.get_trials") and not v.args \
                        and sorted(k.arg or "" for k in v.keywords) == ["deepcopy", "states"]:
                    kw = {k.arg: k.value for k in v.keywords}
                    if not (isinstance(kw["deepcopy"], ast.Constant) and kw["deepcopy"].value is False):
                        raise U(st, "get_trials(deepcopy=False, ...)")
                    sts = kw["states"]
                    if not isinstance(sts, (ast.Tuple, ast.List)) or any(trial_state(e) is None for e in sts.elts):
                        raise U(st, "states= must be a tuple of TrialState members")
                    self.locals.add(name)
                    return [("act", ("getTrials", [trial_state(e) for e in sts.elts]))]
                if name == "tree" and is_src(v, "_TreeNode()"):
                    self.locals.add(name)
                    return [("act", "newTree")]
                if m == "sample_independent" and name == "candidates" and is_src(v, "_enumerate_candidates(param_distribution)"):
                    self.locals.add(name)
                    return [("act", "setCandidates")]
            if m == "_populate_tree" and name == "leaf" and self.in_trials_loop and is_src(v, GEN_PATH):
                self.locals.add(name)
                return [("act", "leafAddPath")]
            raise U(st, "assignment is not whitelisted")
        if isinstance(st, ast.Expr) and isinstance(st.value, ast.Call):
            c = st.value
            if m == "sample_independent" and is_src(c, "tree.expand(param_name, candidates)") and {"tree", "candidates"} <= self.locals:
                return [("act", "treeExpand")]
            if m in ("sample_independent", "after_trial") and is_src(c.func, "self._populate_tree") and len(c.args) == 3 and not c.keywords \
                    and is_src(c.args[0], "tree") and {"tree", "trials"} <= self.locals:
                a1, a2 = c.args[1], c.args[2]
                if is_src(a1, "trials"):
                    ts = "given"
                elif is_src(a1, GEN_OTHERS):
                    ts = "others"
                elif is_src(a1, GEN_CURRENT) and m == "after_trial":
                    ts = "withCurrentAsState"
                else:
                    raise U(st, "the trials handed to _populate_tree are not one of the whitelisted generators")
                if is_src(a2, "trial.params"):
                    ps = "trialParams"
                elif isinstance(a2, ast.Dict) and not a2.keys:
                    ps = "empty"
                else:
                    raise U(st, "the params handed to _populate_tree must be trial.params or {}")
                return [("act", ("populate", ts, ps))]
            if m == "after_trial" and is_src(c, "study.stop()"):
                return [("act", "studyStop")]
            if m == "_populate_tree" and "leaf" in self.locals and is_src(c, "leaf.set_leaf()"):
                return [("act", "leafSetLeaf")]
            if m == "_populate_tree" and "leaf" in self.locals and is_src(c, "leaf.set_running()"):
                return [("act", "leafSetRunning")]
        raise U(st, "statement shape is not whitelisted")


def trial_state(n: ast.AST) -> "str | None":
    if isinstance(n, ast.Attribute) and isinstance(n.value, ast.Name) and n.value.id == "TrialState" and n.attr in TSTATE:
        return TSTATE[n.attr]
    return None


# ---- _enumerate_candidates -------------------------------------------------------------------------------------------
FLOAT_LOOP = ["ret = []", "value = low", "while value <= high:\n    ret.append(float(value))\n    value += step", "return ret"]
KIND = {"FloatDistribution": "float", "IntDistribution": "int", "CategoricalDistribution": "cat"}


def translate_enumerate(fn: ast.FunctionDef) -> Any:
    if [a.arg for a in fn.args.args] != ["param_distribution"]:
        raise U(fn, "_enumerate_candidates(param_distribution)")
    body = [s for s in fn.body if not is_doc(s)]
    if len(body) != 1 or not isinstance(body[0], ast.If):
        raise U(fn, "the body must be one isinstance chain")
    arms = []
    cur: Any = body[0]
    else_raises = False
    while True:
        t = cur.test
        if not (isinstance(t, ast.Call) and isinstance(t.func, ast.Name) and t.func.id == "isinstance" and len(t.args) == 2
                and is_src(t.args[0], "param_distribution") and isinstance(t.args[1], ast.Name) and t.args[1].id in KIND):
            raise U(cur, "arm test must be isinstance(param_distribution, Float|Int|CategoricalDistribution)")
        kind = KIND[t.args[1].id]
        b = [s for s in cur.body if not is_doc(s)]
        if kind == "float":
            step_none = False
            if b and isinstance(b[0], ast.If) and is_src(b[0].test, "param_distribution.step is None") and not b[0].orelse \
                    and len(b[0].body) == 1 and isinstance(b[0].body[0], ast.Raise) and isinstance(b[0].body[0].exc, ast.Call) \
                    and is_src(b[0].body[0].exc.func, "ValueError"):
                step_none = True
                b = b[1:]
            srcs = []
            for f in ("low", "high", "step"):
                if b and is_src(b[0], "%s = decimal.Decimal(str(param_distribution.%s))" % (f, f)):
                    srcs.append("ofStr")
                elif b and is_src(b[0], "%s = decimal.Decimal(param_distribution.%s)" % (f, f)):
                    srcs.append("ofFloat")
                else:
                    raise U(b[0] if b else cur, "expected `%s = decimal.Decimal(str(param_distribution.%s))`" % (f, f))
                b = b[1:]
            if len(b) != len(FLOAT_LOOP) or not all(is_src(x, y) for x, y in zip(b, FLOAT_LOOP)):
                raise U(b[0] if b else cur, "the Decimal loop must be literally: %s" % " ; ".join(" ".join(x.split()) for x in FLOAT_LOOP))
            arms.append((kind, ("floatLoop", srcs[0], srcs[1], srcs[2], Lit(step_none))))
        elif kind == "int":
            off = None
            if len(b) == 1 and isinstance(b[0], ast.Return):
                v = b[0].value
                if isinstance(v, ast.Call) and is_src(v.func, "list") and len(v.args) == 1 and isinstance(v.args[0], ast.Call) \
                        and is_src(v.args[0].func, "range") and len(v.args[0].args) == 3 and not v.args[0].keywords:
                    a0, a1, a2 = v.args[0].args
                    if is_src(a0, "param_distribution.low") and is_src(a2, "param_distribution.step"):
                        if is_src(a1, "param_distribution.high"):
                            off = 0
                        elif isinstance(a1, ast.BinOp) and isinstance(a1.op, (ast.Add, ast.Sub)) and is_src(a1.left, "param_distribution.high") \
                                and isinstance(a1.right, ast.Constant) and type(a1.right.value) is int:
                            off = a1.right.value if isinstance(a1.op, ast.Add) else -a1.right.value
            if off is None:
                raise U(cur, "int arm must be `return list(range(param_distribution.low, param_distribution.high + <k>, param_distribution.step))`")
            arms.append((kind, ("intRange", Lit(off))))
        else:
            if not (len(b) == 1 and is_src(b[0], "return list(range(len(param_distribution.choices)))")):
                raise U(cur, "categorical arm must be `return list(range(len(param_distribution.choices)))`")
            arms.append((kind, "catRange"))
        if len(cur.orelse) == 1 and isinstance(cur.orelse[0], ast.If):
            cur = cur.orelse[0]
            continue
        if len(cur.orelse) == 1 and isinstance(cur.orelse[0], ast.Raise) and isinstance(cur.orelse[0].exc, ast.Call) \
                and is_src(cur.orelse[0].exc.func, "ValueError"):
            else_raises = True
        elif cur.orelse:
            raise U(cur.orelse[0], "the chain must end in `else: raise ValueError(...)`")
        break
    return {"arms": arms, "elseRaises": else_raises}


# =====================================================================================================================
# vocabulary 3: GridSampler
# =====================================================================================================================
TS = {"RUNNING": "running", "WAITING": "waiting"}
SET_ATTR = "study._storage.set_trial_system_attr"


def translate_value_equal(fn: ast.FunctionDef) -> Any:
    args = [a.arg for a in fn.args.args]
    if args != ["value1", "value2"]:
        raise U(fn, "_grid_value_equal(value1, value2)")
    lets: list[tuple[str, Any]] = []
    bound: list[str] = []

    def varg(n: ast.AST) -> "str | None":
        if isinstance(n, ast.Name) and n.id in ("value1", "value2"):
            return "v1" if n.id == "value1" else "v2"
        return None

    def ex(n: ast.AST) -> Any:
        if isinstance(n, ast.Name) and n.id in bound:
            return ("var", Lit(n.id))
        if isinstance(n, ast.UnaryOp) and isinstance(n.op, ast.Not):
            return ("not", ex(n.operand))
        if isinstance(n, ast.BoolOp):
            # the NaN test is itself an `and`: try it first
            if isinstance(n.op, ast.And) and len(n.values) == 2:
                for a in ("value1", "value2"):
                    if is_src(n, "isinstance(%s, Real) and np.isnan(float(%s))" % (a, a)):
                        return ("isRealNaN", "v1" if a == "value1" else "v2")
            op = "and" if isinstance(n.op, ast.And) else "or"
            out = ex(n.values[-1])
            for v in reversed(n.values[:-1]):
                out = (op, ex(v), out)
            return out
        if isinstance(n, ast.Compare) and len(n.ops) == 1:
            a, b = varg(n.left), varg(n.comparators[0])
            if a and b:
                if isinstance(n.ops[0], ast.Eq):
                    return ("eq", a, b)
                if isinstance(n.ops[0], ast.NotEq):
                    return ("not", ("eq", a, b))
                if isinstance(n.ops[0], ast.Is):
                    return ("is", a, b)
                if isinstance(n.ops[0], ast.IsNot):
                    return ("not", ("is", a, b))
        raise U(n, "expression of _grid_value_equal is not whitelisted")

    body = [s for s in fn.body if not is_doc(s)]
    for st in body[:-1]:
        if isinstance(st, ast.Assign) and len(st.targets) == 1 and isinstance(st.targets[0], ast.Name) and st.targets[0].id not in ("value1", "value2"):
            lets.append((st.targets[0].id, ex(st.value)))
            bound.append(st.targets[0].id)
        else:
            raise U(st, "only `<local> = <Boolean expression>` before the return")
    if not body or not isinstance(body[-1], ast.Return) or body[-1].value is None:
        raise U(fn, "must end in `return <Boolean expression>`")
    return {"lets": lets, "ret": ex(body[-1].value)}


class GridCtx(Ctx):
    def __init__(self, method: str, args: list[str]) -> None:
        self.method = method
        self.args = args
        self.locals: set[str] = set()
        self.loops: list[str] = []

    def len_is(self, n: ast.AST, var: str) -> "tuple[int, bool] | None":
        if isinstance(n, ast.Compare) and len(n.ops) == 1 and isinstance(n.ops[0], (ast.Eq, ast.NotEq)) and is_src(n.left, "len(%s)" % var) \
                and isinstance(n.comparators[0], ast.Constant) and type(n.comparators[0].value) is int and n.comparators[0].value >= 0:
            return n.comparators[0].value, isinstance(n.ops[0], ast.Eq)
        return None

    def atom(self, n: ast.AST) -> Any:
        m = self.method
        if m == "_same_search_space":
            if is_src(n, "set(search_space.keys()) != set(self._search_space.keys())"):
                return "keySetsDiffer"
            if is_src(n, "set(search_space.keys()) == set(self._search_space.keys())"):
                return ("not", "keySetsDiffer")
            if "theirKeys" in self.loops and is_src(n, "len(search_space[param_name]) != len(self._search_space[param_name])"):
                return "lensDiffer"
            if "theirKeys" in self.loops and is_src(n, "len(search_space[param_name]) == len(self._search_space[param_name])"):
                return ("not", "lensDiffer")
            if "theirValuesEnum" in self.loops and is_src(n, "self._grid_value_equal(param_value, self._search_space[param_name][i])"):
                return "valueEqualCall"
        if m == "_get_unvisited_grid_ids":
            if "trials" in self.loops:
                if is_src(n, '"grid_id" in t.system_attrs'):
                    return "tHasGridId"
                if is_src(n, '"grid_id" not in t.system_attrs'):
                    return ("not", "tHasGridId")
                if is_src(n, 'self._same_search_space(t.system_attrs["search_space"])'):
                    return "tSameSpace"
                if is_src(n, "t.state.is_finished()"):
                    return "tFinished"
                if isinstance(n, ast.Compare) and len(n.ops) == 1 and isinstance(n.ops[0], (ast.Eq, ast.NotEq)) and is_src(n.left, "t.state") \
                        and isinstance(n.comparators[0], ast.Attribute) and is_src(n.comparators[0].value, "TrialState") and n.comparators[0].attr in TS:
                    c: Any = ("tStateIs", TS[n.comparators[0].attr])
                    return c if isinstance(n.ops[0], ast.Eq) else ("not", c)
            if "unvisited_grids" in self.locals:
                r = self.len_is(n, "unvisited_grids")
                if r is not None:
                    return ("lenUnvisitedIs", Lit(r[0])) if r[1] else ("not", ("lenUnvisitedIs", Lit(r[0])))
        if m in ("before_trial", "after_trial"):
            if m == "before_trial":
                if is_src(n, '"grid_id" in trial.system_attrs'):
                    return "curHasGridId"
                if is_src(n, '"fixed_params" in trial.system_attrs'):
                    return "curHasFixedParams"
                if is_src(n, "0 <= trial.number") or is_src(n, "trial.number >= 0"):
                    return "zeroLeNumber"
                if is_src(n, "trial.number < self._n_min_trials") or is_src(n, "self._n_min_trials > trial.number"):
                    return "numberLtNMin"
                if is_src(n, "0 <= trial.number < self._n_min_trials"):
                    return ("and", "zeroLeNumber", "numberLtNMin")
            if "target_grids" in self.locals:
                r = self.len_is(n, "target_grids")
                if r is not None:
                    return ("lenTargetIs", Lit(r[0])) if r[1] else ("not", ("lenTargetIs", Lit(r[0])))
                if "grid_id" in self.locals and (is_src(n, "grid_id == target_grids[0]") or is_src(n, "target_grids[0] == grid_id")):
                    return "gridIdIsTarget0"
        raise U(n, "condition is not whitelisted")

    def ret(self, st: ast.Return, v: "ast.AST | None") -> Any:
        if v is None or (isinstance(v, ast.Constant) and v.value is None):
            return "none"
        if self.method == "_same_search_space" and isinstance(v, ast.Constant) and isinstance(v.value, bool):
            return ("bool", Lit(v.value))
        if self.method == "_get_unvisited_grid_ids" and is_src(v, "list(unvisited_grids)") and "unvisited_grids" in self.locals:
            return "listUnvisited"
        raise U(st, "return value is not whitelisted")

    def loop(self, st: ast.For) -> Any:
        m = self.method
        kind = None
        if m == "_same_search_space":
            if is_src(st.target, "param_name") and (is_src(st.iter, "search_space.keys()") or is_src(st.iter, "search_space")) and not self.loops:
                kind = "theirKeys"
            elif is_src(st.target, "(i, param_value)") and is_src(st.iter, "enumerate(search_space[param_name])") and self.loops == ["theirKeys"]:
                kind = "theirValuesEnum"
        if m == "_get_unvisited_grid_ids" and is_src(st.target, "t") and is_src(st.iter, "trials") and "trials" in self.locals and not self.loops:
            kind = "trials"
        if kind is None:
            raise U(st, "loop header is not whitelisted")
        self.loops.append(kind)
        try:
            return ("loop", kind, self.block(st.body))
        finally:
            self.loops.pop()

    def simple(self, st: ast.stmt) -> list[Any]:
        m = self.method
        if m == "_get_unvisited_grid_ids":
            if is_src(st, "visited_grids = []") and not self.loops:
                self.locals.add("visited_grids")
                return [("act", "initVisited")]
            if is_src(st, "running_grids = []") and not self.loops:
                self.locals.add("running_grids")
                return [("act", "initRunning")]
            if is_src(st, "trials = study._storage.get_all_trials(study._study_id, deepcopy=False)"):
                self.locals.add("trials")
                return [("act", "getAllTrials")]
            if "trials" in self.loops and is_src(st, 'visited_grids.append(t.system_attrs["grid_id"])') and "visited_grids" in self.locals:
                return [("act", "appendVisited")]
            if "trials" in self.loops and is_src(st, 'running_grids.append(t.system_attrs["grid_id"])') and "running_grids" in self.locals:
                return [("act", "appendRunning")]
            if isinstance(st, ast.Assign) and len(st.targets) == 1 and is_src(st.targets[0], "unvisited_grids") and not self.loops:
                minus: list[str] = []
                v = st.value
                while isinstance(v, ast.BinOp) and isinstance(v.op, ast.Sub):
                    for name, tag in (("visited_grids", "visited"), ("running_grids", "running")):
                        if is_src(v.right, "set(%s)" % name) and name in self.locals:
                            minus.insert(0, tag)
                            break
                    else:
                        raise U(st, "only set(visited_grids) / set(running_grids) may be subtracted")
                    v = v.left
                if not is_src(v, "set(range(self._n_min_trials))"):
                    raise U(st, "unvisited_grids must start from set(range(self._n_min_trials))")
                self.locals.add("unvisited_grids")
                return [("act", ("setUnvisited", minus))]
        if m in ("before_trial", "after_trial"):
            if is_src(st, "target_grids = self._get_unvisited_grid_ids(study)"):
                self.locals.add("target_grids")
                return [("act", ("setTarget", "unvisitedCall"))]
            if m == "before_trial" and is_src(st, "target_grids = list(range(len(self._all_grids)))"):
                self.locals.add("target_grids")
                return [("act", ("setTarget", "allRange"))]
            if isinstance(st, ast.Expr) and isinstance(st.value, ast.Call) and is_src(st.value.func, "_logger.warning") and not st.value.keywords \
                    and all(isinstance(a, ast.Constant) and isinstance(a.value, str) for a in st.value.args):
                return [("act", "warn")]
            if m == "before_trial" and is_src(st, "grid_id = int(self._rng.rng.choice(target_grids))") and "target_grids" in self.locals:
                self.locals.add("grid_id")
                return [("act", "chooseGridId")]
            if m == "before_trial" and isinstance(st, ast.Expr) and isinstance(st.value, ast.Call) and is_src(st.value.func, SET_ATTR) \
                    and len(st.value.args) == 3 and not st.value.keywords and is_src(st.value.args[0], "trial._trial_id") \
                    and isinstance(st.value.args[1], ast.Constant):
                key, val = st.value.args[1].value, st.value.args[2]
                if key == "search_space" and is_src(val, "self._search_space"):
                    return [("act", ("write", "searchSpace"))]
                if key == "grid_id" and is_src(val, "trial.number"):
                    return [("act", ("write", ("gridId", "trialNumber")))]
                if key == "grid_id" and is_src(val, "grid_id") and "grid_id" in self.locals:
                    return [("act", ("write", ("gridId", "localGridId")))]
                raise U(st, "only the attributes search_space = self._search_space and grid_id = trial.number | grid_id may be written")
            if m == "after_trial" and is_src(st, 'grid_id = study._storage.get_trial_system_attrs(trial._trial_id).get("grid_id")'):
                self.locals.add("grid_id")
                return [("act", "getCurGridId")]
            if m == "after_trial" and is_src(st, "study.stop()"):
                return [("act", "studyStop")]
        raise U(st, "statement shape is not whitelisted")


# =====================================================================================================================
# rendering
# =====================================================================================================================
def r(x: Any, ind: int = 2) -> str:
    if isinstance(x, Lit):
        v = x.v
        if isinstance(v, bool):
            return "true" if v else "false"
        if isinstance(v, int):
            return str(v) if v >= 0 else "(%d)" % v
        return '"%s"' % str(v).replace("\\", "\\\\").replace('"', '\\"')
    if isinstance(x, Block):
        if not x:
            return ".skip"
        if len(x) == 1:
            return r(x[0], ind)
        pad = " " * (ind + 2)
        return "(block [\n" + ",\n".join(pad + r(s, ind + 2) for s in x) + "])"
    if isinstance(x, list):
        return "[" + ", ".join(r(e, ind) for e in x) + "]"
    if isinstance(x, str):
        return "." + x
    assert isinstance(x, tuple), x
    return "(." + x[0] + "".join(" " + r(a, ind + 2) for a in x[1:]) + ")"


def count_nodes(x: Any) -> int:
    if isinstance(x, (Block, list, tuple)):
        return (1 if isinstance(x, tuple) else 0) + sum(count_nodes(e) for e in (x[1:] if isinstance(x, tuple) else x))
    return 1 if isinstance(x, str) else 0


# =====================================================================================================================
# whole files
# =====================================================================================================================
def _methods(cdef: ast.ClassDef) -> dict[str, ast.FunctionDef]:
    return {n.name: n for n in cdef.body if isinstance(n, ast.FunctionDef)}


def _args(fn: ast.FunctionDef, allow_deco: tuple[str, ...] = ()) -> list[str]:
    a = fn.args
    if a.vararg or a.kwarg or a.kwonlyargs or a.defaults or a.posonlyargs:
        raise U(fn, "unexpected parameter list")
    decos = [ast.unparse(d) for d in fn.decorator_list]
    if any(d not in allow_deco for d in decos):
        raise U(fn, "decorated with %s" % decos)
    return [x.arg for x in a.args]


TREE_METHODS = [("expand", "expand", ["self", "param_name", "search_space"]),
                ("set_running", "setRunning", ["self"]),
                ("set_leaf", "setLeaf", ["self"]),
                ("add_path", "addPath", ["self", "params_and_search_spaces"]),
                ("count_unexpanded", "countUnexpanded", ["self", "exclude_running"]),
                ("sample_child", "sampleChild", ["self", "rng", "exclude_running"])]
BF_METHODS = [("_populate_tree", "populateTree", ["tree", "trials", "params"], ("staticmethod",)),
              ("sample_independent", "sampleIndependent", ["self", "study", "trial", "param_name", "param_distribution"], ()),
              ("after_trial", "afterTrial", ["self", "study", "trial", "state", "values"], ())]
GRID_METHODS = [("_same_search_space", "sameSearchSpace", ["self", "search_space"], ()),
                ("_get_unvisited_grid_ids", "getUnvisitedGridIds", ["self", "study"], ()),
                ("before_trial", "beforeTrial", ["self", "study", "trial"], ()),
                ("after_trial", "afterTrial", ["self", "study", "trial", "state", "values"], ())]
STUB = "(.raise .unrepresentable)"


def _cls(tree: ast.Module, name: str, rel: str) -> ast.ClassDef:
    c = next((n for n in tree.body if isinstance(n, ast.ClassDef) and n.name == name), None)
    if c is None:
        raise Untranslatable(name, "class not found in %s" % rel)
    return c


def translate_bruteforce(repo: str) -> tuple[str, dict[str, Any], list[dict[str, str]]]:
    problems: list[dict[str, str]] = []
    info: dict[str, Any] = {"methods": {}}
    tree = ast.parse(open(os.path.join(repo, BF_REL)).read())
    node_ms = _methods(_cls(tree, "_TreeNode", BF_REL))
    bf_ms = _methods(_cls(tree, "BruteForceSampler", BF_REL))
    defs: list[tuple[str, str, str, str, str]] = []   # (lean name, type, python name, text, comment)

    def one(fn: "ast.FunctionDef | None", pyname: str, lean: str, ty: str, want_args: list[str], deco: tuple[str, ...], mk: Any) -> None:
        try:
            if fn is None:
                raise Untranslatable(pyname, "not found")
            args = _args(fn, deco)
            if args != want_args:
                raise U(fn, "parameters %s, expected %s" % (args, want_args))
            ir = mk(fn)
            info["methods"][pyname] = count_nodes(ir)
            defs.append((lean, ty, pyname, r(ir), "lines %d-%d" % (fn.lineno, fn.end_lineno or fn.lineno)))
        except Untranslatable as e:
            problems.append({"what": pyname, "why": str(e)})
            info["methods"][pyname] = None
            defs.append((lean, ty, pyname, STUB, "UNTRANSLATABLE: %s" % str(e).replace("-/", "- /")))

    for py, lean, want in TREE_METHODS:
        one(node_ms.get(py), "_TreeNode." + py, lean, "TStmt", want, (), lambda fn, py=py, want=want: TreeCtx(py, want).block(fn.body))
    for py, lean, want, deco in BF_METHODS:
        one(bf_ms.get(py), "BruteForceSampler." + py, lean, "BStmt", want, deco, lambda fn, py=py, want=want: BFCtx(py, want).block(fn.body))
    # _enumerate_candidates
    fn = next((n for n in tree.body if isinstance(n, ast.FunctionDef) and n.name == "_enumerate_candidates"), None)
    try:
        if fn is None:
            raise Untranslatable("_enumerate_candidates", "not found")
        e = translate_enumerate(fn)
        info["enumerate"] = {"arms": [a[0] for a in e["arms"]], "elseRaises": e["elseRaises"]}
        etext = "{ arms := [%s],\n    elseRaises := %s }" % (", ".join("(.%s, %s)" % (k, r(a)) for k, a in e["arms"]), r(Lit(e["elseRaises"])))
        ecomment = "lines %d-%d" % (fn.lineno, fn.end_lineno or fn.lineno)
    except Untranslatable as ex:
        problems.append({"what": "_enumerate_candidates", "why": str(ex)})
        info["enumerate"] = None
        etext = "{ arms := [], elseRaises := false }"
        ecomment = "UNTRANSLATABLE: %s" % str(ex).replace("-/", "- /")
    # _param_value_equal (module level; NaN-aware equality used by _populate_tree's prefix filter)
    fn = next((n for n in tree.body if isinstance(n, ast.FunctionDef) and n.name == "_param_value_equal"), None)
    try:
        if fn is None:
            raise Untranslatable("_param_value_equal", "not found")
        v = translate_value_equal(fn)
        info["methods"]["_param_value_equal"] = 1 + len(v["lets"])
        vtext = "{ lets := [%s],\n    ret := %s }" % (", ".join("(%s, %s)" % (r(Lit(x)), r(e_)) for x, e_ in v["lets"]), r(v["ret"]))
        vcomment = "lines %d-%d" % (fn.lineno, fn.end_lineno or fn.lineno)
    except Untranslatable as ex:
        problems.append({"what": "_param_value_equal", "why": str(ex)})
        info["methods"]["_param_value_equal"] = None
        vtext = '{ lets := [], ret := .var "untranslatable" }'
        vcomment = "UNTRANSLATABLE: %s" % str(ex).replace("-/", "- /")
    L = ["import OptunaVerif.Model.SamplerIR",
         "/-! GENERATED by verif/translators/tbrute.py from %s on every check run - do not edit. -/" % BF_REL,
         "namespace OptunaVerif.Generated.BruteForceMethods",
         "open OptunaVerif OptunaVerif.SamplerIR", ""]
    for lean, ty, py, text, comment in defs:
        L.append("/-- `%s` (%s) -/" % (py, comment))
        L.append("def %s : %s :=\n  %s\n" % (lean, ty, text))
    L.append("/-- `_enumerate_candidates` (%s) -/" % ecomment)
    L.append("def enumerateCandidates : EnumIR :=\n  %s\n" % etext)
    L.append("/-- `_param_value_equal` (%s) -/" % vcomment)
    L.append("def paramValueEqual : VEqIR :=\n  %s\n" % vtext)
    L.append("/-- the `_TreeNode` methods -/")
    L.append("def treeProg : TreeProg :=\n  { expand := expand, setRunning := setRunning, setLeaf := setLeaf, addPath := addPath,\n"
             "    countUnexpanded := countUnexpanded, sampleChild := sampleChild }\n")
    L.append("end OptunaVerif.Generated.BruteForceMethods")
    return "\n".join(L) + "\n", info, problems


def translate_grid(repo: str) -> tuple[str, dict[str, Any], list[dict[str, str]]]:
    problems: list[dict[str, str]] = []
    info: dict[str, Any] = {"methods": {}}
    tree = ast.parse(open(os.path.join(repo, GRID_REL)).read())
    ms = _methods(_cls(tree, "GridSampler", GRID_REL))
    defs: list[tuple[str, str, str, str, str]] = []
    # _grid_value_equal
    fn = ms.get("_grid_value_equal")
    try:
        if fn is None:
            raise Untranslatable("_grid_value_equal", "not found")
        _args(fn, ("staticmethod",))
        v = translate_value_equal(fn)
        info["methods"]["GridSampler._grid_value_equal"] = 1 + len(v["lets"])
        vtext = "{ lets := [%s],\n    ret := %s }" % (", ".join("(%s, %s)" % (r(Lit(x)), r(e)) for x, e in v["lets"]), r(v["ret"]))
        vcomment = "lines %d-%d" % (fn.lineno, fn.end_lineno or fn.lineno)
    except Untranslatable as ex:
        problems.append({"what": "GridSampler._grid_value_equal", "why": str(ex)})
        info["methods"]["GridSampler._grid_value_equal"] = None
        vtext = '{ lets := [], ret := .var "untranslatable" }'
        vcomment = "UNTRANSLATABLE: %s" % str(ex).replace("-/", "- /")
    for py, lean, want, deco in GRID_METHODS:
        fn = ms.get(py)
        try:
            if fn is None:
                raise Untranslatable(py, "not found")
            args = _args(fn, deco)
            if args != want:
                raise U(fn, "parameters %s, expected %s" % (args, want))
            ir = GridCtx(py, want).block(fn.body)
            info["methods"]["GridSampler." + py] = count_nodes(ir)
            defs.append((lean, "GStmt", "GridSampler." + py, r(ir), "lines %d-%d" % (fn.lineno, fn.end_lineno or fn.lineno)))
        except Untranslatable as ex:
            problems.append({"what": "GridSampler." + py, "why": str(ex)})
            info["methods"]["GridSampler." + py] = None
            defs.append((lean, "GStmt", "GridSampler." + py, STUB, "UNTRANSLATABLE: %s" % str(ex).replace("-/", "- /")))
    # __init__: self._n_min_trials = len(self._all_grids), and _all_grids is not changed in length afterwards
    init = ms.get("__init__")
    nmin = False
    if init is not None:
        sts = [s for s in ast.walk(init) if isinstance(s, ast.Assign) and len(s.targets) == 1 and is_src(s.targets[0], "self._n_min_trials")]
        nmin = len(sts) == 1 and is_src(sts[0].value, "len(self._all_grids)")
    others = [s for name, f in ms.items() if name != "__init__" for s in ast.walk(f)
              if isinstance(s, (ast.Assign, ast.AugAssign)) and any(is_src(t, "self._n_min_trials") or is_src(t, "self._all_grids")
                                                                    for t in (s.targets if isinstance(s, ast.Assign) else [s.target]))]
    if others:
        nmin = False
    if not nmin:
        problems.append({"what": "GridSampler.__init__", "why": "`self._n_min_trials = len(self._all_grids)` not found (or the two are reassigned elsewhere)"})
    info["nMinIsLenAllGrids"] = nmin
    # __init__: the shuffle of _all_grids is seeded with `seed or 0` (never with OS entropy)
    fixed = False
    if init is not None:
        rngs = [s for s in ast.walk(init) if isinstance(s, ast.Assign) and len(s.targets) == 1 and is_src(s.targets[0], "self._rng")]
        shuf = [s for s in ast.walk(init) if isinstance(s, ast.Expr) and is_src(s.value, "self._rng.rng.shuffle(self._all_grids)")]
        fixed = len(rngs) == 1 and is_src(rngs[0].value, "LazyRandomState(seed or 0)") and len(shuf) == 1
    if not fixed:
        problems.append({"what": "GridSampler.__init__", "why": "`self._rng = LazyRandomState(seed or 0)` + `self._rng.rng.shuffle(self._all_grids)` not found: "
                                                                 "the order of the cells may differ between two sampler objects"})
    info["shuffleSeedFixed"] = fixed
    L = ["import OptunaVerif.Model.SamplerIR",
         "/-! GENERATED by verif/translators/tbrute.py from %s on every check run - do not edit. -/" % GRID_REL,
         "namespace OptunaVerif.Generated.GridMethods",
         "open OptunaVerif OptunaVerif.SamplerIR", ""]
    L.append("/-- `GridSampler._grid_value_equal` (%s) -/" % vcomment)
    L.append("def gridValueEqual : VEqIR :=\n  %s\n" % vtext)
    for lean, ty, py, text, comment in defs:
        L.append("/-- `%s` (%s) -/" % (py, comment))
        L.append("def %s : %s :=\n  %s\n" % (lean, ty, text))
    L.append("/-- the `GridSampler` methods -/")
    L.append("def gridProg : GridProg :=\n  { gridValueEqual := gridValueEqual, sameSearchSpace := sameSearchSpace,\n"
             "    getUnvisitedGridIds := getUnvisitedGridIds, beforeTrial := beforeTrial, afterTrial := afterTrial,\n"
             "    nMinIsLenAllGrids := %s, shuffleSeedFixed := %s }\n" % (r(Lit(nmin)), r(Lit(fixed))))
    L.append("end OptunaVerif.Generated.GridMethods")
    return "\n".join(L) + "\n", info, problems


if __name__ == "__main__":
    import sys

    repo = sys.argv[1] if len(sys.argv) > 1 else "/repo"
    for f in (translate_bruteforce, translate_grid):
        text, info, problems = f(repo)
        print(text)
        for p in problems:
            print("-- PROBLEM", p, file=sys.stderr)
