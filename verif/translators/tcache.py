"""T-cache (C08): the two client-side trial caches -> Lean DATA (lean/OptunaVerif/Generated/CacheMethods.lean).

Read with Python `ast` on every run:

  optuna/storages/_cached_storage.py   every method of `_CachedStorage` (except __init__/__getstate__/__setstate__)
  optuna/storages/_rdb/storage.py      `RDBStorage._get_trials`
  optuna/storages/_grpc/client.py      `GrpcClientCache.get_all_trials / delete_study_cache / _read_trials_from_remote_storage /
                                       _add_trial_to_cache`, `GrpcStorageProxy.get_all_trials / get_trial / delete_study`
  optuna/storages/_grpc/servicer.py    `OptunaStorageProxyService.GetTrials`

Every body becomes a value of `CacheIR.Stmt` (Model/CacheIR.lean): generic control flow (if/elif/else, raise, bare raise,
return incl. `return a if c else b`, continue/break, try/except with the classes named, for, `with <lock>:`, calls of helper
methods of the same class with the callee's generated body inlined) over PRIMITIVES, each of which stands for ONE whitelisted
source shape (tables below, matched on the `ast` dump, variable names included).  A statement `self._backend.<m>(...)` is
a pass-through only if it hands over exactly the method's own parameters.  Anything else raises `Untranslatable`; the method
is then emitted as the stub `(.act .rpc)` run where no RPC is defined — which every machine answers with `unrep` — so its
equality theorem in Props/C08Gen fails as well, and `regenerate` reports chk.broke("translation", ...).
"""
from __future__ import annotations

import ast
import os
import re
from typing import Any

TSTATE = {"RUNNING": "running", "COMPLETE": "complete", "PRUNED": "pruned", "FAIL": "fail", "WAITING": "waiting"}
CLS = {"BaseException": "baseException", "Exception": "exception", "KeyError": "keyError", "LookupError": "lookupError",
       "ValueError": "valueError", "RuntimeError": "runtimeError", "grpc.RpcError": "rpcError",
       "sqlalchemy_exc.OperationalError": "operationalError"}
BACKEND = {"create_new_study": "createNewStudy", "delete_study": "deleteStudy", "set_study_user_attr": "setStudyUserAttr",
           "set_study_system_attr": "setStudySystemAttr", "get_study_id_from_name": "getStudyIdFromName",
           "get_study_name_from_id": "getStudyNameFromId", "get_study_directions": "getStudyDirections",
           "get_study_user_attrs": "getStudyUserAttrs", "get_study_system_attrs": "getStudySystemAttrs",
           "get_all_studies": "getAllStudies", "_create_new_trial": "createNewTrial", "set_trial_param": "setTrialParam",
           "get_trial_id_from_study_id_trial_number": "getTrialIdFromStudyIdTrialNumber", "get_best_trial": "getBestTrial",
           "set_trial_state_values": "setTrialStateValues", "set_trial_intermediate_value": "setTrialIntermediateValue",
           "set_trial_user_attr": "setTrialUserAttr", "set_trial_system_attr": "setTrialSystemAttr", "get_trial": "getTrial"}
# backend method a public method may forward to (same name unless listed)
FORWARDS = {"create_new_trial": "_create_new_trial"}
STUB = "(.act .rpc)"


class Untranslatable(Exception):
    def __init__(self, where: str, why: str) -> None:
        super().__init__("%s: %s" % (where, why))
        self.where = where
        self.why = why


def U(node: ast.AST, why: str) -> Untranslatable:
    try:
        txt = ast.unparse(node)
    except Exception:  # noqa: BLE001
        txt = repr(node)
    return Untranslatable("line %s `%s`" % (getattr(node, "lineno", "?"), " ".join(txt.split())[:140]), why)


def norm(n: "ast.AST | str") -> str:
    if isinstance(n, str):
        n = ast.parse(n).body[0]
    if isinstance(n, ast.Expr):
        n = n.value
    return ast.dump(n, annotate_fields=False, include_attributes=False).replace("Store()", "Load()").replace("Del()", "Load()")


def norm_stmt(text: str) -> str:
    return ast.dump(ast.parse(text).body[0], annotate_fields=False, include_attributes=False).replace("Store()", "Load()").replace("Del()", "Load()")


def nstmt(st: ast.stmt) -> str:
    return norm_stmt(ast.unparse(st))


def is_src(n: ast.AST, text: str) -> bool:
    return norm(n) == norm(text)


COND = {
    "study_id in self._studies": "studyIdInStudies", "study_id in self.studies": "studyIdInStudies",
    "frozen_trial.state.is_finished()": "frozenFinished",
    "key in self._study_id_and_number_to_trial_id": "keyInSn2id",
    "(study_id, trial_number) in self._study_id_and_number_to_trial_id": "keyInSn2id",
    "trial_id in self._trial_id_to_study_id_and_number": "tidInId2sn",
    "trial_id in study.unfinished_trial_ids": "tidInUnfinished",
    "deepcopy": "deepcopy", "trials": "trialsTruthy", "res.trials": "resTrialsTruthy",
    "trial.state.is_finished()": "trialFinished",
    "trial._trial_id in study.unfinished_trial_ids": "trialInUnfinished",
    "e.code() == grpc.StatusCode.NOT_FOUND": "rpcNotFound",
    "len(included_trial_ids) > 0": "includedNonEmpty", "trial_id_greater_than > -1": "greaterThanSet",
    "len(trials) == 0": "trialsLenZero", "trials[-1]._trial_id <= trial_id_greater_than": "lastIdLeGreaterThan",
}
NONE_TESTS = {"name": "nameIsNone", "directions": "directionsIsNone", "trial": "trialIsNone", "states": "statesIsNone"}
ASSIGN = {
    "study = _StudyInfo()": "newStudyInfo", "study.name = study_name": "freshSetName",
    "study.directions = list(directions)": "freshSetDirs", "self._studies[study_id] = study": "storeFresh",
    "self._studies[study_id] = _StudyInfo()": "initStudyInfo", "self.studies[study_id] = GrpcClientCacheEntry()": "initStudyInfo",
    "study = self._studies[study_id]": "aliasStudy", "study = self.studies[study_id]": "aliasStudy",
    "name = self._studies[study_id].name": "loadCachedName", "directions = self._studies[study_id].directions": "loadCachedDirs",
    "self._studies[study_id].name = name": "storeName", "self._studies[study_id].directions = directions": "storeDirs",
    "trial_id = self._study_id_and_number_to_trial_id.get((study_id, trial_number))": "lookupIdOpt",
    "trial_id = frozen_trial._trial_id": "tidFromFrozen", "key = (study_id, trial_number)": "makeKey",
    "study_id, number = self._trial_id_to_study_id_and_number[trial_id]": "unpackId2sn",
    "trials = {number: t for number, t in study.trials.items() if t.state in states}": "selectByStates",
    "trials = study.trials": "selectAll",
    "trials = list(sorted(trials.values(), key=lambda t: t.number))": "sortByNumber",
    "trials = [t for t in study.trials.values() if t.state in states]": "listByStates",
    "trials = list(study.trials.values())": "listAll",
    "trials = self._backend._get_trials(study_id, states=None, included_trial_ids=study.unfinished_trial_ids, trial_id_greater_than=study.last_finished_trial_id)": ("backendGetTrials", True),
    "trials = self._backend._get_trials(study_id, states=states, included_trial_ids=study.unfinished_trial_ids, trial_id_greater_than=study.last_finished_trial_id)": ("backendGetTrials", False),
    "self._trial_id_to_study_id_and_number[trial._trial_id] = (study_id, trial.number)": "setId2sn",
    "self._study_id_and_number_to_trial_id[study_id, trial.number] = trial._trial_id": "setSn2id",
    "study.trials[trial.number] = trial": "setEntryTrial",
    "study.last_finished_trial_id = max(study.last_finished_trial_id, trial._trial_id)": "watermarkMaxTrial",
    "study.last_finished_trial_id = max(study.last_finished_trial_id, trial_id)": "watermarkMaxTid",
    "req = api_pb2.GetTrialsRequest(study_id=study_id, included_trial_ids=study.unfinished_trial_ids, trial_id_greater_than=study.last_finished_trial_id)": "makeGetTrialsRequest",
    "res = self.grpc_client.GetTrials(req)": "rpcGetTrials",
    "trial = grpc_servicer._from_proto_trial(trial_proto)": "decodeTrial",
    "trials = self._cache.get_all_trials(study_id, states)": "cacheGetAllTrials",
    "included_trial_ids = set((trial_id for trial_id in included_trial_ids if trial_id <= trial_id_greater_than))": "cutIncluded",
    "query = query.filter(models.TrialModel.state.in_(states))": "filterStates",
    "_query = query.filter(sqlalchemy.or_(models.TrialModel.trial_id.in_(included_trial_ids), models.TrialModel.trial_id > trial_id_greater_than))": "queryInOrGreater",
    "_query = query.filter(models.TrialModel.trial_id > trial_id_greater_than)": "queryGreater",
    "_query = query": "queryAll",
    "trial_models = _query.order_by(models.TrialModel.trial_id).all()": "runQuery",
    "trial_models = query.order_by(models.TrialModel.trial_id).all()": "runBaseQuery",
    "trial_models = [t for t in trial_models if t.trial_id in included_trial_ids or t.trial_id > trial_id_greater_than]": "pyFilter",
    "trial_models = [t for t in trial_models if t.trial_id > trial_id_greater_than or t.trial_id in included_trial_ids]": "pyFilter",
    "trials = [self._build_frozen_trial_from_trial_model(trial) for trial in trial_models]": "buildTrials",
    "study_id = request.study_id": "readRequest", "included_trial_ids = set(request.included_trial_ids)": "readRequest",
    "trial_id_greater_than = request.trial_id_greater_than": "readRequest",
    "trials = self._backend.get_all_trials(study_id, deepcopy=False)": "backendGetAllTrials",
    "filtered_trials = [_to_proto_trial(t) for t in trials if t._trial_id > trial_id_greater_than or t._trial_id in included_trial_ids]": "filterTrials",
    "filtered_trials = [_to_proto_trial(t) for t in trials if t._trial_id in included_trial_ids or t._trial_id > trial_id_greater_than]": "filterTrials",
}
# `<target> = self._backend.<pass-through>(…)`: the act that binds the answer
BIND_RESULT = {"study_id": "studyIdFromResult", "name": "nameFromResult", "directions": "dirsFromResult", "frozen_trial": "frozenFromResult"}
EXPR = {
    "study.unfinished_trial_ids.add(trial_id)": "unfinishedAddTid",
    "study.unfinished_trial_ids.add(trial._trial_id)": "unfinishedAddTrial",
    "study.unfinished_trial_ids.remove(trial._trial_id)": "unfinishedRemoveTrial",
    "study.unfinished_trial_ids.discard(trial._trial_id)": "unfinishedDiscardTrial",
    "self.studies.pop(study_id, None)": "popStudy",
    "self._cache.delete_study_cache(study_id)": "cacheDeleteStudy",
    "models.StudyModel.find_or_raise_by_id(study_id, session)": "ensureStudyExists",
    "context.abort(code=grpc.StatusCode.NOT_FOUND, details=str(e))": "abortNotFound",
}
DELETE = {
    "del self._trial_id_to_study_id_and_number[trial_id]": "delId2sn",
    "del self._study_id_and_number_to_trial_id[study_id, trial_number]": "delSn2id",
    "del self._studies[study_id]": "delStudy",
}
RETURN = {"study_id": "studyId", "trial_id": "trialId", "name": "name", "directions": "directions",
          "self._study_id_and_number_to_trial_id[key]": "sn2idAtKey", "trial": "trial", "study.trials[number]": "entryTrialAtNumber",
          "trials": "trials", "copy.deepcopy(trials)": "trials", "grpc_servicer._from_proto_trial(response.trial)": "rpcTrial",
          "api_pb2.GetTrialsReply(trials=filtered_trials)": "reply", "api_pb2.GetTrialsReply(trials=[])": "emptyReply"}
FOR = {("trial_number", "self._studies[study_id].trials"): "cachedNumbers", ("trial", "trials"): "trials",
       ("trial_proto", "res.trials"): "resTrials"}
WITH = {"self._lock": "locked", "self.lock": "locked"}
WITH_AS = {("_create_scoped_session(self.scoped_session)", "session"): "scoped"}
# helper calls: source -> (bind, callee python name)
CALLS = {
    "self._add_trials_to_cache(study_id, [frozen_trial])": ("studyIdFrozen", "_add_trials_to_cache"),
    "self._add_trials_to_cache(study_id, trials)": ("studyIdTrials", "_add_trials_to_cache"),
    "self._read_trials_from_remote_storage(study_id)": ("studyId", "_read_trials_from_remote_storage"),
    "self._read_trials_from_remote_storage(study_id, states)": ("studyIdStates", "_read_trials_from_remote_storage"),
    "self._get_cached_trial(trial_id)": ("trialId", "_get_cached_trial"),
    "self._add_trial_to_cache(study_id, trial)": ("studyIdTrial", "_add_trial_to_cache"),
}
CALL_TARGETS = {"trial": "trial"}
ASSERTS = ["isinstance(states, Iterable)"]
PURE_CALLS = {"format", "str", "repr", "len"}

N = {k: {norm(x): v for x, v in t.items()} for k, t in (("cond", COND), ("none", NONE_TESTS), ("expr", EXPR), ("ret", RETURN), ("call", CALLS))}
N_ASSIGN = {norm_stmt(k): v for k, v in ASSIGN.items()}
N_DELETE = {norm_stmt(k): v for k, v in DELETE.items()}
N_FOR = {(norm(a), norm(b)): v for (a, b), v in FOR.items()}
N_WITH = {norm(k): v for k, v in WITH.items()}
N_WITH_AS = {(norm(a), b): v for (a, b), v in WITH_AS.items()}


def trial_state(n: ast.AST) -> str | None:
    if isinstance(n, ast.Attribute) and isinstance(n.value, ast.Name) and n.value.id == "TrialState" and n.attr in TSTATE:
        return TSTATE[n.attr]
    return None


def pure_message(n: ast.AST) -> bool:
    for x in ast.walk(n):
        if isinstance(x, ast.Call):
            f = x.func
            name = f.id if isinstance(f, ast.Name) else f.attr if isinstance(f, ast.Attribute) else None
            if name not in PURE_CALLS:
                return False
    return True


def camel(name: str) -> str:
    parts = name.strip("_").split("_")
    return parts[0] + "".join(p.capitalize() for p in parts[1:])


class Ctx:
    def __init__(self, fn: ast.FunctionDef, callee_names: dict[str, str]) -> None:
        self.fn = fn
        self.params = [a.arg for a in fn.args.args if a.arg != "self"]
        self.callee_names = callee_names     # python helper name -> Lean def name (already emitted)
        self.exc_names: list[str] = []

    # ---- a call that hands over exactly this method's own parameters -------------------------------------------------
    def own_args(self, c: ast.Call) -> bool:
        seen: list[str] = []
        for i, a in enumerate(c.args):
            if not (isinstance(a, ast.Name) and i < len(self.params) and a.id == self.params[i]):
                return False
            seen.append(a.id)
        for kw in c.keywords:
            if kw.arg is None or not (isinstance(kw.value, ast.Name) and kw.value.id == kw.arg) or kw.arg in seen:
                return False
            seen.append(kw.arg)
        return sorted(seen) == sorted(self.params)

    def backend_call(self, v: ast.AST) -> Any:
        """`self._backend.<m>(<own parameters>)` -> ("act", ("backend", m))"""
        if not (isinstance(v, ast.Call) and isinstance(v.func, ast.Attribute) and is_src(v.func.value, "self._backend")):
            return None
        m = v.func.attr
        if not self.own_args(v):
            raise U(v, "a backend call must hand over exactly the method's own parameters")
        want = FORWARDS.get(self.fn.name, self.fn.name)
        if m != want:
            raise U(v, "method %s forwards to backend.%s (expected backend.%s)" % (self.fn.name, m, want))
        if m in BACKEND:
            return ("act", ("backend", BACKEND[m]))
        return ("act", ("backendOther", m))

    # ---- conditions ----------------------------------------------------------------------------------------------------
    def cond(self, n: ast.AST) -> Any:
        if isinstance(n, ast.Constant) and n.value is True:
            return "tt"
        if isinstance(n, ast.Constant) and n.value is False:
            return "ff"
        if isinstance(n, ast.UnaryOp) and isinstance(n.op, ast.Not):
            return ("not", self.cond(n.operand))
        if isinstance(n, ast.BoolOp):
            op = "and" if isinstance(n.op, ast.And) else "or"
            out = self.cond(n.values[-1])
            for v in reversed(n.values[:-1]):
                out = (op, self.cond(v), out)
            return out
        k = norm(n)
        if k in N["cond"]:
            return ("prim", N["cond"][k])
        if isinstance(n, ast.Compare) and len(n.ops) == 1:
            a, op, b = n.left, n.ops[0], n.comparators[0]
            if isinstance(op, (ast.Is, ast.IsNot)) and isinstance(b, ast.Constant) and b.value is None and norm(a) in N["none"]:
                c = ("prim", N["none"][norm(a)])
                return c if isinstance(op, ast.Is) else ("not", c)
            if isinstance(op, (ast.NotIn, ast.In)):
                pos = ast.Compare(left=a, ops=[ast.In()], comparators=[b])
                kk = norm(pos)
                if kk in N["cond"]:
                    c = ("prim", N["cond"][kk])
                    return c if isinstance(op, ast.In) else ("not", c)
            if isinstance(op, (ast.Eq, ast.NotEq)) and is_src(a, "trial.state") and trial_state(b) is not None:
                c = ("prim", ("trialStateIs", trial_state(b)))
                return c if isinstance(op, ast.Eq) else ("not", c)
        raise U(n, "condition is not whitelisted")

    # ---- statements ----------------------------------------------------------------------------------------------------
    def block(self, body: list[ast.stmt]) -> list[Any]:
        out: list[Any] = []
        for st in body:
            out += self.stmt(st)
        return out

    def ret_expr(self, st: ast.stmt, v: ast.AST | None) -> list[Any]:
        if v is None or (isinstance(v, ast.Constant) and v.value is None):
            return [("ret", "none")]
        if isinstance(v, ast.IfExp):
            return [("ite", self.cond(v.test), self.ret_expr(st, v.body), self.ret_expr(st, v.orelse))]
        k = norm(v)
        if k in N["ret"]:
            return [("ret", N["ret"][k])]
        b = self.backend_call(v)
        if b is not None:
            return [b, ("ret", "backendResult")]
        raise U(st, "return value is not whitelisted")

    def stmt(self, st: ast.stmt) -> list[Any]:
        if isinstance(st, ast.Pass):
            return []
        if isinstance(st, ast.Expr) and isinstance(st.value, ast.Constant) and isinstance(st.value.value, str):
            return []
        if isinstance(st, ast.AnnAssign) and st.value is None:
            return []
        if isinstance(st, ast.Break):
            return ["brk"]
        if isinstance(st, ast.Continue):
            return ["cont"]
        if isinstance(st, ast.Return):
            return self.ret_expr(st, st.value)
        if isinstance(st, ast.Raise):
            if st.exc is None:
                return ["reraise"]
            if st.cause is not None and not (isinstance(st.cause, ast.Name) and self.exc_names and st.cause.id == self.exc_names[-1]):
                raise U(st, "raise ... from <something that is not the exception being handled>")
            if is_src(st.exc, "KeyError") or (isinstance(st.exc, ast.Call) and is_src(st.exc.func, "KeyError") and all(pure_message(a) for a in st.exc.args)):
                return [("raise", "keyError")]
            raise U(st, "only `raise` and `raise KeyError[(...)] [from e]`")
        if isinstance(st, ast.Assert):
            if any(is_src(st.test, a) for a in ASSERTS):
                return []
            raise U(st, "assertion is not one of the whitelisted (assumed true) ones")
        if isinstance(st, ast.If):
            return [("ite", self.cond(st.test), self.block(st.body), self.block(st.orelse))]
        if isinstance(st, ast.For):
            key = (norm(st.target), norm(st.iter))
            if st.orelse or key not in N_FOR:
                raise U(st, "for loop header is not whitelisted")
            return [("forIn", N_FOR[key], self.block(st.body))]
        if isinstance(st, ast.With):
            if len(st.items) != 1:
                raise U(st, "with statement is not whitelisted")
            it = st.items[0]
            if it.optional_vars is None and norm(it.context_expr) in N_WITH:
                return [(N_WITH[norm(it.context_expr)], self.block(st.body))]
            if isinstance(it.optional_vars, ast.Name) and (norm(it.context_expr), it.optional_vars.id) in N_WITH_AS:
                return [(N_WITH_AS[(norm(it.context_expr), it.optional_vars.id)], self.block(st.body))]
            raise U(st, "with statement is not whitelisted")
        if isinstance(st, ast.Try):
            return [self.try_stmt(st)]
        if isinstance(st, ast.Delete):
            k = nstmt(st)
            if k in N_DELETE:
                return [("act", N_DELETE[k])]
            raise U(st, "del is not whitelisted")
        if isinstance(st, (ast.Assign, ast.AnnAssign)):
            tgts = st.targets if isinstance(st, ast.Assign) else [st.target]
            if len(tgts) != 1 or st.value is None:
                raise U(st, "assignment shape")
            return self.assign(st, tgts[0], st.value)
        if isinstance(st, ast.Expr):
            return self.expr(st)
        raise U(st, "statement shape is not whitelisted")

    def rpc_names(self) -> tuple[str, str]:
        cam = "".join(p.capitalize() for p in self.fn.name.split("_"))
        return cam, cam + "Request"

    def assign(self, st: ast.stmt, tgt: ast.AST, v: ast.AST) -> list[Any]:
        k = norm_stmt("%s = %s" % (ast.unparse(tgt), ast.unparse(v)))
        if k in N_ASSIGN:
            return [("act", N_ASSIGN[k])]
        if norm(v) in N["call"] and isinstance(tgt, ast.Name) and tgt.id in CALL_TARGETS:
            bind, callee = N["call"][norm(v)]
            return [self.call(st, bind, CALL_TARGETS[tgt.id], callee)]
        if isinstance(tgt, ast.Name) and tgt.id in BIND_RESULT:
            b = self.backend_call(v)
            if b is not None:
                return [b, ("act", BIND_RESULT[tgt.id])]
        # query = session.query(models.TrialModel).options(...)....filter(models.TrialModel.study_id == study_id)
        if is_src(tgt, "query") and isinstance(v, ast.Call) and isinstance(v.func, ast.Attribute) and v.func.attr == "filter" \
                and len(v.args) == 1 and not v.keywords and is_src(v.args[0], "models.TrialModel.study_id == study_id"):
            cur: ast.AST = v.func.value
            while isinstance(cur, ast.Call) and isinstance(cur.func, ast.Attribute) and cur.func.attr == "options" and len(cur.args) == 1 \
                    and isinstance(cur.args[0], ast.Call) and is_src(cur.args[0].func, "sqlalchemy_orm.selectinload"):
                cur = cur.func.value
            if is_src(cur, "session.query(models.TrialModel)"):
                return [("act", "baseQuery")]
        # request = api_pb2.<Method>Request(<own parameters as keywords>);  response = self._stub.<Method>(request)
        rpc, req = self.rpc_names()
        if is_src(tgt, "request") and isinstance(v, ast.Call) and is_src(v.func, "api_pb2." + req) and not v.args and self.own_args(v):
            return [("act", "makeRequest")]
        if is_src(tgt, "response") and is_src(v, "self._stub.%s(request)" % rpc):
            return [("act", "rpc")]
        raise U(st, "assignment is not one of the whitelisted ones")

    def call(self, st: ast.stmt, bind: str, target: str, callee: str) -> Any:
        if callee not in self.callee_names:
            raise U(st, "helper %s is not translated (yet)" % callee)
        return ("call", bind, target, self.callee_names[callee])

    def expr(self, st: ast.Expr) -> list[Any]:
        v = st.value
        k = norm(v)
        if k in N["expr"]:
            return [("act", N["expr"][k])]
        if k in N["call"]:
            bind, callee = N["call"][k]
            return [self.call(st, bind, "drop", callee)]
        b = self.backend_call(v)
        if b is not None:
            return [b]
        rpc, _ = self.rpc_names()
        if is_src(v, "self._stub.%s(request)" % rpc):
            return [("act", "rpc")]
        if isinstance(v, ast.Call) and ast.unparse(v.func) == "_logger.warning" and all(pure_message(a) for a in v.args):
            return [("act", "logWarning")]
        raise U(st, "expression statement is not whitelisted")

    def try_stmt(self, st: ast.Try) -> Any:
        if st.finalbody:
            raise U(st, "try/finally")
        if not st.handlers:
            raise U(st, "try without except")
        body = self.block(st.body)
        chain: Any = ["reraise"]
        built = []
        for h in st.handlers:
            t = h.type
            if t is None:
                classes = ["baseException"]
            else:
                elts = t.elts if isinstance(t, ast.Tuple) else [t]
                classes = []
                for e in elts:
                    nm = ast.unparse(e)
                    if nm not in CLS:
                        raise U(h, "exception class is not in the class table")
                    classes.append(CLS[nm])
            self.exc_names.append(h.name or "")
            try:
                hb = self.block(h.body)
            finally:
                self.exc_names.pop()
            built.append((classes, hb))
        for classes, hb in reversed(built):
            chain = [("onExc", classes, hb, chain)]
        return ("tryExcept", body, chain, self.block(st.orelse))


# ---- rendering --------------------------------------------------------------------------------------------------------
def r_bool(b: bool) -> str:
    return "true" if b else "false"


def r_cond(c: Any) -> str:
    if isinstance(c, str):
        return "." + c
    if c[0] == "prim":
        p = c[1]
        return "(.prim %s)" % ("." + p if isinstance(p, str) else "(.%s .%s)" % p)
    if c[0] == "not":
        return "(.not %s)" % r_cond(c[1])
    return "(.%s %s %s)" % (c[0], r_cond(c[1]), r_cond(c[2]))


def r_act(a: Any) -> str:
    if isinstance(a, str):
        return "." + a
    if a[0] == "backend":
        return "(.backend .%s)" % a[1]
    if a[0] == "backendOther":
        return '(.backend (.other "%s"))' % a[1]
    if a[0] == "backendGetTrials":
        return "(.backendGetTrials %s)" % r_bool(a[1])
    raise AssertionError(a)


def r_block(b: list[Any], ind: int) -> str:
    if not b:
        return ".skip"
    if len(b) == 1:
        return r_stmt(b[0], ind)
    pad = " " * (ind + 2)
    return "(block [\n" + ",\n".join(pad + r_stmt(s, ind + 2) for s in b) + "])"


def r_stmt(s: Any, ind: int) -> str:
    if isinstance(s, str):
        return "." + s
    k = s[0]
    if k == "ret":
        return "(.ret .%s)" % s[1]
    if k == "raise":
        return "(.raise .%s)" % s[1]
    if k == "act":
        return "(.act %s)" % r_act(s[1])
    if k == "ite":
        return "(.ite %s %s %s)" % (r_cond(s[1]), r_block(s[2], ind + 2), r_block(s[3], ind + 2))
    if k == "forIn":
        return "(.forIn .%s %s)" % (s[1], r_block(s[2], ind + 2))
    if k in ("locked", "scoped"):
        return "(.%s %s)" % (k, r_block(s[1], ind + 2))
    if k == "tryExcept":
        return "(.tryExcept %s %s %s)" % (r_block(s[1], ind + 2), r_block(s[2], ind + 2), r_block(s[3], ind + 2))
    if k == "onExc":
        return "(.onExc [%s] %s %s)" % (", ".join("." + c for c in s[1]), r_block(s[2], ind + 2), r_block(s[3], ind + 2))
    if k == "call":
        return "(.call .%s .%s %s)" % (s[1], s[2], s[3])
    raise AssertionError(s)


def count(ir: Any) -> int:
    if isinstance(ir, list):
        return sum(count(x) for x in ir)
    if isinstance(ir, tuple) and ir and ir[0] in ("ite", "forIn", "locked", "scoped", "tryExcept", "onExc"):
        return 1 + sum(count(x) for x in ir[1:] if isinstance(x, list))
    return 1


# ---- whole file -------------------------------------------------------------------------------------------------------
def class_methods(tree: ast.Module, cls: str) -> dict[str, ast.FunctionDef]:
    c = next((n for n in tree.body if isinstance(n, ast.ClassDef) and n.name == cls), None)
    if c is None:
        raise Untranslatable(cls, "class not found")
    return {n.name: n for n in c.body if isinstance(n, ast.FunctionDef)}


SKIP_CACHED = {"__init__", "__getstate__", "__setstate__"}
HELPERS_CACHED = ["_add_trials_to_cache", "_get_cached_trial", "_read_trials_from_remote_storage"]
# (file, class, python method, lean name, Program field)
OTHERS = [
    ("optuna/storages/_rdb/storage.py", "RDBStorage", "_get_trials", "rdbGetTrials", "rdbGetTrials"),
    ("optuna/storages/_grpc/servicer.py", "OptunaStorageProxyService", "GetTrials", "servicerGetTrials", "servicerGetTrials"),
    ("optuna/storages/_grpc/client.py", "GrpcClientCache", "_add_trial_to_cache", "cacheAddTrialToCache", None),
    ("optuna/storages/_grpc/client.py", "GrpcClientCache", "_read_trials_from_remote_storage", "cacheReadTrialsFromRemoteStorage", None),
    ("optuna/storages/_grpc/client.py", "GrpcClientCache", "get_all_trials", "cacheGetAllTrials", "cacheGetAllTrials"),
    ("optuna/storages/_grpc/client.py", "GrpcClientCache", "delete_study_cache", "cacheDeleteStudyCache", "cacheDeleteStudyCache"),
    ("optuna/storages/_grpc/client.py", "GrpcStorageProxy", "get_all_trials", "proxyGetAllTrials", "proxyGetAllTrials"),
    ("optuna/storages/_grpc/client.py", "GrpcStorageProxy", "get_trial", "proxyGetTrial", "proxyGetTrial"),
    ("optuna/storages/_grpc/client.py", "GrpcStorageProxy", "delete_study", "proxyDeleteStudy", "proxyDeleteStudy"),
]
SIGNATURES = {
    ("RDBStorage", "_get_trials"): ["self", "study_id", "states", "included_trial_ids", "trial_id_greater_than"],
    ("OptunaStorageProxyService", "GetTrials"): ["self", "request", "context"],
    ("GrpcClientCache", "_add_trial_to_cache"): ["self", "study_id", "trial"],
    ("GrpcClientCache", "_read_trials_from_remote_storage"): ["self", "study_id"],
    ("GrpcClientCache", "get_all_trials"): ["self", "study_id", "states"],
    ("GrpcClientCache", "delete_study_cache"): ["self", "study_id"],
    ("GrpcStorageProxy", "get_all_trials"): ["self", "study_id", "deepcopy", "states"],
    ("GrpcStorageProxy", "get_trial"): ["self", "trial_id"],
    ("GrpcStorageProxy", "delete_study"): ["self", "study_id"],
    ("_CachedStorage", "_add_trials_to_cache"): ["self", "study_id", "trials"],
    ("_CachedStorage", "_get_cached_trial"): ["self", "trial_id"],
    ("_CachedStorage", "get_all_trials"): ["self", "study_id", "deepcopy", "states"],
    ("_CachedStorage", "create_new_trial"): ["self", "study_id", "template_trial"],
    ("_CachedStorage", "get_trial"): ["self", "trial_id"],
    ("_CachedStorage", "delete_study"): ["self", "study_id"],
    ("_CachedStorage", "get_trial_id_from_study_id_trial_number"): ["self", "study_id", "trial_number"],
    ("_CachedStorage", "create_new_study"): ["self", "directions", "study_name"],
}
READ_REQUEST = 3   # the three statements that unpack the GetTrials request


def translate(repo: str) -> tuple[str, dict[str, Any], list[dict[str, str]]]:
    problems: list[dict[str, str]] = []
    info: dict[str, Any] = {"methods": {}}
    defs: list[tuple[str, str, str, str]] = []
    trees: dict[str, ast.Module] = {}

    def tree_of(rel: str) -> ast.Module:
        if rel not in trees:
            trees[rel] = ast.parse(open(os.path.join(repo, rel)).read())
        return trees[rel]

    def one(rel: str, cls: str, py: str, lean: str, fns: dict[str, ast.FunctionDef], callee_names: dict[str, str]) -> bool:
        label = "%s.%s" % (cls, py)
        try:
            fn = fns.get(py)
            if fn is None:
                raise Untranslatable(label, "method not found")
            if fn.decorator_list:
                raise U(fn, "decorated")
            a = fn.args
            if a.vararg or a.kwarg or a.kwonlyargs or a.posonlyargs:
                raise U(fn, "unexpected parameter list")
            want = SIGNATURES.get((cls, py))
            if want is not None and [x.arg for x in a.args] != want:
                raise U(fn, "parameters %s, expected %s" % ([x.arg for x in a.args], want))
            ir = Ctx(fn, callee_names).block(fn.body)
            if (cls, py) == ("OptunaStorageProxyService", "GetTrials"):
                n = sum(1 for s in ir if s == ("act", "readRequest"))
                if n != READ_REQUEST or ir[:READ_REQUEST] != [("act", "readRequest")] * READ_REQUEST:
                    raise U(fn, "the request must be unpacked by exactly the three whitelisted statements, first")
            info["methods"][label] = count(ir)
            defs.append((lean, label, r_block(ir, 2), "lines %d-%d" % (fn.lineno, fn.end_lineno or fn.lineno)))
            return True
        except (Untranslatable, OSError, SyntaxError) as e:
            problems.append({"what": label, "why": str(e)})
            info["methods"][label] = None
            defs.append((lean, label, STUB, "UNTRANSLATABLE: %s" % str(e).replace("-/", "- /")))
            return False

    # ---- _CachedStorage
    rel = "optuna/storages/_cached_storage.py"
    cached_names: list[tuple[str, str]] = []
    try:
        fns = class_methods(tree_of(rel), "_CachedStorage")
    except (Untranslatable, OSError, SyntaxError) as e:
        problems.append({"what": "_CachedStorage", "why": str(e)})
        fns = {}
    callee_names: dict[str, str] = {}
    order = [h for h in HELPERS_CACHED] + [m for m in fns if m not in SKIP_CACHED and m not in HELPERS_CACHED]
    for py in order:
        lean = camel(py)
        one(rel, "_CachedStorage", py, lean, fns, callee_names)
        callee_names[py] = lean     # a stub is referenced as well (its caller's equality then fails too)
        cached_names.append((py, lean))
    # ---- the others
    fields: dict[str, str] = {}
    grpc_callees: dict[str, str] = {}
    for rel2, cls, py, lean, field in OTHERS:
        try:
            fns2 = class_methods(tree_of(rel2), cls)
        except (Untranslatable, OSError, SyntaxError) as e:
            problems.append({"what": cls, "why": str(e)})
            fns2 = {}
        one(rel2, cls, py, lean, fns2, grpc_callees if cls == "GrpcClientCache" else {})
        if cls == "GrpcClientCache":
            grpc_callees[py] = lean
        if field:
            fields[field] = lean
    L = ["import OptunaVerif.Model.CacheIR",
         "/-! GENERATED by verif/translators/tcache.py from optuna/storages/_cached_storage.py, _rdb/storage.py, _grpc/client.py, _grpc/servicer.py on every check run - do not edit. -/",
         "namespace OptunaVerif.Generated.CacheMethods",
         "open OptunaVerif OptunaVerif.CacheIR", ""]
    for lean, label, text, comment in defs:
        L.append("/-- `%s` (%s) -/" % (label, comment))
        L.append("def %s : Stmt :=\n  %s\n" % (lean, text))
    L.append("def program : Program where")
    L.append("  cached := [%s]" % ",\n    ".join('("%s", %s)' % (py, lean) for py, lean in cached_names))
    for field in ["rdbGetTrials", "servicerGetTrials", "cacheGetAllTrials", "cacheDeleteStudyCache", "proxyGetAllTrials",
                  "proxyGetTrial", "proxyDeleteStudy"]:
        L.append("  %s := %s" % (field, fields.get(field, STUB)))
    L.append("")
    L.append("end OptunaVerif.Generated.CacheMethods")
    info["cached_methods"] = [py for py, _ in cached_names]
    return "\n".join(L) + "\n", info, problems


if __name__ == "__main__":
    import sys

    text, info, problems = translate(sys.argv[1] if len(sys.argv) > 1 else "/repo")
    print(text)
    for p in problems:
        print("-- PROBLEM", p, file=sys.stderr)
