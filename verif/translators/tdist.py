"""T-dist (C11): optuna/distributions.py -> Lean DATA (lean/OptunaVerif/Generated/DistMethods.lean).

Read with Python `ast` on every run: for FloatDistribution / IntDistribution / CategoricalDistribution `__init__`, `single`,
`_contains`, `to_internal_repr`, `to_external_repr` (BaseDistribution's for floats), BaseDistribution._asdict; for the five deprecated
subclasses `__init__` (the `super().__init__` forward) and `_asdict`; the module functions `_adjust_discrete_uniform_high`,
`_adjust_int_uniform_high`, `check_distribution_compatibility`, `_get_single_value`, `_convert_old_distribution_to_new_distribution`,
`_is_distribution_log`, `distribution_to_json`, `json_to_distribution`.  Each body becomes a value of `DistIR.Stmt`
(Model/DistIR.lean): generic control flow over expressions built from whitelisted leaves, each of which stands for ONE source shape.
Tables: `classTable` (DISTRIBUTION_CLASSES, in order), `signatures` (parameters and literal defaults of the eight `__init__`s).
Pinned texts (compared literally in Props/C11DistGen.lean `pinned_sources`): `BaseDistribution.__eq__`, `__hash__`, `__repr__`,
`CategoricalDistribution.__eq__`, `_categorical_choice_equal`, the class statement / decorators of the eight classes, the `q`
property of DiscreteUniformDistribution.
Anything else raises `Untranslatable`; the function is then emitted as the stub `(.assert .false_)` (its equality theorem fails as
well) and `regenerate` reports chk.broke("translation", ...).
"""
from __future__ import annotations

import ast
import os
from fractions import Fraction
from typing import Any

SRC = "optuna/distributions.py"
ERR = {"ValueError": "valueError", "TypeError": "typeError", "KeyError": "keyError"}
CLS = {"FloatDistribution": "(.flt .float)", "UniformDistribution": "(.flt .uniform)", "LogUniformDistribution": "(.flt .logUniform)",
       "DiscreteUniformDistribution": "(.flt .discreteUniform)", "IntDistribution": "(.int .int)",
       "IntUniformDistribution": "(.int .intUniform)", "IntLogUniformDistribution": "(.int .intLogUniform)",
       "CategoricalDistribution": ".cat"}
WARN_OF = [("is not divisible by `step`", "highAdjusted"), ("Choices for a categorical distribution should be", "unsupportedChoice"),
           ("is deprecated and internally converted", "converted")]
ATTRS = {"low", "high", "log", "step", "choices", "q"}
FN3 = {"_adjust_discrete_uniform_high": "adjustDiscreteHigh", "_adjust_int_uniform_high": "adjustIntHigh"}
METHOD0 = {"single": "single", "_asdict": "asdict"}
PURE_CALLS = {"format", "str", "repr", "len", "type"}
STUB = "(.assert .false_)"
UNSUPPORTED = "choice is not None and (not isinstance(choice, (bool, int, float, str)))"


class Untranslatable(Exception):
    pass


def U(node: ast.AST, why: str) -> Untranslatable:
    try:
        txt = " ".join(ast.unparse(node).split())[:140]
    except Exception:  # noqa: BLE001
        txt = repr(node)
    return Untranslatable("line %s `%s`: %s" % (getattr(node, "lineno", "?"), txt, why))


def lean_str(s: str) -> str:
    return '"' + s.replace("\\", "\\\\").replace('"', '\\"').replace("\n", "\\n") + '"'


def lean_rat(q: Fraction) -> str:
    return "(%d : Rat)" % q.numerator if q.denominator == 1 else "((%d : Rat) / %d)" % (q.numerator, q.denominator)


def is_name(n: ast.AST, name: str) -> bool:
    return isinstance(n, ast.Name) and n.id == name


def one_line(n: ast.AST) -> str:
    return " ".join(ast.unparse(n).split())


def pure_message(n: ast.AST) -> bool:
    for x in ast.walk(n):
        if isinstance(x, ast.Call):
            f = x.func
            name = f.id if isinstance(f, ast.Name) else f.attr if isinstance(f, ast.Attribute) else None
            if name not in PURE_CALLS:
                return False
        if isinstance(x, (ast.Lambda, ast.NamedExpr, ast.Await, ast.Yield, ast.YieldFrom, ast.ListComp, ast.DictComp, ast.SetComp,
                          ast.GeneratorExp)):
            return False
    return True


def const_text(n: ast.AST) -> str:
    return "".join(x.value for x in ast.walk(n) if isinstance(x, ast.Constant) and isinstance(x.value, str))


def is_message(n: ast.AST) -> bool:
    """a string-valued expression that only formats values"""
    if isinstance(n, ast.JoinedStr):
        return pure_message(n)
    if isinstance(n, ast.Call) and isinstance(n.func, ast.Attribute) and n.func.attr == "format" and const_text(n.func.value):
        return pure_message(n)
    if isinstance(n, ast.BinOp) and isinstance(n.op, ast.Add) and (const_text(n.left) or const_text(n.right)):
        return pure_message(n)
    return False


class Ctx:
    def __init__(self, sigs: dict[str, list[tuple[str, str | None]]]) -> None:
        self.sigs = sigs              # class name -> [(param, Lean text of default | None)]
        self.messages: dict[str, str] = {}

    # ---- expressions ------------------------------------------------------------------------------------------------
    def const(self, n: ast.Constant) -> str:
        v = n.value
        if v is None:
            return ".none_"
        if v is True:
            return ".true_"
        if v is False:
            return ".false_"
        if isinstance(v, int):
            return "(.intLit (%d))" % v
        if isinstance(v, float):
            return "(.fltLit %s)" % lean_rat(Fraction(repr(v)))
        if isinstance(v, str):
            return "(.strLit %s)" % lean_str(v)
        raise U(n, "constant")

    def ctor_args(self, n: ast.Call, cname: str, order: list[str]) -> list[str]:
        if any(isinstance(a, ast.Starred) for a in n.args) or any(kw.arg is None for kw in n.keywords):
            raise U(n, "*args / **kwargs")
        sig = self.sigs.get(cname)
        if sig is None:
            raise U(n, "no signature for %s" % cname)
        names = [p for p, _ in sig]
        got: dict[str, str] = {}
        if len(n.args) > len(names):
            raise U(n, "too many positional arguments")
        for p, a in zip(names, n.args):
            got[p] = self.expr(a)
        for kw in n.keywords:
            if kw.arg not in names or kw.arg in got:
                raise U(n, "unexpected / repeated keyword %s" % kw.arg)
            got[kw.arg] = self.expr(kw.value)
        out = []
        for p in order:
            if p in got:
                out.append(got[p])
            else:
                d = dict(sig).get(p)
                if d is None:
                    raise U(n, "argument %s of %s is missing and has no literal default" % (p, cname))
                out.append(d)
        if set(got) - set(order):
            raise U(n, "arguments %s" % sorted(set(got) - set(order)))
        return out

    def expr(self, n: ast.AST) -> str:
        E = self.expr
        if isinstance(n, ast.Constant):
            return self.const(n)
        if isinstance(n, ast.Name):
            if n.id == "self":
                return ".self_"
            if n.id in CLS:
                return "(.clsRef %s)" % CLS[n.id]
            if n.id == "DISTRIBUTION_CLASSES":
                return ".allClasses"
            return "(.var %s)" % lean_str(n.id)
        if isinstance(n, ast.Attribute):
            if n.attr == "__dict__":
                return "(.dictOf %s)" % E(n.value)
            if n.attr == "__class__":
                return "(.classOf %s)" % E(n.value)
            if n.attr == "__name__":
                return "(.className %s)" % E(n.value)
            if n.attr in ATTRS:
                return "(.attr %s %s)" % (E(n.value), lean_str(n.attr))
            raise U(n, "attribute is not whitelisted")
        if isinstance(n, ast.Subscript):
            return "(.index %s %s)" % (E(n.value), E(n.slice))
        if isinstance(n, ast.Tuple) and n.elts and all(isinstance(e, ast.Constant) and isinstance(e.value, str) for e in n.elts):
            return "(.strTuple [%s])" % ", ".join(lean_str(e.value) for e in n.elts)  # type: ignore[attr-defined]
        if isinstance(n, ast.Dict) and len(n.keys) == 2 and all(isinstance(k, ast.Constant) and isinstance(k.value, str) for k in n.keys):
            return "(.dictLit2 %s %s %s %s)" % (lean_str(n.keys[0].value), E(n.values[0]), lean_str(n.keys[1].value), E(n.values[1]))  # type: ignore[union-attr]
        if isinstance(n, ast.UnaryOp) and isinstance(n.op, ast.Not):
            return "(.not %s)" % E(n.operand)
        if isinstance(n, ast.BoolOp):
            if one_line(n) == one_line(ast.parse(UNSUPPORTED).body[0]):
                return "(.unsupportedChoice (.var \"choice\"))"
            op = "and" if isinstance(n.op, ast.And) else "or"
            out = E(n.values[-1])
            for v in reversed(n.values[:-1]):
                out = "(.%s %s %s)" % (op, E(v), out)
            return out
        if isinstance(n, ast.Compare):
            parts = []
            left = n.left
            for op, right in zip(n.ops, n.comparators):
                parts.append(self.compare(n, left, op, right))
                left = right
            out = parts[-1]
            for p in reversed(parts[:-1]):
                out = "(.and %s %s)" % (p, out)
            return out
        if isinstance(n, ast.BinOp):
            ops = {ast.Add: "add", ast.Sub: "sub", ast.Mult: "mul", ast.Div: "div", ast.FloorDiv: "floordiv", ast.Mod: "mod"}
            for k, v in ops.items():
                if isinstance(n.op, k):
                    return "(.%s %s %s)" % (v, E(n.left), E(n.right))
            raise U(n, "operator")
        if isinstance(n, ast.Call):
            return self.call(n)
        raise U(n, "expression shape is not whitelisted")

    def compare(self, n: ast.AST, a: ast.AST, op: ast.cmpop, b: ast.AST) -> str:
        E = self.expr
        table = {ast.Eq: ("eq", False, False), ast.NotEq: ("ne", False, False), ast.LtE: ("le", False, False), ast.Lt: ("lt", False, False),
                 ast.GtE: ("le", True, False), ast.Gt: ("lt", True, False), ast.Is: ("is_", False, False), ast.IsNot: ("is_", False, True),
                 ast.In: ("isIn", False, False), ast.NotIn: ("isIn", False, True)}
        for k, (ctor, swap, neg) in table.items():
            if isinstance(op, k):
                x, y = (E(b), E(a)) if swap else (E(a), E(b))
                c = "(.%s %s %s)" % (ctor, x, y)
                return "(.not %s)" % c if neg else c
        raise U(n, "comparison operator")

    def call(self, n: ast.Call) -> str:
        E = self.expr
        f = n.func
        plain = not n.keywords and not any(isinstance(a, ast.Starred) for a in n.args)
        if isinstance(f, ast.Name):
            one = {"abs": "abs", "round": "round", "float": "floatOf", "int": "intOf", "len": "len", "tuple": "tupleOf", "type": "classOf"}
            if f.id in one and plain and len(n.args) == 1:
                return "(.%s %s)" % (one[f.id], E(n.args[0]))
            if f.id == "isinstance" and plain and len(n.args) == 2:
                t = n.args[1]
                elts = t.elts if isinstance(t, ast.Tuple) else [t]
                if all(isinstance(e, ast.Name) and e.id in CLS for e in elts):
                    return "(.isinstance %s [%s])" % (E(n.args[0]), ", ".join(CLS[e.id] for e in elts))  # type: ignore[attr-defined]
                raise U(n, "isinstance against something else than distribution classes")
            if f.id in FN3 and plain and len(n.args) == 3:
                return "(.call3 .%s %s)" % (FN3[f.id], " ".join(E(a) for a in n.args))
            if f.id == "_categorical_choice_equal" and plain and len(n.args) == 2:
                return "(.call2 .choiceEqual %s %s)" % (E(n.args[0]), E(n.args[1]))
            if f.id == "CategoricalDistribution":
                return "(.constructCat %s)" % self.ctor_args(n, f.id, ["choices"])[0]
            if f.id in ("FloatDistribution", "IntDistribution"):
                return "(.construct %s %s)" % (CLS[f.id], " ".join(self.ctor_args(n, f.id, ["low", "high", "log", "step"])))
            if len(n.keywords) == 1 and n.keywords[0].arg is None and not n.args:
                return "(.constructKw %s %s)" % (E(f), E(n.keywords[0].value))
            raise U(n, "call of a name that is not whitelisted")
        if isinstance(f, ast.Attribute):
            if is_name(f.value, "np") and f.attr == "isnan" and plain and len(n.args) == 1:
                return "(.isnan %s)" % E(n.args[0])
            if is_name(f.value, "decimal") and f.attr == "Decimal" and plain and len(n.args) == 1:
                a = n.args[0]
                if isinstance(a, ast.Call) and is_name(a.func, "str") and len(a.args) == 1 and not a.keywords:
                    return "(.decimalOfStr %s)" % E(a.args[0])
                if isinstance(a, ast.Constant) and isinstance(a.value, str):
                    return "(.decLit %s)" % lean_rat(Fraction(a.value))
                raise U(n, "decimal.Decimal of something else than str(x) / a literal")
            if is_name(f.value, "copy") and f.attr == "deepcopy" and plain and len(n.args) == 1:
                return "(.deepcopy %s)" % E(n.args[0])
            if is_name(f.value, "json") and f.attr in ("loads", "dumps") and plain and len(n.args) == 1:
                return "(.json%s %s)" % (f.attr.capitalize(), E(n.args[0]))
            if plain:
                if f.attr in METHOD0 and not n.args:
                    return "(.call1 .%s %s)" % (METHOD0[f.attr], E(f.value))
                if f.attr == "get" and len(n.args) in (1, 2):
                    return "(.getD %s %s %s)" % (E(f.value), E(n.args[0]), E(n.args[1]) if len(n.args) == 2 else ".none_")
                if f.attr == "index" and len(n.args) == 1:
                    return "(.tupleIndex %s %s)" % (E(f.value), E(n.args[0]))
        raise U(n, "call is not whitelisted")

    # ---- statements -------------------------------------------------------------------------------------------------
    def block(self, body: list[ast.stmt]) -> list[str]:
        out: list[str] = []
        for st in body:
            out += self.stmt(st)
        return out

    def super_init(self, c: ast.Call, parent: str) -> str:
        return "(.superInit %s)" % " ".join(self.ctor_args(c, parent, ["low", "high", "log", "step"]))

    def stmt(self, st: ast.stmt) -> list[str]:
        if isinstance(st, ast.Pass):
            return []
        if isinstance(st, ast.Expr) and isinstance(st.value, ast.Constant) and isinstance(st.value.value, str):
            return []
        if isinstance(st, ast.AnnAssign) and st.value is None:
            return []
        if isinstance(st, ast.Return):
            return ["(.ret %s)" % (".none_" if st.value is None else self.expr(st.value))]
        if isinstance(st, ast.Raise):
            e = st.exc
            if isinstance(e, ast.Call) and isinstance(e.func, ast.Name) and e.func.id in ERR and not e.keywords and all(pure_message(a) for a in e.args) \
                    and (st.cause is None or isinstance(st.cause, ast.Name)):
                return ["(.raise .%s)" % ERR[e.func.id]]
            raise U(st, "only `raise ValueError|TypeError|KeyError(<message>) [from e]`")
        if isinstance(st, ast.Assert):
            return ["(.assert %s)" % self.expr(st.test)]
        if isinstance(st, ast.If):
            return ["(.ite %s %s %s)" % (self.expr(st.test), r_block(self.block(st.body)), r_block(self.block(st.orelse)))]
        if isinstance(st, ast.For):
            if st.orelse:
                raise U(st, "for ... else")
            if isinstance(st.target, ast.Name):
                it, src = "(.plain %s)" % lean_str(st.target.id), st.iter
            elif isinstance(st.target, ast.Tuple) and len(st.target.elts) == 2 and all(isinstance(e, ast.Name) for e in st.target.elts) \
                    and isinstance(st.iter, ast.Call) and is_name(st.iter.func, "enumerate") and len(st.iter.args) == 1 and not st.iter.keywords:
                it = "(.enum %s %s)" % (lean_str(st.target.elts[0].id), lean_str(st.target.elts[1].id))  # type: ignore[attr-defined]
                src = st.iter.args[0]
            else:
                raise U(st, "loop header")
            return ["(.forIn %s %s %s)" % (it, self.expr(src), r_block(self.block(st.body)))]
        if isinstance(st, ast.Try):
            if st.orelse or st.finalbody or len(st.handlers) != 1:
                raise U(st, "try shape")
            h = st.handlers[0]
            elts = h.type.elts if isinstance(h.type, ast.Tuple) else [h.type] if h.type is not None else []
            if not elts or not all(isinstance(e, ast.Name) and e.id in ERR for e in elts):
                raise U(st, "except clause")
            return ["(.tryExcept %s [%s] %s)" % (r_block(self.block(st.body)), ", ".join("." + ERR[e.id] for e in elts),  # type: ignore[attr-defined]
                                                r_block(self.block(h.body)))]
        if isinstance(st, (ast.Assign, ast.AnnAssign)):
            if isinstance(st, ast.Assign):
                if len(st.targets) != 1:
                    raise U(st, "multiple targets")
                tgt, v = st.targets[0], st.value
            else:
                tgt, v = st.target, st.value
            assert v is not None
            if isinstance(tgt, ast.Name):
                if is_message(v):
                    self.messages[tgt.id] = const_text(v)
                    return []
                if isinstance(v, ast.Call) and isinstance(v.func, ast.Attribute) and v.func.attr == "pop" and isinstance(v.func.value, ast.Name) \
                        and len(v.args) == 1 and isinstance(v.args[0], ast.Constant) and isinstance(v.args[0].value, str) and not v.keywords:
                    return ["(.pop (some %s) %s %s)" % (lean_str(tgt.id), lean_str(v.func.value.id), lean_str(v.args[0].value))]
                return ["(.assign %s %s)" % (lean_str(tgt.id), self.expr(v))]
            if isinstance(tgt, ast.Attribute) and is_name(tgt.value, "self") and tgt.attr in ATTRS:
                return ["(.setAttr %s %s)" % (lean_str(tgt.attr), self.expr(v))]
            if isinstance(tgt, ast.Subscript) and isinstance(tgt.value, ast.Name):
                return ["(.setItem %s %s %s)" % (lean_str(tgt.value.id), self.expr(tgt.slice), self.expr(v))]
            if isinstance(tgt, ast.Subscript) and isinstance(tgt.value, ast.Subscript) and isinstance(tgt.value.value, ast.Name):
                return ["(.setItem2 %s %s %s %s)" % (lean_str(tgt.value.value.id), self.expr(tgt.value.slice), self.expr(tgt.slice), self.expr(v))]
            raise U(st, "assignment target")
        if isinstance(st, ast.Expr) and isinstance(st.value, ast.Call):
            c = st.value
            f = c.func
            if isinstance(f, ast.Attribute) and is_name(f.value, "warnings") and f.attr == "warn":
                if not c.args or len(c.args) > 2 or c.keywords:
                    raise U(st, "warnings.warn(<message>[, <category>])")
                m = c.args[0]
                txt = self.messages.get(m.id) if isinstance(m, ast.Name) else const_text(m) if pure_message(m) else None
                if txt is None:
                    raise U(st, "warning message")
                return ["(.warn .%s)" % next((w for pat, w in WARN_OF if pat in txt), "other")]
            if isinstance(f, ast.Attribute) and f.attr == "pop" and isinstance(f.value, ast.Name) and len(c.args) == 1 and not c.keywords \
                    and isinstance(c.args[0], ast.Constant) and isinstance(c.args[0].value, str):
                return ["(.pop none %s %s)" % (lean_str(f.value.id), lean_str(c.args[0].value))]
            if isinstance(f, ast.Attribute) and f.attr == "__init__" and isinstance(f.value, ast.Call) and is_name(f.value.func, "super") \
                    and not f.value.args:
                return [self.super_init(c, self.parent)]
            return ["(.eval %s)" % self.expr(c)]
        raise U(st, "statement shape is not whitelisted")

    parent = ""


def r_block(b: list[str]) -> str:
    if not b:
        return ".skip"
    if len(b) == 1:
        return b[0]
    return "(block [" + ", ".join(b) + "])"


def pretty(b: list[str]) -> str:
    if not b:
        return ".skip"
    if len(b) == 1:
        return b[0]
    return "(block [\n    " + ",\n    ".join(b) + "])"


def find_class(tree: ast.Module, cls: str) -> ast.ClassDef:
    c = next((n for n in tree.body if isinstance(n, ast.ClassDef) and n.name == cls), None)
    if c is None:
        raise Untranslatable("class %s not found" % cls)
    return c


def find_func(tree: ast.Module, name: str, cls: str | None) -> ast.FunctionDef:
    body: list[ast.stmt] = find_class(tree, cls).body if cls is not None else tree.body
    cands = [n for n in body if isinstance(n, ast.FunctionDef) and n.name == name]
    if len(cands) != 1:
        raise Untranslatable("%s%s not found (or defined %d times)" % (cls + "." if cls else "", name, len(cands)))
    if cands[0].decorator_list:
        raise U(cands[0], "decorated")
    return cands[0]


def signature(fn: ast.FunctionDef) -> list[tuple[str, ast.AST | None]]:
    a = fn.args
    if a.vararg or a.kwarg or a.posonlyargs or a.kwonlyargs:
        raise U(fn, "parameter list")
    names = [x.arg for x in a.args]
    defaults: list[ast.AST | None] = [None] * (len(names) - len(a.defaults)) + list(a.defaults)
    return list(zip(names, defaults))


# (python name, class, lean field, parameters, parent class for super().__init__)
FUNCS: list[tuple[str, str | None, str, list[str], str]] = [
    ("_adjust_discrete_uniform_high", None, "adjustDiscreteHigh", ["low", "high", "step"], ""),
    ("_adjust_int_uniform_high", None, "adjustIntHigh", ["low", "high", "step"], ""),
    ("__init__", "FloatDistribution", "floatInit", ["self", "low", "high", "log", "step"], ""),
    ("__init__", "IntDistribution", "intInit", ["self", "low", "high", "log", "step"], ""),
    ("__init__", "CategoricalDistribution", "catInit", ["self", "choices"], ""),
    ("__init__", "UniformDistribution", "uniformInit", ["self", "low", "high"], "FloatDistribution"),
    ("__init__", "LogUniformDistribution", "logUniformInit", ["self", "low", "high"], "FloatDistribution"),
    ("__init__", "DiscreteUniformDistribution", "discreteUniformInit", ["self", "low", "high", "q"], "FloatDistribution"),
    ("__init__", "IntUniformDistribution", "intUniformInit", ["self", "low", "high", "step"], "IntDistribution"),
    ("__init__", "IntLogUniformDistribution", "intLogUniformInit", ["self", "low", "high", "step"], "IntDistribution"),
    ("single", "FloatDistribution", "floatSingle", ["self"], ""),
    ("single", "IntDistribution", "intSingle", ["self"], ""),
    ("single", "CategoricalDistribution", "catSingle", ["self"], ""),
    ("_contains", "FloatDistribution", "floatContains", ["self", "param_value_in_internal_repr"], ""),
    ("_contains", "IntDistribution", "intContains", ["self", "param_value_in_internal_repr"], ""),
    ("_contains", "CategoricalDistribution", "catContains", ["self", "param_value_in_internal_repr"], ""),
    ("to_internal_repr", "FloatDistribution", "floatToInternal", ["self", "param_value_in_external_repr"], ""),
    ("to_internal_repr", "IntDistribution", "intToInternal", ["self", "param_value_in_external_repr"], ""),
    ("to_internal_repr", "CategoricalDistribution", "catToInternal", ["self", "param_value_in_external_repr"], ""),
    ("to_external_repr", "BaseDistribution", "baseToExternal", ["self", "param_value_in_internal_repr"], ""),
    ("to_external_repr", "IntDistribution", "intToExternal", ["self", "param_value_in_internal_repr"], ""),
    ("to_external_repr", "CategoricalDistribution", "catToExternal", ["self", "param_value_in_internal_repr"], ""),
    ("_asdict", "BaseDistribution", "baseAsdict", ["self"], ""),
    ("_asdict", "UniformDistribution", "uniformAsdict", ["self"], ""),
    ("_asdict", "LogUniformDistribution", "logUniformAsdict", ["self"], ""),
    ("_asdict", "DiscreteUniformDistribution", "discreteUniformAsdict", ["self"], ""),
    ("_asdict", "IntUniformDistribution", "intUniformAsdict", ["self"], ""),
    ("_asdict", "IntLogUniformDistribution", "intLogUniformAsdict", ["self"], ""),
    ("check_distribution_compatibility", None, "checkCompat", ["dist_old", "dist_new"], ""),
    ("_get_single_value", None, "getSingleValue", ["distribution"], ""),
    ("_convert_old_distribution_to_new_distribution", None, "convertOld", ["distribution", "suppress_warning"], ""),
    ("_is_distribution_log", None, "isLog", ["distribution"], ""),
    ("distribution_to_json", None, "distributionToJson", ["dist"], ""),
    ("json_to_distribution", None, "jsonToDistribution", ["json_str"], ""),
]
# methods that a subclass must NOT redefine (the dispatch of Model/DistIR.lean `Program.call1` assumes inheritance)
INHERITED = {"FloatDistribution": ["to_external_repr", "_asdict", "__eq__", "__hash__"],
             "IntDistribution": ["_asdict", "__eq__", "__hash__"],
             "CategoricalDistribution": ["_asdict"],
             "UniformDistribution": ["single", "_contains", "to_internal_repr", "to_external_repr", "__eq__"],
             "LogUniformDistribution": ["single", "_contains", "to_internal_repr", "to_external_repr", "__eq__"],
             "DiscreteUniformDistribution": ["single", "_contains", "to_internal_repr", "to_external_repr", "__eq__"],
             "IntUniformDistribution": ["single", "_contains", "to_internal_repr", "to_external_repr", "__eq__"],
             "IntLogUniformDistribution": ["single", "_contains", "to_internal_repr", "to_external_repr", "__eq__"]}
PIN_FUNCS = [("BaseDistribution", "__eq__"), ("BaseDistribution", "__hash__"), ("BaseDistribution", "__repr__"),
             ("CategoricalDistribution", "__eq__"), (None, "_categorical_choice_equal"), ("DiscreteUniformDistribution", "q")]


def pins_of(tree: ast.Module) -> list[tuple[str, str]]:
    out: list[tuple[str, str]] = []
    for cls, name in PIN_FUNCS:
        body: list[ast.stmt] = find_class(tree, cls).body if cls else tree.body
        fns = [n for n in body if isinstance(n, ast.FunctionDef) and n.name == name]
        texts = []
        for fn in fns:
            stmts = [s for s in fn.body if not (isinstance(s, ast.Expr) and isinstance(s.value, ast.Constant) and isinstance(s.value.value, str))]
            texts.append("[%s] %s" % (", ".join(one_line(d) for d in fn.decorator_list), " ; ".join(one_line(s) for s in stmts)))
        out.append(("%s%s" % (cls + "." if cls else "", name), " || ".join(texts)))
    for cname in CLS:
        c = find_class(tree, cname)
        redefined = [m for m in INHERITED[cname] if any(isinstance(n, ast.FunctionDef) and n.name == m for n in c.body)]
        other = [one_line(n)[:80] for n in c.body if isinstance(n, (ast.Assign, ast.AnnAssign)) and not one_line(n).startswith("__hash__ = BaseDistribution.__hash__")]
        out.append(("class %s" % cname, "bases (%s); decorators [%s]; redefines %s; class attributes %s" % (
            ", ".join(one_line(b) for b in c.bases), ", ".join(one_line(d).split("(")[0] for d in c.decorator_list), redefined, other)))
    return out


def translate(repo: str) -> tuple[str, dict[str, Any], list[dict[str, str]]]:
    problems: list[dict[str, str]] = []
    info: dict[str, Any] = {"functions": {}, "signatures": {}, "classes": [], "pins": []}
    tree = ast.parse(open(os.path.join(repo, SRC)).read())
    dummy = Ctx({})
    sigs: dict[str, list[tuple[str, str | None]]] = {}
    for cname in CLS:
        try:
            sg = signature(find_func(tree, "__init__", cname))
            sigs[cname] = [(p, None if d is None else dummy.expr(d)) for p, d in sg if p != "self"]
        except (Untranslatable, AttributeError) as e:
            problems.append({"what": cname + ".__init__ signature", "why": str(e)})
    info["signatures"] = {k: [(p, d) for p, d in v] for k, v in sigs.items()}
    classes: list[str] = []
    for n in tree.body:
        if isinstance(n, ast.Assign) and len(n.targets) == 1 and is_name(n.targets[0], "DISTRIBUTION_CLASSES") and isinstance(n.value, ast.Tuple):
            classes = [one_line(e) for e in n.value.elts]
    info["classes"] = classes
    defs: list[tuple[str, str, str, str]] = []
    for pyname, cls, lean, want, parent in FUNCS:
        label = "%s%s" % (cls + "." if cls else "", pyname)
        try:
            fn = find_func(tree, pyname, cls)
            names = [p for p, _ in signature(fn)]
            if names != want:
                raise U(fn, "parameters %s, expected %s" % (names, want))
            ctx = Ctx(sigs)
            ctx.parent = parent
            ir = ctx.block(list(fn.body))
            info["functions"][label] = len(ir)
            defs.append((lean, label, pretty(ir), "lines %d-%d" % (fn.lineno, fn.end_lineno or fn.lineno)))
        except (Untranslatable, AttributeError, IndexError) as e:
            problems.append({"what": label, "why": str(e)})
            info["functions"][label] = None
            defs.append((lean, label, STUB, "UNTRANSLATABLE: %s" % str(e).replace("-/", "- /")))
    try:
        pins = pins_of(tree)
    except (Untranslatable, AttributeError) as e:
        problems.append({"what": "pinned texts", "why": str(e)})
        pins = []
    info["pins"] = pins
    L = ["import OptunaVerif.Model.DistIR",
         "/-! GENERATED by verif/translators/tdist.py from optuna/distributions.py on every check run - do not edit. -/",
         "namespace OptunaVerif.Generated.DistMethods",
         "open OptunaVerif OptunaVerif.Dist OptunaVerif.DistIR", ""]
    for lean, label, text, comment in defs:
        L.append("/-- `%s` (%s) -/" % (label, comment))
        L.append("def %s : Stmt :=\n  %s\n" % (lean, text))
    L.append("def program : Program where")
    for lean, *_ in defs:
        L.append("  %s := %s" % (lean, lean))
    L.append("")
    L.append("/-- `DISTRIBUTION_CLASSES`, in the order of the source -/")
    L.append("def classTable : List String :=\n  [%s]\n" % ", ".join(lean_str(c) for c in classes))
    L.append("/-- parameters (without `self`) and literal defaults of the eight `__init__`s -/")
    rows = []
    for cname in CLS:
        rows.append("(%s, [%s])" % (lean_str(cname), ", ".join("(%s, %s)" % (lean_str(p), "none" if d is None else "some %s" % d) for p, d in sigs.get(cname, []))))
    L.append("def signatures : List (String × List (String × Option Expr)) :=\n  [%s]\n" % ",\n   ".join(rows))
    L.append("/-- source texts the interpreter's primitives stand for -/")
    L.append("def pins : List (String × String) :=\n  [%s]\n" % ",\n   ".join("(%s, %s)" % (lean_str(a), lean_str(b)) for a, b in pins))
    L.append("end OptunaVerif.Generated.DistMethods")
    return "\n".join(L) + "\n", info, problems


if __name__ == "__main__":
    import sys

    text, info, problems = translate(sys.argv[1] if len(sys.argv) > 1 else "/repo")
    print(text)
    for p in problems:
        print("-- PROBLEM", p, file=sys.stderr)
