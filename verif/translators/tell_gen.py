"""T-int style translator for C02: regenerates lean/OptunaVerif/Generated/TellGen.lean from the current
text of /repo/optuna/study/_tell.py (Python `ast`, whitelisted statement shapes only).

What is regenerated (and then tied to the hand model by theorems of Props/C02, so a change of the
source breaks a proof):
  * `checkStateAndValues`      the whole body of `_check_state_and_values`
  * `castCaughtNames/castCaught`  the `except` clause (a class or a tuple of classes) of `_check_values_are_feasible`
  * `elemChecks`, `afterLoop`   the order of the per-element checks of its loop and what follows it
  * `noneBranch`               the `elif state is None:` decision of `_tell_with_warning`
  * `postShape`                the try/finally shape around `after_trial` / `set_trial_state_values`
Anything outside the whitelisted shapes raises `Untranslatable` (reported as a broken tie).
"""
from __future__ import annotations

import ast
import os
from typing import Any

from verif import core

OUT = os.path.join(core.LEAN_DIR, "OptunaVerif", "Generated", "TellGen.lean")
STATES = {"RUNNING": "running", "COMPLETE": "complete", "PRUNED": "pruned", "FAIL": "fail", "WAITING": "waiting"}


class Untranslatable(Exception):
    pass


def _src(node: ast.AST) -> str:
    return ast.unparse(node)


def _state_const(node: ast.AST) -> str:
    if isinstance(node, ast.Attribute) and isinstance(node.value, ast.Name) and node.value.id == "TrialState" and node.attr in STATES:
        return "(some TState.%s)" % STATES[node.attr]
    raise Untranslatable("state constant expected: " + _src(node))


def _is_none(node: ast.AST) -> bool:
    return isinstance(node, ast.Constant) and node.value is None


def tr_test(node: ast.AST) -> str:
    """boolean tests over `state` and `values is (not) None`"""
    if isinstance(node, ast.BoolOp):
        op = " && " if isinstance(node.op, ast.And) else " || "
        return "(" + op.join(tr_test(v) for v in node.values) + ")"
    if isinstance(node, ast.UnaryOp) and isinstance(node.op, ast.Not):
        return "(!" + tr_test(node.operand) + ")"
    if isinstance(node, ast.Compare) and len(node.ops) == 1 and isinstance(node.left, ast.Name):
        name, op, rhs = node.left.id, node.ops[0], node.comparators[0]
        if name == "values" and _is_none(rhs):
            if isinstance(op, ast.Is):
                return "valuesIsNone"
            if isinstance(op, ast.IsNot):
                return "(!valuesIsNone)"
        if name == "state":
            if _is_none(rhs) and isinstance(op, ast.Is):
                return "(state == none)"
            if _is_none(rhs) and isinstance(op, ast.IsNot):
                return "(state != none)"
            if isinstance(op, ast.Eq):
                return "(state == %s)" % _state_const(rhs)
            if isinstance(op, ast.NotEq):
                return "(state != %s)" % _state_const(rhs)
            if isinstance(op, ast.In) and isinstance(rhs, (ast.Tuple, ast.List)) and rhs.elts:
                return "(" + " || ".join("state == %s" % _state_const(e) for e in rhs.elts) + ")"
    raise Untranslatable("test: " + _src(node))


def tr_raise_block(stmts: list[ast.stmt]) -> str:
    """A block whose only effects are `raise ValueError(..)`: true = raises."""
    if not stmts:
        return "false"
    s, rest = stmts[0], stmts[1:]
    if isinstance(s, ast.Raise):
        exc = s.exc
        if isinstance(exc, ast.Call) and isinstance(exc.func, ast.Name) and exc.func.id == "ValueError":
            return "true"
        raise Untranslatable("raise of something else than ValueError: " + _src(s))
    if isinstance(s, ast.If):
        return "(if %s then %s else %s)" % (tr_test(s.test), tr_raise_block(s.body + rest), tr_raise_block(s.orelse + rest))
    if isinstance(s, ast.Pass) or (isinstance(s, ast.Expr) and isinstance(s.value, ast.Constant)):
        return tr_raise_block(rest)
    raise Untranslatable("statement: " + _src(s)[:120])


def find_func(tree: ast.Module, name: str) -> ast.FunctionDef:
    for n in tree.body:
        if isinstance(n, ast.FunctionDef) and n.name == name:
            return n
    raise Untranslatable("function %s not found" % name)


def body_wo_doc(f: ast.FunctionDef) -> list[ast.stmt]:
    b = f.body
    if b and isinstance(b[0], ast.Expr) and isinstance(b[0].value, ast.Constant) and isinstance(b[0].value.value, str):
        return b[1:]
    return b


def tr_check_state_and_values(tree: ast.Module) -> str:
    f = find_func(tree, "_check_state_and_values")
    if [a.arg for a in f.args.args] != ["state", "values"]:
        raise Untranslatable("_check_state_and_values signature")
    return tr_raise_block(body_wo_doc(f))


def _is_call(node: ast.AST, name: str) -> bool:
    return isinstance(node, ast.Call) and ((isinstance(node.func, ast.Name) and node.func.id == name) or
                                           (isinstance(node.func, ast.Attribute) and node.func.attr == name))


def tr_feasible(tree: ast.Module) -> tuple[list[str], list[str], list[str]]:
    f = find_func(tree, "_check_values_are_feasible")
    body = body_wo_doc(f)
    if len(body) != 3 or not isinstance(body[0], ast.For):
        raise Untranslatable("_check_values_are_feasible: expected `for`, `if`, `return`")
    loop = body[0]
    if not (isinstance(loop.target, ast.Name) and isinstance(loop.iter, ast.Name) and loop.iter.id == "values" and not loop.orelse):
        raise Untranslatable("loop header: " + _src(loop)[:80])
    v = loop.target.id
    checks: list[str] = []
    caught: list[str] = []

    def is_float_v(n: ast.AST) -> bool:
        return _is_call(n, "float") and len(n.args) == 1 and isinstance(n.args[0], ast.Name) and n.args[0].id == v  # type: ignore[attr-defined]

    def returns_msg(stmts: list[ast.stmt]) -> bool:
        return len(stmts) == 1 and isinstance(stmts[0], ast.Return) and stmts[0].value is not None and not _is_none(stmts[0].value)

    for s in loop.body:
        if isinstance(s, ast.Try):
            if not (len(s.body) == 1 and isinstance(s.body[0], ast.Expr) and is_float_v(s.body[0].value) and len(s.handlers) == 1
                    and not s.orelse and not s.finalbody and returns_msg(s.handlers[0].body)):
                raise Untranslatable("cast check: " + _src(s)[:160])
            t = s.handlers[0].type
            elts = t.elts if isinstance(t, ast.Tuple) else [t] if t is not None else []
            for e in elts:
                if not isinstance(e, ast.Name):
                    raise Untranslatable("except class: " + _src(e))
                caught.append(e.id)
            if t is None:
                caught.append("BaseException")
            checks.append("cast")
        elif isinstance(s, ast.If):
            t = s.test
            if not (_is_call(t, "isnan") and len(t.args) == 1 and is_float_v(t.args[0]) and returns_msg(s.body) and not s.orelse):  # type: ignore[attr-defined]
                raise Untranslatable("NaN check: " + _src(s)[:160])
            checks.append("nan")
        else:
            raise Untranslatable("loop statement: " + _src(s)[:120])
    after: list[str] = []
    s = body[1]
    if isinstance(s, ast.If) and isinstance(s.test, ast.Compare) and len(s.test.ops) == 1 and isinstance(s.test.ops[0], ast.NotEq) \
            and {_src(s.test.left), _src(s.test.comparators[0])} == {"len(study.directions)", "len(values)"} and returns_msg(s.body) and not s.orelse:
        after.append("count")
    else:
        raise Untranslatable("count check: " + _src(s)[:160])
    if not (isinstance(body[2], ast.Return) and (body[2].value is None or _is_none(body[2].value))):
        raise Untranslatable("final return")
    return caught, checks, after


def _branches(f: ast.FunctionDef) -> ast.If:
    """the `if state == COMPLETE: … elif state == PRUNED: … elif state is None: …` chain"""
    for s in f.body:
        if isinstance(s, ast.If) and _src(s.test) == "state == TrialState.COMPLETE":
            return s
    raise Untranslatable("state branch chain not found in _tell_with_warning")


def tr_none_branch(tree: ast.Module) -> str:
    f = find_func(tree, "_tell_with_warning")
    node: Any = _branches(f)
    seen = []
    while True:
        seen.append(_src(node.test))
        if _src(node.test) == "state is None":
            break
        if len(node.orelse) == 1 and isinstance(node.orelse[0], ast.If):
            node = node.orelse[0]
        else:
            raise Untranslatable("no `state is None` branch (saw %s)" % seen)
    if seen != ["state == TrialState.COMPLETE", "state == TrialState.PRUNED", "state is None"] or node.orelse:
        raise Untranslatable("branch chain is %s" % seen)
    b = node.body
    if len(b) != 2 or not all(isinstance(x, ast.If) for x in b):
        raise Untranslatable("`state is None` body: expected two ifs")
    s1, s2 = b
    if not (_src(s1.test) == "values is None" and len(s1.body) == 1 and isinstance(s1.body[0], ast.Assign)
            and isinstance(s1.body[0].value, ast.Constant) and isinstance(s1.body[0].value.value, str)
            and len(s1.orelse) == 1 and isinstance(s1.orelse[0], ast.Assign)
            and _src(s1.orelse[0].value) == "_check_values_are_feasible(study, values)"
            and _src(s1.body[0].targets[0]) == _src(s1.orelse[0].targets[0])):
        raise Untranslatable("message computation: " + _src(s1)[:200])
    msg = _src(s1.body[0].targets[0])
    if _src(s2.test) != "%s is None" % msg:
        raise Untranslatable("decision test: " + _src(s2.test))

    def outcome(stmts: list[ast.stmt]) -> tuple[str, bool]:
        state = None
        keep = True
        for s in stmts:
            if isinstance(s, ast.Assign) and _src(s.targets[0]) == "state":
                state = _state_const(s.value)
            elif isinstance(s, ast.Assign) and _src(s.targets[0]) == "values" and _is_none(s.value):
                keep = False
            elif isinstance(s, ast.If) and _src(s.test) in ("not suppress_warning", "suppress_warning"):
                continue  # warn / remember the message: no effect on state and values
            else:
                raise Untranslatable("decision statement: " + _src(s)[:120])
        if state is None:
            raise Untranslatable("decision branch does not assign state")
        return state, keep

    (st_ok, keep_ok), (st_bad, keep_bad) = outcome(s2.body), outcome(s2.orelse)
    return ("(let msgIsNone := if valuesIsNone then false else feasible\n"
            "   if msgIsNone then (%s, %s) else (%s, %s))" % (st_ok, str(keep_ok).lower(), st_bad, str(keep_bad).lower()))


def tr_post_shape(tree: ast.Module) -> list[str]:
    f = find_func(tree, "_tell_with_warning")
    out: list[str] = []
    for s in f.body:
        if isinstance(s, ast.Try) and "after_trial" in _src(s):
            if s.handlers:
                out.append("handlers")
            for x in s.body:
                out.append("try:" + ("after_trial" if "after_trial" in _src(x) else "filter_study" if "_filter_study" in _src(x) else "other"))
            for x in s.orelse:
                out.append("else:" + ("set_trial_state_values" if "set_trial_state_values" in _src(x) else "other"))
            for x in s.finalbody:
                out.append("finally:" + ("set_trial_state_values" if "set_trial_state_values" in _src(x) else "other"))
            return out
    raise Untranslatable("post-processing try statement not found")


def tr_optimize_shapes(repo: str) -> tuple[list[str], list[str], list[str]]:
    """Control-flow facts of optuna/study/_optimize.py that the `runTrial` / `optimizeSeq` / `Pool`
    models hard-wire: which except clause maps to which state, the final `raise func_err` test, the
    order of the loop's statements, and the two `f.result()` sites of the thread-pool branch."""
    tree = ast.parse(open(os.path.join(repo, "optuna", "study", "_optimize.py")).read())
    rt = find_func(tree, "_run_trial")
    run: list[str] = []
    obj_try = [n for n in ast.walk(rt) if isinstance(n, ast.Try) and any("func(trial)" in _src(x) for x in n.body)]
    tell_try = [n for n in ast.walk(rt) if isinstance(n, ast.Try) and any("_tell_with_warning" in _src(x) for x in n.body)]
    if len(obj_try) != 1 or len(tell_try) != 1:
        raise Untranslatable("_run_trial: expected one try around func(trial) and one around _tell_with_warning")
    for h in obj_try[0].handlers:
        st = [_src(x.value) for x in h.body if isinstance(x, ast.Assign) and _src(x.targets[0]) == "state"]
        run.append("objective-except:%s->%s" % (_src(h.type) if h.type else "*", ",".join(st)))
    run.append("objective-try:else=%d,finally=%d" % (len(obj_try[0].orelse), len(obj_try[0].finalbody)))
    for h in tell_try[0].handlers:
        run.append("tell-except:%s:%s" % (_src(h.type) if h.type else "*", ";".join(_src(x) for x in h.body)))
    run.append("tell-try:else=%d,finally=%d" % (len(tell_try[0].orelse), 1 if tell_try[0].finalbody else 0))
    ifs = [x for x in rt.body if isinstance(x, ast.If)]
    if not ifs:
        raise Untranslatable("_run_trial: final raise test not found")
    run.append("final-raise-if:" + _src(ifs[-1].test))
    run.append("final-raise-body:" + ";".join(_src(x) for x in ifs[-1].body))
    if rt.body.index(ifs[-1]) < rt.body.index(tell_try[0]):
        raise Untranslatable("_run_trial: raise test precedes the tell")
    sq = find_func(tree, "_optimize_sequential")
    loops = [x for x in sq.body if isinstance(x, ast.While)]
    if len(loops) != 1 or _src(loops[0].test) != "True":
        raise Untranslatable("_optimize_sequential: `while True` loop not found")
    seq: list[str] = []
    for x in loops[0].body:
        if isinstance(x, ast.If) and _src(x.test) == "study._stop_flag" and _src(x.body[0]) == "break":
            seq.append("break-if-stop")
        elif isinstance(x, ast.If) and _src(x.test) == "n_trials is not None":
            seq.append("n_trials:" + " ".join(" ".join(_src(y).split()) for y in x.body))
        elif isinstance(x, ast.If) and _src(x.test) == "timeout is not None":
            seq.append("timeout:" + ";".join(_src(y.test) for y in x.body if isinstance(y, ast.If)))
        elif isinstance(x, ast.Try):
            seq.append("try[%s]except[%d]finally[%s]" % (";".join(_src(y) for y in x.body), len(x.handlers),
                                                         "callbacks" if "callback" in "".join(_src(y) for y in x.finalbody) else "gc"))
        elif isinstance(x, ast.If) and _src(x.test) == "callbacks is not None":
            seq.append("callbacks:" + " ".join(_src(x.body[0]).split()))
        elif isinstance(x, ast.If) and "progress_bar" in _src(x.test):
            seq.append("progress")
        else:
            raise Untranslatable("_optimize_sequential loop statement: " + _src(x)[:100])
    op = find_func(tree, "_optimize")
    withs = [n for n in ast.walk(op) if isinstance(n, ast.With) and "ThreadPoolExecutor" in _src(n.items[0])]
    if len(withs) != 1:
        raise Untranslatable("_optimize: ThreadPoolExecutor block not found")
    pool: list[str] = []
    for x in withs[0].body:
        if isinstance(x, ast.For) and "itertools.count" in _src(x.iter):
            for y in x.body:
                t = " ".join(_src(y).split())
                if isinstance(y, ast.If) and "wait(" in t:
                    pool.append("loop:" + t)
                elif isinstance(y, ast.If):
                    pool.append("loop:if " + _src(y.test).split(" and ")[-1] + ": " + " ".join(_src(y.body[0]).split()))
                elif "executor.submit" in t:
                    pool.append("loop:submit(%s)" % ",".join(_src(a) for a in y.value.args[0].args[:4]))  # type: ignore[attr-defined]
                else:
                    raise Untranslatable("_optimize loop statement: " + t[:100])
        else:
            pool.append("after-loop:" + " ".join(_src(x).split()))
    return run, seq, pool


def tr_ask_shape(repo: str) -> list[str]:
    """Tail of `Study.ask` (optuna/study/study.py) that the model's `runPlan` hard-wires: the trial is
    popped/created, then `Trial(...)` (sampler.before_trial, relative search space / sample) and the fixed
    suggests run inside a `try` whose handler fails the trial and re-raises."""
    tree = ast.parse(open(os.path.join(repo, "optuna", "study", "study.py")).read())
    cls = [n for n in tree.body if isinstance(n, ast.ClassDef) and n.name == "Study"]
    if len(cls) != 1:
        raise Untranslatable("class Study not found")
    fn = [n for n in cls[0].body if isinstance(n, ast.FunctionDef) and n.name == "ask"]
    if len(fn) != 1:
        raise Untranslatable("Study.ask not found")
    out: list[str] = []
    seen_id = False
    for x in fn[0].body:
        t = " ".join(_src(x).split())
        if "trial_id" not in t and not seen_id:
            continue  # argument normalisation, cache reset, heartbeat warning: no trial exists yet
        seen_id = True
        if isinstance(x, ast.Assign) and t.startswith("trial_id = self._pop_waiting_trial_id()"):
            out.append("pop")
        elif isinstance(x, ast.If) and _src(x.test) == "trial_id is None":
            out.append("create:" + ";".join(" ".join(_src(y).split()) for y in x.body))
        elif isinstance(x, ast.Try):
            body = ";".join(" ".join(_src(y).split()) for y in x.body)
            out.append("try[%s]else=%d,finally=%d" % (body, len(x.orelse), len(x.finalbody)))
            for h in x.handlers:
                hb = []
                for y in h.body:
                    if isinstance(y, ast.Try):
                        hb.append("try[%s]except[%s]" % (";".join(" ".join(_src(z).split()) for z in y.body),
                                                          ";".join("%s:%s" % (_src(hh.type) if hh.type else "*", ";".join(_src(z) for z in hh.body)) for hh in y.handlers)))
                    else:
                        hb.append(" ".join(_src(y).split()))
                out.append("except:%s:%s" % (_src(h.type) if h.type else "*", ";".join(hb)))
        elif isinstance(x, ast.Return):
            out.append("return:" + _src(x.value) if x.value else "return")
        else:
            out.append("stmt:" + t[:160])
    if not seen_id:
        raise Untranslatable("Study.ask: no trial_id statement")
    return out


def q(l: list[str]) -> str:
    return "[" + ", ".join('"%s"' % x.replace("\\", "\\\\").replace('"', '\\"') for x in l) + "]"


def generate(repo: str) -> str:
    path = os.path.join(repo, "optuna", "study", "_tell.py")
    tree = ast.parse(open(path).read())
    csv = tr_check_state_and_values(tree)
    caught, checks, after = tr_feasible(tree)
    nb = tr_none_branch(tree)
    shape = tr_post_shape(tree)
    run_shape, seq_shape, pool_shape = tr_optimize_shapes(repo)
    ask_shape = tr_ask_shape(repo)
    return f"""import OptunaVerif.Model.Tell
/-! GENERATED by verif/translators/tell_gen.py from optuna/study/_tell.py and _optimize.py — do not edit.
Props/C02.lean proves that these definitions coincide with the hand-written model. -/
namespace OptunaVerif.TellGen
open OptunaVerif

/-- `_check_state_and_values(state, values)`: true = raises ValueError -/
def checkStateAndValues (state : Option TState) (valuesIsNone : Bool) : Bool :=
  {csv}

/-- classes named by the `except` clause around `float(v)` in `_check_values_are_feasible` -/
def castCaughtNames : List String := {q(caught)}

def catches (names : List String) (mro : List String) : Bool := names.any (fun n => mro.contains n)

def castCaught : Tell.CastExc → Bool
  | .valueError => catches castCaughtNames ["ValueError", "Exception", "BaseException"]
  | .typeError => catches castCaughtNames ["TypeError", "Exception", "BaseException"]
  | .overflowError => catches castCaughtNames ["OverflowError", "ArithmeticError", "Exception", "BaseException"]
  | .other _ => catches castCaughtNames ["Exception", "BaseException"]

/-- per-element checks of the loop, in source order; what follows the loop -/
def elemChecks : List String := {q(checks)}
def afterLoop : List String := {q(after)}

/-- the `elif state is None:` decision of `_tell_with_warning`: (state, values kept?) from
`values is None` and "the feasibility check returned no message" -/
def noneBranch (valuesIsNone feasible : Bool) : Option TState × Bool :=
  {nb}

/-- shape of the try statement that post-processes and stores the trial -/
def postShape : List String := {q(shape)}

/-! control-flow facts of optuna/study/_optimize.py -/
def runTrialShape : List String := {q(run_shape)}
def seqLoopShape : List String := {q(seq_shape)}
def poolShape : List String := {q(pool_shape)}

/-! tail of `Study.ask` (optuna/study/study.py): what happens once the trial exists -/
def askShape : List String := {q(ask_shape)}

end OptunaVerif.TellGen
"""


def regenerate(chk: core.Check) -> None:
    try:
        text = generate(core.REPO)
    except Untranslatable as e:
        chk.broke("translation", {"translator": "tell_gen", "source": "optuna/study/_tell.py", "why": str(e)[:500]})
        return
    except (OSError, SyntaxError) as e:
        chk.broke("translation", {"translator": "tell_gen", "why": "cannot read/parse: %r" % (e,)})
        return
    core.write_if_changed(OUT, text)
    chk.translated += ["optuna/study/_tell.py::_check_state_and_values -> TellGen.checkStateAndValues",
                       "optuna/study/_tell.py::_check_values_are_feasible (except tuple, check order) -> TellGen.castCaught/elemChecks/afterLoop",
                       "optuna/study/_tell.py::_tell_with_warning (`state is None` decision, try/finally shape) -> TellGen.noneBranch/postShape",
                       "optuna/study/_optimize.py::_run_trial/_optimize_sequential/_optimize (except clauses, final raise test, loop statement order, f.result() sites) -> TellGen.runTrialShape/seqLoopShape/poolShape",
                       "optuna/study/study.py::Study.ask (what runs after the trial exists, and the handler that fails it) -> TellGen.askShape"]


if __name__ == "__main__":
    print(generate(core.REPO))
