"""T-enqueue (C04): how a trial gets INTO the queue and how its fixed parameters reach the worker  ->  Generated/EnqueueMethods.lean

Regenerated from the working tree of the repo on every run (Python `ast`, whitelisted shapes only), as DATA of the IR of
lean/OptunaVerif/Model/EnqueueIR.lean:

  optuna/study/study.py
      Study.enqueue_trial          -> enqueue : EnqIR     (dict check, skip guard, create_trial keywords, hand-off)
      Study._should_skip_enqueue   -> skip : SkipIR       (what an existing trial is compared through, key-set test, the type
                                                           test, the NaN / isclose / == expression exactly as written)
      Study.add_trial              -> add : AddIR         (_validate, values check, the template handed to create_new_trial)
      Study.add_trials             -> addMany : AddManyIR
      Study.ask                    -> ask : AskIR         (statement order: pop, create-if-None, Trial(...), fixed suggests; the
                                                           fail-the-trial-on-exception wrapper)
  optuna/trial/_trial.py
      Trial.__init__               -> init : InitIR       (system_attrs.get("fixed_params", {}) of the trial read from the storage)

`_pop_waiting_trial_id` is T-tell's (Generated/TellMethods), `Trial._suggest` is T-suggest's (Generated/SuggestMethods).
Anything outside the whitelist raises `Untranslatable`.
"""
from __future__ import annotations

import ast
import hashlib
import os
from fractions import Fraction
from typing import Any

OUT_REL = os.path.join("OptunaVerif", "Generated", "EnqueueMethods.lean")
STUDY_REL = os.path.join("optuna", "study", "study.py")
TRIAL_REL = os.path.join("optuna", "trial", "_trial.py")


class Untranslatable(Exception):
    pass


def need(cond: Any, msg: str) -> None:
    if not cond:
        raise Untranslatable(msg)


def src(n: ast.AST) -> str:
    try:
        return ast.unparse(n)
    except Exception:  # noqa: BLE001
        return ast.dump(n)[:200]


def dotted(n: ast.AST) -> str | None:
    if isinstance(n, ast.Name):
        return n.id
    if isinstance(n, ast.Attribute):
        b = dotted(n.value)
        return None if b is None else b + "." + n.attr
    return None


def strip_doc(body: list[ast.stmt]) -> list[ast.stmt]:
    if body and isinstance(body[0], ast.Expr) and isinstance(body[0].value, ast.Constant) and isinstance(body[0].value.value, str):
        return body[1:]
    return body


def method(tree: ast.Module, cls: str, name: str) -> ast.FunctionDef:
    c = next((n for n in tree.body if isinstance(n, ast.ClassDef) and n.name == cls), None)
    need(c is not None, "class %s not found" % cls)
    f = next((n for n in c.body if isinstance(n, ast.FunctionDef) and n.name == name), None)
    need(f is not None, "%s.%s not found" % (cls, name))
    return f


def lstr(s: str) -> str:
    return '"%s"' % s.replace("\\", "\\\\").replace('"', '\\"')


def rat(v: Any) -> str:
    fr = Fraction(v)
    return "(%d : Rat)" % fr.numerator if fr.denominator == 1 else "((%d : Rat) / %d)" % (fr.numerator, fr.denominator)


NEW, OLD = "param_value", "existing_param"


def bx(n: ast.AST) -> str:
    """boolean expression over param_value / existing_param"""
    if isinstance(n, ast.BoolOp) and len(n.values) >= 2:
        op = ".or" if isinstance(n.op, ast.Or) else ".and"
        out = bx(n.values[-1])
        for v in reversed(n.values[:-1]):
            out = "(%s %s %s)" % (op, bx(v), out)
        return out
    if isinstance(n, ast.UnaryOp) and isinstance(n.op, ast.Not):
        return "(.not %s)" % bx(n.operand)
    if isinstance(n, ast.IfExp):
        return "(.ite %s %s %s)" % (bx(n.test), bx(n.body), bx(n.orelse))
    if isinstance(n, ast.Constant) and isinstance(n.value, bool):
        return "(.lit %s)" % ("true" if n.value else "false")
    if isinstance(n, ast.Call):
        f = dotted(n.func)
        if f == "bool" and len(n.args) == 1:
            return bx(n.args[0])
        if f == "isinstance" and len(n.args) == 2:
            a, b = src(n.args[0]), src(n.args[1])
            if a == NEW and b == "type(%s)" % OLD:
                return "(.instNewOfTypeOld)"
            if a == OLD and b == "type(%s)" % NEW:
                return "(.instOldOfTypeNew)"
            if b in ("Real", "numbers.Real") and a in (NEW, OLD):
                return "(.isRealNew)" if a == NEW else "(.isRealOld)"
        if f in ("np.isnan", "math.isnan") and len(n.args) == 1 and src(n.args[0]) in ("float(%s)" % NEW, "float(%s)" % OLD, NEW, OLD):
            return "(.isnanNew)" if NEW in src(n.args[0]) else "(.isnanOld)"
        if f in ("np.isclose", "math.isclose") and len(n.args) == 2:
            a, b = src(n.args[0]), src(n.args[1])
            need({a, b} == {"float(%s)" % NEW, "float(%s)" % OLD}, "isclose arguments %s" % src(n))
            kw = {k.arg: k.value for k in n.keywords}
            need(set(kw) <= {"rtol", "atol", "rel_tol", "abs_tol"} and all(isinstance(v, ast.Constant) for v in kw.values()), "isclose keywords %s" % src(n))
            if f == "np.isclose":
                rtol = kw["rtol"].value if "rtol" in kw else 1e-05
                atol = kw["atol"].value if "atol" in kw else 1e-08
            else:
                need(False, "math.isclose has another formula")
            # 1e-05 as a decimal literal: the value numpy uses is the double; the IR takes the decimal (documented looseness)
            from decimal import Decimal
            return "(.isclose %s %s %s)" % (rat(Fraction(Decimal(repr(float(rtol))))), rat(Fraction(Decimal(repr(float(atol))))),
                                           "true" if a == "float(%s)" % NEW else "false")
    if isinstance(n, ast.Compare) and len(n.ops) == 1 and isinstance(n.ops[0], (ast.Eq, ast.NotEq)):
        a, b = src(n.left), src(n.comparators[0])
        if {a, b} == {NEW, OLD}:
            return "(.eqNewOld)" if isinstance(n.ops[0], ast.Eq) else "(.not (.eqNewOld))"
    raise Untranslatable("boolean expression %s" % src(n))


def translate(repo: str) -> tuple[str, dict[str, Any]]:
    stext = open(os.path.join(repo, STUDY_REL)).read()
    ttext = open(os.path.join(repo, TRIAL_REL)).read()
    study, trial = ast.parse(stext), ast.parse(ttext)
    info: dict[str, Any] = {"sha1_of_sources": hashlib.sha1((stext + ttext).encode()).hexdigest()}

    # ---- _should_skip_enqueue -----------------------------------------------------------------------------------
    f = method(study, "Study", "_should_skip_enqueue")
    body = strip_doc(f.body)
    need(len(body) == 2 and isinstance(body[0], ast.For) and src(body[1]) == "return False", "_should_skip_enqueue: for ... ; return False")
    loop = body[0]
    need(src(loop.target) == "trial" and src(loop.iter) in ("self.get_trials(deepcopy=False)", "self.get_trials()", "self.trials"), "_should_skip_enqueue: loop header %s" % src(loop.iter))
    st = list(loop.body)
    need(isinstance(st[0], ast.Assign) and src(st[0].targets[0]) == "trial_params", "_should_skip_enqueue: trial_params")
    v = st[0].value
    if src(v) == "trial.params":
        params_of = ".params"
    else:
        need(isinstance(v, ast.Call) and src(v.func) == "trial.system_attrs.get" and len(v.args) == 2 and isinstance(v.args[0], ast.Constant)
             and isinstance(v.args[0].value, str) and src(v.args[1]) in ("trial.params", "{}"), "_should_skip_enqueue: trial_params = %s" % src(v))
        params_of = "(.%s %s)" % ("sysAttrOrParams" if src(v.args[1]) == "trial.params" else "sysAttrOrEmpty", lstr(v.args[0].value))
    k = 1
    keys_must = False
    if isinstance(st[k], ast.If) and src(st[k].test) in ("trial_params.keys() != params.keys()", "params.keys() != trial_params.keys()"):
        need([src(s) for s in st[k].body] == ["continue"] and not st[k].orelse, "_should_skip_enqueue: key test body")
        keys_must = True
        k += 1
    need(src(st[k]).startswith("repeated_params: list[bool] = []") or src(st[k]) == "repeated_params = []", "_should_skip_enqueue: repeated_params init")
    inner = st[k + 1]
    need(isinstance(inner, ast.For) and src(inner.target) == "(param_name, param_value)" and src(inner.iter) == "params.items()", "_should_skip_enqueue: inner loop")
    ib = list(inner.body)
    need(src(ib[0]) == "existing_param = trial_params[param_name]", "_should_skip_enqueue: existing_param")
    j = 1
    false_if = "(.lit false)"
    if isinstance(ib[j], ast.If) and [src(s) for s in ib[j].body] == ["repeated_params.append(False)", "continue"] and not ib[j].orelse:
        false_if = bx(ib[j].test)
        j += 1
    need(isinstance(ib[j], ast.Assign) and src(ib[j].targets[0]) == "is_repeated" and src(ib[j + 1]) in ("repeated_params.append(bool(is_repeated))", "repeated_params.append(is_repeated)")
         and len(ib) == j + 2, "_should_skip_enqueue: is_repeated / append")
    repeated = bx(ib[j].value)
    fin = st[k + 2]
    need(isinstance(fin, ast.If) and src(fin.test) in ("all(repeated_params)", "any(repeated_params)") and [src(s) for s in fin.body] == ["return True"]
         and not fin.orelse and len(st) == k + 3, "_should_skip_enqueue: final test")
    comb = ".all" if src(fin.test).startswith("all") else ".any"
    skip_ir = "{ paramsOf := %s, keysMustMatch := %s, falseIf := %s, repeated := %s, comb := %s }" % (
        params_of, "true" if keys_must else "false", false_if, repeated, comb)

    # ---- enqueue_trial ------------------------------------------------------------------------------------------
    f = method(study, "Study", "enqueue_trial")
    need([a.arg for a in f.args.args] == ["self", "params", "user_attrs", "skip_if_exists"], "enqueue_trial: parameters")
    body = strip_doc(f.body)
    k = 0
    type_check = False
    if isinstance(body[k], ast.If) and src(body[k].test) == "not isinstance(params, dict)":
        need(len(body[k].body) == 1 and isinstance(body[k].body[0], ast.Raise) and src(body[k].body[0].exc).startswith("TypeError("), "enqueue_trial: TypeError")
        type_check = True
        k += 1
    guard = ".never"
    if isinstance(body[k], ast.If) and isinstance(body[k].body[-1], ast.Return) and body[k].body[-1].value is None:
        t = src(body[k].test)
        table = {"skip_if_exists and self._should_skip_enqueue(params)": ".flagAndShould", "self._should_skip_enqueue(params)": ".should", "skip_if_exists": ".flag"}
        need(t in table and not body[k].orelse, "enqueue_trial: skip guard %s" % t)
        guard = table[t]
        k += 1
    need(len(body) == k + 1 and isinstance(body[k], ast.Expr) and isinstance(body[k].value, ast.Call), "enqueue_trial: final hand-off")
    call = body[k].value
    hf = src(call.func)
    need(hf in ("self.add_trial", "self._storage.create_new_trial"), "enqueue_trial: hand-off to %s" % hf)
    via_add = hf == "self.add_trial"
    if via_add:
        need(len(call.args) == 1 and not call.keywords, "enqueue_trial: add_trial arguments")
        ct = call.args[0]
    else:
        need(len(call.args) == 1 and src(call.args[0]) == "self._study_id" and [kw.arg for kw in call.keywords] == ["template_trial"], "enqueue_trial: create_new_trial arguments")
        ct = call.keywords[0].value
    need(isinstance(ct, ast.Call) and src(ct.func) == "create_trial" and not ct.args, "enqueue_trial: create_trial(...)")
    kws = {kw.arg: kw.value for kw in ct.keywords}
    need(set(kws) <= {"state", "system_attrs", "user_attrs"} and "state" in kws, "enqueue_trial: create_trial keywords %s" % sorted(kws))
    sname = src(kws["state"])
    need(sname.startswith("TrialState.") and sname.split(".")[1] in ("WAITING", "RUNNING", "COMPLETE", "PRUNED", "FAIL"), "enqueue_trial: state %s" % sname)
    sys_key = "none"
    if "system_attrs" in kws:
        d = kws["system_attrs"]
        need(isinstance(d, ast.Dict) and len(d.keys) == 1 and isinstance(d.keys[0], ast.Constant) and isinstance(d.keys[0].value, str) and src(d.values[0]) == "params",
             "enqueue_trial: system_attrs %s" % src(d))
        sys_key = "(some %s)" % lstr(d.keys[0].value)
    ua = "user_attrs" in kws
    if ua:
        need(src(kws["user_attrs"]) == "user_attrs", "enqueue_trial: user_attrs argument")
    enq_ir = "{ typeCheck := %s, skipGuard := %s, state := .%s, sysKey := %s, userAttrs := %s, viaAddTrial := %s }" % (
        "true" if type_check else "false", guard, sname.split(".")[1].lower().replace("complete", "complete"), sys_key, "true" if ua else "false", "true" if via_add else "false")

    # ---- add_trial / add_trials -----------------------------------------------------------------------------------
    f = method(study, "Study", "add_trial")
    body = strip_doc(f.body)
    k = 0
    validate = False
    if src(body[k]) == "trial._validate()":
        validate = True
        k += 1
    values_check = False
    if isinstance(body[k], ast.If) and src(body[k].test) == "trial.values is not None and len(self.directions) != len(trial.values)":
        need(len(body[k].body) == 1 and isinstance(body[k].body[0], ast.Raise) and src(body[k].body[0].exc).startswith("ValueError("), "add_trial: ValueError")
        values_check = True
        k += 1
    need(len(body) == k + 1 and isinstance(body[k], ast.Expr) and isinstance(body[k].value, ast.Call) and src(body[k].value.func) == "self._storage.create_new_trial", "add_trial: create_new_trial")
    call = body[k].value
    need(len(call.args) == 1 and src(call.args[0]) == "self._study_id", "add_trial: study id argument")
    if not call.keywords:
        tm = ".none_"
    else:
        need([kw.arg for kw in call.keywords] == ["template_trial"], "add_trial: keywords")
        tv = call.keywords[0].value
        if src(tv) == "trial":
            tm = ".trial"
        else:
            need(isinstance(tv, ast.Call) and src(tv.func) in ("create_trial", "FrozenTrial") and not tv.args, "add_trial: template %s" % src(tv))
            given = {kw.arg for kw in tv.keywords if src(kw.value) == "trial.%s" % kw.arg}
            need(given == {kw.arg for kw in tv.keywords}, "add_trial: template fields must be trial.<field>")
            allf = ["state", "values", "params", "distributions", "user_attrs", "system_attrs", "intermediate_values"]
            need("state" in given and given <= set(allf), "add_trial: template fields %s" % sorted(given))
            tm = "(.without [%s])" % ", ".join(lstr(x) for x in allf if x not in given)
    add_ir = "{ validate := %s, valuesCheck := %s, tmpl := %s }" % ("true" if validate else "false", "true" if values_check else "false", tm)

    f = method(study, "Study", "add_trials")
    body = strip_doc(f.body)
    need(len(body) == 1 and isinstance(body[0], ast.For) and src(body[0].target) == "trial" and src(body[0].iter) == "trials", "add_trials: loop")
    each = [src(s) for s in body[0].body] == ["self.add_trial(trial)"]
    need(each, "add_trials: body %s" % [src(s) for s in body[0].body])

    # ---- ask ---------------------------------------------------------------------------------------------------------
    f = method(study, "Study", "ask")
    body = strip_doc(f.body)
    stmts: list[str] = []
    fails = False

    def ask_stmt(s: ast.stmt) -> None:
        nonlocal fails
        t = src(s)
        if isinstance(s, ast.If) and "is_heartbeat_enabled" in src(s.test):
            stmts.append(".warnHeartbeat")
        elif t == "fixed_distributions = fixed_distributions or {}":
            stmts.append(".normFixed")
        elif t.startswith("fixed_distributions = {key: _convert_old_distribution_to_new_distribution(dist)"):
            pass  # second half of the normalisation
        elif t == "self._thread_local.cached_all_trials = None":
            stmts.append(".clearCache")
        elif t == "trial_id = self._pop_waiting_trial_id()":
            stmts.append(".pop")
        elif isinstance(s, ast.If) and src(s.test) == "trial_id is None" and [src(x) for x in s.body] == ["trial_id = self._storage.create_new_trial(self._study_id)"] and not s.orelse:
            stmts.append(".createIfNone")
        elif t == "trial_id = self._storage.create_new_trial(self._study_id)":
            stmts.append(".create")
        elif t == "trial = optuna.Trial(self, trial_id)":
            stmts.append(".construct")
        elif t in ("trial.relative_params", "_ = trial.relative_params"):
            stmts.append(".forceRelative")
        elif isinstance(s, ast.For) and src(s.target) == "(name, param)" and src(s.iter) == "fixed_distributions.items()" and [src(x) for x in s.body] == ["trial._suggest(name, param)"]:
            stmts.append(".suggestFixed")
        elif t == "return trial":
            stmts.append(".ret")
        elif isinstance(s, ast.Try):
            need(len(s.handlers) == 1 and not s.orelse and not s.finalbody, "ask: try shape")
            h = s.handlers[0]
            need(src(h.type) == "(Exception, KeyboardInterrupt)" and isinstance(h.body[-1], ast.Raise) and h.body[-1].exc is None, "ask: handler %s" % src(h.type))
            fails = any("set_trial_state_values(trial_id, TrialState.FAIL)" in src(x) for x in h.body)
            for x in s.body:
                ask_stmt(x)
        else:
            raise Untranslatable("ask: statement %s" % t[:120])

    for s in body:
        ask_stmt(s)
    ask_ir = "{ body := [%s], failsTrialOnException := %s }" % (", ".join(stmts), "true" if fails else "false")

    # ---- Trial.__init__ -----------------------------------------------------------------------------------------------
    f = method(trial, "Trial", "__init__")
    body = strip_doc(f.body)
    texts = [src(s) for s in body]
    cached = next((t for t in texts if t.startswith("self._cached_frozen_trial = ")), None)
    need(cached is not None, "Trial.__init__: _cached_frozen_trial")
    from_get = "self.storage.get_trial(self._trial_id)" in cached
    deep = cached.startswith("self._cached_frozen_trial = copy.deepcopy(")
    need("self._trial_id = trial_id" in texts and "self.storage = self.study._storage" in texts, "Trial.__init__: trial id / storage")
    fx = next((s for s in body if isinstance(s, (ast.Assign, ast.AnnAssign)) and src(s.targets[0] if isinstance(s, ast.Assign) else s.target) == "self._fixed_params"), None)
    need(fx is not None and isinstance(fx.value, ast.Call) and src(fx.value.func) == "self._cached_frozen_trial.system_attrs.get" and 1 <= len(fx.value.args) <= 2
         and isinstance(fx.value.args[0], ast.Constant) and isinstance(fx.value.args[0].value, str), "Trial.__init__: _fixed_params = %s" % (src(fx.value) if fx is not None else "?"))
    dflt = len(fx.value.args) == 2 and src(fx.value.args[1]) == "{}"
    init_ir = "{ fromStorageGetTrial := %s, deepcopy := %s, key := %s, defaultEmpty := %s }" % (
        "true" if from_get else "false", "true" if deep else "false", lstr(fx.value.args[0].value), "true" if dflt else "false")

    out = ["import OptunaVerif.Model.EnqueueIR",
           "/-! GENERATED by verif/translators/tenqueue.py from optuna/study/study.py and optuna/trial/_trial.py — do not edit.",
           "sha1 of the sources: %s -/" % info["sha1_of_sources"],
           "namespace OptunaVerif.Generated.EnqueueMethods", "open OptunaVerif OptunaVerif.EnqueueIR", "",
           "/-- `Study._should_skip_enqueue` -/", "def skip : SkipIR := %s" % skip_ir, "",
           "/-- `Study.enqueue_trial` -/", "def enqueue : EnqIR := %s" % enq_ir, "",
           "/-- `Study.add_trial` -/", "def add : AddIR := %s" % add_ir, "",
           "/-- `Study.add_trials` -/", "def addMany : AddManyIR := { eachViaAddTrial := true }", "",
           "/-- `Study.ask` -/", "def ask : AskIR := %s" % ask_ir, "",
           "/-- `Trial.__init__` -/", "def init : InitIR := %s" % init_ir, "",
           "end OptunaVerif.Generated.EnqueueMethods", ""]
    info["fields"] = {"skip": skip_ir, "enqueue": enq_ir, "add": add_ir, "ask": ask_ir, "init": init_ir}
    return "\n".join(out), info


if __name__ == "__main__":
    import sys

    print(translate(sys.argv[1] if len(sys.argv) > 1 else "/repo")[0])
