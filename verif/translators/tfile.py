"""T-file (C07 / C05): `optuna/storages/journal/_file.py` -> Lean DATA (lean/OptunaVerif/Generated/JournalFileMethods.lean).

Read with Python `ast` on every run:

  JournalFileBackend.read_logs     `logs = []`, then `with open(self._file_path, "rb") as f:` holding the statements before the loop
                                   (`PStmt`), `for log_number, line in enumerate(f, start=log_number_start):` whose body is a list of
                                   `RStmt`, and `return logs`
  JournalFileBackend.append_logs   the body of `with get_lock_file(self._lock):` flattened into `AStep`s (a nested `with open(..)` becomes an
                                   open/close pair; `f.write` goes to the handle of the innermost open block)
  get_lock_file                    must literally be `lock_obj.acquire()` / `try: yield` / `finally: lock_obj.release()`
  JournalFileSymlinkLock / JournalFileOpenLock   `acquire` and `release` as `LStmt` trees

Every constructor of the IR (Model/FileIR.lean) stands for ONE whitelisted source shape, compared literally (position-free
`ast.dump`).  Anything else raises `Untranslatable`: that part is emitted empty (its obligations in Props/C07FileGen.lean fail,
each under its own name) and `regenerate` (verif/props/c07_file_gen.py) reports chk.broke("translation", ...).
"""
from __future__ import annotations

import ast
import os
from typing import Any

from verif.translators.tjournal import U, Untranslatable, is_src

REL = "optuna/storages/journal/_file.py"


def strip_doc(body: list[ast.stmt]) -> list[ast.stmt]:
    if body and isinstance(body[0], ast.Expr) and isinstance(body[0].value, ast.Constant) and isinstance(body[0].value.value, str):
        return body[1:]
    return body


def one_with(st: ast.stmt, ctx: str, var: str | None) -> bool:
    if not (isinstance(st, ast.With) and len(st.items) == 1 and is_src(st.items[0].context_expr, ctx)):
        return False
    ov = st.items[0].optional_vars
    return (ov is None) if var is None else (isinstance(ov, ast.Name) and ov.id == var)


def params(fn: ast.FunctionDef) -> list[str]:
    a = fn.args
    if fn.decorator_list or a.vararg or a.kwarg or a.kwonlyargs or a.posonlyargs:
        raise U(fn, "unexpected signature")
    return [x.arg for x in a.args]


# ---- read_logs ------------------------------------------------------------------------------------------------------
PRE = [
    ("remaining_log_size = os.stat(self._file_path).st_size", "statSize"),
    ("log_number_start = 0", "startZero"),
    ("last_decode_error = None", "pendingNone"),
]
PRE_IN_IF = [
    ("f.seek(self._log_number_offset[log_number_from])", "seekCached"),
    ("log_number_start = log_number_from", "startFrom"),
    ("remaining_log_size -= self._log_number_offset[log_number_from]", "subCached"),
]
RCOND = [
    ("remaining_log_size < 0", "remainingNeg"),
    ("last_decode_error is not None", "pendingSet"),
    ("log_number + 1 not in self._log_number_offset", "nextNotCached"),
    ('not line.endswith(b"\\n")', "notTerminated"),
    ("log_number < log_number_from", "beforeFrom"),
]
RSIMPLE = [
    ("byte_len = len(line)", "bindLen"),
    ("remaining_log_size -= byte_len", "decRemaining"),
    ("self._log_number_offset[log_number + 1] = self._log_number_offset[log_number] + byte_len", "setNext"),
    ("del self._log_number_offset[log_number + 1]", "delNext"),
    ('last_decode_error = ValueError("Invalid log format.")', "setPending"),
    ("last_decode_error = err", "setPending"),
    ("raise last_decode_error", "raisePending"),
]


def r_stmts(body: list[ast.stmt], in_handler: bool = False) -> list[Any]:
    out: list[Any] = []
    for st in body:
        if isinstance(st, ast.Break):
            out.append("break_")
            continue
        if isinstance(st, ast.Continue):
            out.append("continue_")
            continue
        for text, name in RSIMPLE:
            if is_src(st, text):
                if text == "last_decode_error = err" and not in_handler:
                    raise U(st, "`err` is only bound inside the JSONDecodeError handler")
                out.append(name)
                break
        else:
            if isinstance(st, ast.If):
                if st.orelse:
                    raise U(st, "an `if` with an `else` branch in the read loop is not whitelisted")
                for text, name in RCOND:
                    if is_src(st.test, text):
                        out.append(("ite", name, r_stmts(st.body, in_handler)))
                        break
                else:
                    raise U(st.test, "condition in the read loop is not whitelisted")
            elif isinstance(st, ast.Try):
                if in_handler or st.orelse or st.finalbody or len(st.handlers) != 1 or len(st.body) != 1 or not is_src(st.body[0], "logs.append(json.loads(line))"):
                    raise U(st, "only `try: logs.append(json.loads(line))` with one handler")
                h = st.handlers[0]
                if h.type is None or not is_src(h.type, "json.JSONDecodeError") or h.name != "err":
                    raise U(st, "the handler must be `except json.JSONDecodeError as err:`")
                out.append(("tryDecode", r_stmts(h.body, True)))
            else:
                raise U(st, "statement in the read loop is not whitelisted")
    return out


def t_read(fn: ast.FunctionDef) -> dict[str, Any]:
    if params(fn) != ["self", "log_number_from"]:
        raise U(fn, "read_logs(self, log_number_from) expected")
    body = strip_doc(fn.body)
    if len(body) != 2 or not is_src(body[0], "logs = []") or not one_with(body[1], 'open(self._file_path, "rb")', "f"):
        raise U(fn, 'expected `logs = []` and one `with open(self._file_path, "rb") as f:` block')
    pre: list[Any] = ["logsEmpty"]
    inner = body[1].body  # type: ignore[attr-defined]
    k = next((i for i, st in enumerate(inner) if isinstance(st, ast.For)), None)
    if k is None:
        raise U(fn, "no for loop over the lines")
    for st in inner[:k]:
        for text, name in PRE:
            if is_src(st, text):
                pre.append(name)
                break
        else:
            if isinstance(st, ast.If) and not st.orelse and is_src(st.test, "log_number_from in self._log_number_offset"):
                sub = []
                for x in st.body:
                    for text, name in PRE_IN_IF:
                        if is_src(x, text):
                            sub.append(name)
                            break
                    else:
                        raise U(x, "statement under `if log_number_from in self._log_number_offset:` is not whitelisted")
                pre.append(("ifFromCached", sub))
            else:
                raise U(st, "statement before the read loop is not whitelisted")
    loop = inner[k]
    assert isinstance(loop, ast.For)
    if loop.orelse or ast.unparse(loop.target) != "(log_number, line)" or not is_src(loop.iter, "enumerate(f, start=log_number_start)"):
        raise U(loop, "the loop must be `for log_number, line in enumerate(f, start=log_number_start):`")
    rest = inner[k + 1:]
    returns = len(rest) == 1 and is_src(rest[0], "return logs")
    if not returns:
        raise U(fn, "`return logs` must follow the loop inside the with block")
    return {"pre": pre, "body": r_stmts(loop.body), "returns": returns}


# ---- append_logs ----------------------------------------------------------------------------------------------------
SCAN = 'while pos > 0:\n    f.seek(pos - 1)\n    if f.read(1) == b"\\n":\n        break\n    pos -= 1'
BUF = 'what_to_write = "\\n".join([json.dumps(log, separators=(",", ":")) for log in logs]) + "\\n"'
ASIMPLE = [
    (BUF, "buildBuffer"),
    ("size = f.seek(0, os.SEEK_END)", "seekEnd"),
    ("pos = size", "posFromSize"),
    (SCAN, "scanBack"),
    ("if pos != size:\n    f.truncate(pos)", "truncateIfShort"),
    ("f.seek(pos)", "seekPos"),
    ('f.write(what_to_write.encode("utf-8"))', "writeBuffer"),
    ("f.flush()", "flush"),
    ("os.fsync(f.fileno())", "fsync"),
]


def a_steps(body: list[ast.stmt], depth: int) -> list[str]:
    out: list[str] = []
    for st in body:
        for text, name in ASIMPLE:
            if is_src(st, text):
                out.append(name)
                break
        else:
            if one_with(st, 'open(self._file_path, "rb+")', "f"):
                if depth:
                    raise U(st, "nested open blocks are not whitelisted")
                out += ["openRW"] + a_steps(st.body, depth + 1) + ["closeRW"]  # type: ignore[attr-defined]
            elif one_with(st, 'open(self._file_path, "ab")', "f"):
                if depth:
                    raise U(st, "nested open blocks are not whitelisted")
                out += ["openAppend"] + a_steps(st.body, depth + 1) + ["closeAppend"]  # type: ignore[attr-defined]
            else:
                raise U(st, "statement of append_logs is not whitelisted")
    return out


def t_append(fn: ast.FunctionDef, glf: ast.FunctionDef | None) -> list[str]:
    if params(fn) != ["self", "logs"]:
        raise U(fn, "append_logs(self, logs) expected")
    body = strip_doc(fn.body)
    if len(body) != 1 or not one_with(body[0], "get_lock_file(self._lock)", None):
        raise U(fn, "the whole body must be `with get_lock_file(self._lock):`")
    if glf is None:
        raise Untranslatable("get_lock_file", "function not found")
    gb = strip_doc(glf.body)
    if [x.arg for x in glf.args.args] != ["lock_obj"] or len(gb) != 2 or not is_src(gb[0], "lock_obj.acquire()") or not is_src(
            gb[1], "try:\n    yield\nfinally:\n    lock_obj.release()") or [ast.unparse(d) for d in glf.decorator_list] != ["contextmanager"]:
        raise U(glf, "get_lock_file must be `lock_obj.acquire()` / `try: yield` / `finally: lock_obj.release()` under @contextmanager")
    return ["lockEnter"] + a_steps(body[0].body, 0) + ["lockExit"]  # type: ignore[attr-defined]


# ---- lock classes ---------------------------------------------------------------------------------------------------
CALLS = [
    ("os.symlink(self._lock_target_file, self._lock_file)", ["symlink"]),
    ("open_flags = os.O_CREAT | os.O_EXCL | os.O_WRONLY", []),
    ("os.close(os.open(self._lock_file, open_flags))", ["openExcl", "close"]),
    ("os.close(os.open(self._lock_file, os.O_CREAT | os.O_EXCL | os.O_WRONLY))", ["openExcl", "close"]),
]
BASE_HANDLER = "self.release()\nraise"


def is_handler(h: ast.ExceptHandler, typ: str | None, name: str | None) -> bool:
    return ((h.type is None) if typ is None else (h.type is not None and is_src(h.type, typ))) and h.name == name


def l_stmts(body: list[ast.stmt]) -> list[Any]:
    out: list[Any] = []
    i = 0
    while i < len(body):
        st = body[i]
        if is_src(st, "sleep_secs = 0.001") and i + 2 < len(body) and is_src(body[i + 1], "last_update_monotonic_time = time.monotonic()") \
                and is_src(body[i + 2], "mtime = None") and not out:
            out.append("initTimer")
            i += 3
            continue
        if isinstance(st, ast.While) and is_src(st.test, "True") and not st.orelse:
            out.append(("whileTrue", l_stmts(st.body)))
        elif isinstance(st, ast.Try) and st.body and is_src(st.body[-1], "return True"):
            calls: list[str] = []
            for x in st.body[:-1]:
                for text, cs in CALLS:
                    if is_src(x, text):
                        calls += cs
                        break
                else:
                    raise U(x, "creating call is not whitelisted")
            if st.orelse or st.finalbody or len(st.handlers) != 2 or not is_handler(st.handlers[0], "OSError", "err") or not is_handler(
                    st.handlers[1], "BaseException", None) or "\n".join(ast.unparse(x) for x in st.handlers[1].body) != BASE_HANDLER:
                raise U(st, "handlers must be `except OSError as err:` and `except BaseException: self.release(); raise`")
            hb = st.handlers[0].body
            if len(hb) != 2 or not isinstance(hb[0], ast.If) or hb[0].orelse or not is_src(hb[0].test, "err.errno == errno.EEXIST") or not is_src(hb[1], "raise err"):
                raise U(st.handlers[0], "OSError handler must be `if err.errno == errno.EEXIST: ...` then `raise err`")
            out.append(("tryCreate", calls, l_stmts(hb[0].body)))
        elif isinstance(st, ast.If) and not st.orelse and is_src(st.test, "self.grace_period is not None"):
            out.append(("ifGrace", l_stmts(st.body)))
        elif isinstance(st, ast.Try) and len(st.body) == 1 and isinstance(st.body[0], ast.Assign) and len(st.body[0].targets) == 1 and ast.unparse(st.body[0].targets[0]) == "current_mtime":
            v = st.body[0].value
            c = "lstat" if is_src(v, "os.lstat(self._lock_file).st_mtime") else "stat" if is_src(v, "os.stat(self._lock_file).st_mtime") else None
            if c is None or st.orelse or st.finalbody or len(st.handlers) != 1 or not is_handler(st.handlers[0], "OSError", None) or not (
                    len(st.handlers[0].body) == 1 and isinstance(st.handlers[0].body[0], ast.Continue)):
                raise U(st, "sampling must be `try: current_mtime = os.(l)stat(self._lock_file).st_mtime` / `except OSError: continue`")
            out.append(("trySample", c))
        elif isinstance(st, ast.If) and not st.orelse and is_src(st.test, "current_mtime != mtime") and st.body and is_src(st.body[0], "mtime = current_mtime"):
            out.append(("ifChanged", l_stmts(st.body[1:])))
        elif is_src(st, "last_update_monotonic_time = time.monotonic()"):
            out.append("readTimer")
        elif isinstance(st, ast.If) and not st.orelse and is_src(st.test, "time.monotonic() - last_update_monotonic_time > self.grace_period"):
            b = st.body
            if b and isinstance(b[0], ast.Expr) and isinstance(b[0].value, ast.Call) and is_src(b[0].value.func, "warnings.warn"):
                b = b[1:]
            out.append(("ifExpired", l_stmts(b)))
        elif isinstance(st, ast.Try) and st.body and is_src(st.body[0], "self.release()"):
            if st.orelse or st.finalbody or len(st.handlers) != 1 or not is_handler(st.handlers[0], "RuntimeError", None) or not (
                    len(st.handlers[0].body) == 1 and isinstance(st.handlers[0].body[0], ast.Continue)):
                raise U(st, "takeover must be `try: self.release() ...` / `except RuntimeError: continue`")
            out.append(("tryRelease", l_stmts(st.body[1:])))
        elif is_src(st, "sleep_secs = 0.001"):
            out.append("resetSleep")
        elif is_src(st, "time.sleep(sleep_secs)"):
            out.append("sleep")
        elif is_src(st, "sleep_secs = min(sleep_secs * 2, 1)"):
            out.append("growSleep")
        elif isinstance(st, ast.Continue):
            out.append("continue_")
        elif is_src(st, "lock_rename_file = self._lock_file + str(uuid.uuid4()) + RENAME_FILE_SUFFIX"):
            out.append("uniqueName")
        elif isinstance(st, ast.Try):
            calls = []
            for x in st.body:
                if is_src(x, "os.rename(self._lock_file, lock_rename_file)"):
                    calls.append("rename")
                elif is_src(x, "os.unlink(lock_rename_file)"):
                    calls.append("unlink")
                else:
                    raise U(x, "call inside release() is not whitelisted")
            if st.orelse or st.finalbody or len(st.handlers) != 2 or not is_handler(st.handlers[0], "OSError", None) or not is_src(
                    st.handlers[0].body[0], 'raise RuntimeError("Error: did not possess lock")') or len(st.handlers[0].body) != 1 or not is_handler(
                    st.handlers[1], "BaseException", None) or "\n".join(ast.unparse(x) for x in st.handlers[1].body) != "os.unlink(lock_rename_file)\nraise":
                raise U(st, "release(): handlers must be `except OSError: raise RuntimeError(...)` and `except BaseException: os.unlink(..); raise`")
            out.append(("tryOs", calls))
        else:
            raise U(st, "statement of the lock class is not whitelisted")
        i += 1
    return out


def t_lock(cdef: ast.ClassDef) -> dict[str, Any]:
    ms = {n.name: n for n in cdef.body if isinstance(n, ast.FunctionDef)}
    for m in ("acquire", "release"):
        if m not in ms or params(ms[m]) != ["self"]:
            raise Untranslatable("%s.%s" % (cdef.name, m), "method (self) not found")
    extra = sorted(set(ms) - {"__init__", "acquire", "release"})
    if extra:
        raise Untranslatable(cdef.name, "unexpected methods %s" % extra)
    return {"acquire": l_stmts(strip_doc(ms["acquire"].body)), "release": l_stmts(strip_doc(ms["release"].body))}


# ---- rendering ------------------------------------------------------------------------------------------------------
def r_list(xs: list[str]) -> str:
    return "[" + ", ".join(xs) + "]"


def r_p(s: Any) -> str:
    return "." + s if isinstance(s, str) else ".ifFromCached " + r_list([r_p(x) for x in s[1]])


def r_r(s: Any) -> str:
    if isinstance(s, str):
        return "." + s
    if s[0] == "ite":
        return ".ite .%s %s" % (s[1], r_list([r_r(x) for x in s[2]]))
    return ".tryDecode " + r_list([r_r(x) for x in s[1]])


def r_l(s: Any) -> str:
    if isinstance(s, str):
        return "." + s
    if s[0] == "tryCreate":
        return ".tryCreate %s %s" % (r_list(["." + c for c in s[1]]), r_list([r_l(x) for x in s[2]]))
    if s[0] == "trySample":
        return ".trySample ." + s[1]
    if s[0] == "tryOs":
        return ".tryOs " + r_list(["." + c for c in s[1]])
    return ".%s %s" % (s[0], r_list([r_l(x) for x in s[1]]))


def translate(repo: str) -> tuple[str, dict[str, Any], list[dict[str, str]]]:
    problems: list[dict[str, str]] = []
    tree = ast.parse(open(os.path.join(repo, REL)).read())
    classes = {n.name: n for n in tree.body if isinstance(n, ast.ClassDef)}
    funcs = {n.name: n for n in tree.body if isinstance(n, ast.FunctionDef)}
    info: dict[str, Any] = {}

    def attempt(what: str, f: Any) -> Any:
        try:
            return f()
        except Untranslatable as e:
            problems.append({"what": what, "why": str(e)})
            return None

    be = classes.get("JournalFileBackend")
    bms = {n.name: n for n in be.body if isinstance(n, ast.FunctionDef)} if be is not None else {}

    def need(name: str) -> ast.FunctionDef:
        if name not in bms:
            raise Untranslatable("JournalFileBackend.%s" % name, "method not found")
        return bms[name]

    rd = attempt("JournalFileBackend.read_logs", lambda: t_read(need("read_logs")))
    ap = attempt("JournalFileBackend.append_logs", lambda: t_append(need("append_logs"), funcs.get("get_lock_file")))
    locks = {}
    for cname in ("JournalFileSymlinkLock", "JournalFileOpenLock"):
        def f(cname: str = cname) -> Any:
            if cname not in classes:
                raise Untranslatable(cname, "class not found")
            return t_lock(classes[cname])
        locks[cname] = attempt(cname, f)
    info.update(read=rd, append=ap, locks=locks)

    L = ["import OptunaVerif.Model.FileIR",
         "/-! GENERATED by verif/translators/tfile.py from %s on every check run - do not edit. -/" % REL,
         "namespace OptunaVerif.Generated.JournalFileMethods", "open OptunaVerif OptunaVerif.FileIR", ""]
    why = {p["what"]: p["why"].replace("-/", "- /") for p in problems}
    L.append("/-- `JournalFileBackend.read_logs`%s -/" % ("" if rd else " UNTRANSLATABLE: " + why.get("JournalFileBackend.read_logs", "")))
    L.append("def readLogsProg : ReadProg where")
    if rd:
        L += ["  pre := " + r_list([r_p(x) for x in rd["pre"]]), "  body := " + r_list([r_r(x) for x in rd["body"]]), "  returnsLogs := true", ""]
    else:
        L += ["  pre := []", "  body := []", "  returnsLogs := false", ""]
    L.append("/-- `JournalFileBackend.append_logs`%s -/" % ("" if ap else " UNTRANSLATABLE: " + why.get("JournalFileBackend.append_logs", "")))
    L.append("def appendLogsSteps : List AStep :=")
    L += ["  " + r_list(["." + x for x in (ap or [])]), ""]
    for cname, lean in (("JournalFileSymlinkLock", "symlinkLock"), ("JournalFileOpenLock", "openLock")):
        lk = locks[cname]
        L.append("/-- `%s`%s -/" % (cname, "" if lk else " UNTRANSLATABLE: " + why.get(cname, "")))
        L.append("def %s : LockProg where" % lean)
        L.append("  acquire := " + r_list([r_l(x) for x in (lk["acquire"] if lk else [])]))
        L.append("  release := " + r_list([r_l(x) for x in (lk["release"] if lk else [])]))
        L.append("")
    L += ["def lockOf : FileLock.Kind → LockProg", "  | .symlink => symlinkLock", "  | .openExcl => openLock", "",
          "end OptunaVerif.Generated.JournalFileMethods"]
    return "\n".join(L) + "\n", info, problems


if __name__ == "__main__":
    import sys

    text, info, problems = translate(sys.argv[1] if len(sys.argv) > 1 else "/repo")
    print(text)
    for p in problems:
        print("-- PROBLEM", p, file=sys.stderr)
