"""T-ga (C09): the generation / parent-cache methods of the GA samplers -> Lean DATA (lean/OptunaVerif/Generated/GaMethods.lean).

Read with Python `ast` on every run:
  optuna/samplers/_ga/_base.py         BaseGASampler.get_trial_generation / get_population / get_parent_population (whole bodies)
  optuna/samplers/nsgaii/_sampler.py   NSGAIISampler.select_parent (the elite call on population(g-1) + parents(g-1)) and
                                       sample_relative (generation, parents, `{}` for no parents, child generation)
  optuna/samplers/_nsgaiii/_sampler.py site level: the trial list, the cache READ `[trials[n] for n in cached_population_numbers]`, the
                                       WRITE of `[t.number for t in population]`, the lookup with its default, the no-running gate, the
                                       generation write of sample_relative

Bodies become terms of the statement language of `Model/GaIR.lean`; each primitive stands for ONE whitelisted source shape.  Anything
else raises `Untranslatable`: the method is emitted as the stub `.raise .unrepresentable` (its equality theorem in Props/C09Gen.lean
then fails) and `regenerate` reports chk.broke("translation", ...).
"""
from __future__ import annotations

import ast
import os
from typing import Any

from verif.translators.tbrute import Block, Lit, U, Untranslatable, count_nodes, is_doc, is_none_test, is_src, pure_message, r

BASE_REL = "optuna/samplers/_ga/_base.py"
N2_REL = "optuna/samplers/nsgaii/_sampler.py"
N3_REL = "optuna/samplers/_nsgaiii/_sampler.py"
TSTATE = {"RUNNING": "running", "COMPLETE": "complete", "PRUNED": "pruned", "FAIL": "fail", "WAITING": "waiting"}
CMP = {ast.Lt: "lt", ast.LtE: "le", ast.Gt: "gt", ast.GtE: "ge", ast.Eq: "eq", ast.NotEq: "ne"}
STUB = "(.raise .unrepresentable)"
GKEY = "self._get_generation_key()"
KEY_GEN = "self._get_parent_cache_key_prefix() + str(generation)"
KEY_ONLY = "self._get_parent_cache_key_prefix()"
READS = {"[trials[trial_id] for trial_id in cached_parent_population_ids]": "byIndex",
         "[next((t for t in trials if t._trial_id == trial_id)) for trial_id in cached_parent_population_ids]": "byIdLookup",
         "[next((t for t in trials if t.number == trial_id)) for trial_id in cached_parent_population_ids]": "byNumberLookup"}
WRITES = {"[trial._trial_id for trial in parent_population]": "ids", "[trial.number for trial in parent_population]": "numbers"}


def int_lit(n: ast.AST) -> "int | None":
    if isinstance(n, ast.Constant) and type(n.value) is int:
        return n.value
    if isinstance(n, ast.UnaryOp) and isinstance(n.op, ast.USub) and isinstance(n.operand, ast.Constant) and type(n.operand.value) is int:
        return -n.operand.value
    return None


def states_of(call: ast.Call) -> "list[str] | None | str":
    """`study._get_trials(deepcopy=False[, states=[...], use_cache=True])` -> list of states / None (no filter) / "bad" """
    if not (is_src(call.func, "study._get_trials") and not call.args):
        return "bad"
    kw = {k.arg: k.value for k in call.keywords}
    if not (isinstance(kw.get("deepcopy"), ast.Constant) and kw["deepcopy"].value is False):
        return "bad"
    if set(kw) == {"deepcopy"}:
        return None
    if set(kw) == {"deepcopy", "states", "use_cache"} and isinstance(kw["use_cache"], ast.Constant) and isinstance(kw["use_cache"].value, bool) \
            and isinstance(kw["states"], (ast.List, ast.Tuple)):
        out = []
        for e in kw["states"].elts:
            if isinstance(e, ast.Attribute) and is_src(e.value, "TrialState") and e.attr in TSTATE:
                out.append(TSTATE[e.attr])
            else:
                return "bad"
        return out
    return "bad"


def r_states(s: "list[str] | None") -> Any:
    return "none" if s is None else ("some", s)


class GaCtx:
    def __init__(self, method: str) -> None:
        self.method = method
        self.locals: set[str] = set()
        self.loops = 0

    def block(self, body: list[ast.stmt]) -> Block:
        out = Block()
        for st in body:
            out += self.stmt(st)
        return out

    def iexp(self, n: ast.AST) -> Any:
        v = int_lit(n)
        if v is not None:
            return ("lit", Lit(v))
        if isinstance(n, ast.Name):
            if n.id == "generation":
                return "generation" if "generation" in self.locals else "genArg"
            if n.id == "max_generation" and n.id in self.locals:
                return "maxGen"
            if n.id == "max_generation_count" and n.id in self.locals:
                return "maxCount"
        if is_src(n, "self._population_size"):
            return "popSize"
        if is_src(n, "trial._trial_id"):
            return "trialId"
        if is_src(n, "trial.number"):
            return "trialNumber"
        if isinstance(n, ast.BinOp) and type(n.op) in (ast.Add, ast.Sub, ast.FloorDiv):
            return ({ast.Add: "add", ast.Sub: "sub", ast.FloorDiv: "floordiv"}[type(n.op)], self.iexp(n.left), self.iexp(n.right))
        raise U(n, "integer expression is not in the translated fragment")

    def cond(self, n: ast.AST) -> Any:
        if isinstance(n, ast.UnaryOp) and isinstance(n.op, ast.Not):
            return ("not", self.cond(n.operand))
        if isinstance(n, ast.BoolOp):
            op = "and" if isinstance(n.op, ast.And) else "or"
            out = self.cond(n.values[-1])
            for v in reversed(n.values[:-1]):
                out = (op, self.cond(v), out)
            return out
        for text, tag, need in (("generation", "genIsNone", "generation"), ("cached_parent_population_ids", "cachedIsNone", "cached"),
                                ("self._population_size", "popSizeIsNone", None)):
            t = is_none_test(n, text)
            if t is not None and (need is None or need in self.locals):
                return tag if t else ("not", tag)
        if is_src(n, "len(parent_population) == 0") and "parents" in self.locals:
            return "parentsEmpty"
        if isinstance(n, ast.Compare) and len(n.ops) == 1 and type(n.ops[0]) in CMP:
            return ("cmp", CMP[type(n.ops[0])], self.iexp(n.left), self.iexp(n.comparators[0]))
        raise U(n, "condition is not whitelisted")

    def stmt(self, st: ast.stmt) -> list[Any]:
        m = self.method
        if isinstance(st, ast.Pass) or is_doc(st):
            return []
        if isinstance(st, ast.If):
            return [("ite", self.cond(st.test), self.block(st.body), self.block(st.orelse))]
        if isinstance(st, ast.Continue) and self.loops:
            return ["cont"]
        if isinstance(st, ast.Break) and self.loops:
            return ["brk"]
        if isinstance(st, ast.Assert):
            if st.msg is not None and not pure_message(st.msg):
                raise U(st, "assert message with side effects")
            return [("assert", self.cond(st.test))]
        if isinstance(st, ast.For):
            if st.orelse or not is_src(st.target, "t") or "trials" not in self.locals or self.loops:
                raise U(st, "loop header is not whitelisted")
            if is_src(st.iter, "reversed(trials)"):
                kind = "trialsReversed"
            elif is_src(st.iter, "trials"):
                kind = "trialsInOrder"
            else:
                raise U(st, "loop header is not whitelisted")
            self.loops += 1
            try:
                return [("loop", kind, self.block(st.body))]
            finally:
                self.loops -= 1
        if isinstance(st, ast.Return):
            return [("ret", self.ret(st, st.value))]
        if isinstance(st, ast.AugAssign):
            if is_src(st, "max_generation_count += 1") and "max_generation_count" in self.locals:
                return [("act", ("setMaxCount", ("add", "maxCount", ("lit", Lit(1)))))]
            raise U(st, "augmented assignment is not whitelisted")
        if isinstance(st, ast.Assign) and len(st.targets) == 1:
            tgt, val = st.targets[0], st.value
            if m == "get_trial_generation":
                if is_src(st, "generation = trial.system_attrs.get(%s, None)" % GKEY) and not self.loops:
                    self.locals.add("generation")
                    return [("act", "genFromTrialAttr")]
                if self.loops and is_src(tgt, "generation") and isinstance(val, ast.Call) and is_src(val.func, "t.system_attrs.get") \
                        and len(val.args) == 2 and not val.keywords and is_src(val.args[0], GKEY) and int_lit(val.args[1]) is not None:
                    self.locals.add("generation")
                    return [("act", ("genFromLoopAttr", Lit(int_lit(val.args[1]))))]
                if is_src(tgt, "trials") and isinstance(val, ast.Call) and not self.loops:
                    s = states_of(val)
                    if s != "bad":
                        self.locals.add("trials")
                        return [("act", ("getTrials", r_states(s)))]  # type: ignore[arg-type]
                if is_src(tgt, "(max_generation, max_generation_count)") and isinstance(val, ast.Tuple) and len(val.elts) == 2 \
                        and all(int_lit(e) is not None for e in val.elts) and not self.loops:
                    self.locals |= {"max_generation", "max_generation_count"}
                    return [("act", ("initMax", Lit(int_lit(val.elts[0])), Lit(int_lit(val.elts[1]))))]
                if is_src(tgt, "max_generation") and "max_generation" in self.locals:
                    return [("act", ("setMaxGen", self.iexp(val)))]
                if is_src(tgt, "max_generation_count") and "max_generation_count" in self.locals:
                    return [("act", ("setMaxCount", self.iexp(val)))]
                if is_src(tgt, "generation"):
                    e = self.iexp(val)
                    self.locals.add("generation")
                    return [("act", ("setGen", e))]
            if m == "get_parent_population":
                if is_src(st, "study_system_attrs = study._storage.get_study_system_attrs(study._study_id)"):
                    self.locals.add("attrs")
                    return [("act", "loadStudyAttrs")]
                if is_src(tgt, "cached_parent_population_ids") and "attrs" in self.locals and isinstance(val, ast.Call) \
                        and is_src(val.func, "study_system_attrs.get") and len(val.args) in (1, 2) and not val.keywords \
                        and (len(val.args) == 1 or (isinstance(val.args[1], ast.Constant) and val.args[1].value is None)):
                    for text, tag in ((KEY_GEN, "prefixPlusGen"), (KEY_ONLY, "prefixOnly")):
                        if is_src(val.args[0], text):
                            self.locals.add("cached")
                            return [("act", ("lookupCache", tag))]
                if is_src(st, "trials = study._get_trials(deepcopy=False)") or (is_src(tgt, "trials") and isinstance(val, ast.Call) and states_of(val) != "bad"):
                    self.locals.add("trials")
                    return [("act", ("getTrials", r_states(states_of(val))))]  # type: ignore[arg-type]
                if is_src(st, "parent_population = self.select_parent(study, generation)"):
                    self.locals.add("parents")
                    return [("act", "callSelectParent")]
            if m == "sample_relative":
                if is_src(st, "generation = self.get_trial_generation(study, trial)"):
                    self.locals.add("generation")
                    return [("act", "callTrialGeneration")]
                if is_src(st, "parent_population = self.get_parent_population(study, generation)") and "generation" in self.locals:
                    self.locals.add("parents")
                    return [("act", "callParentPopulation")]
            raise U(st, "assignment is not whitelisted")
        if isinstance(st, ast.Expr) and isinstance(st.value, ast.Call):
            c = st.value
            if m == "get_trial_generation" and is_src(c.func, "study._storage.set_trial_system_attr") and len(c.args) == 3 and not c.keywords \
                    and is_src(c.args[1], GKEY) and is_src(c.args[2], "generation") and "generation" in self.locals:
                return [("act", ("writeTrialAttr", self.iexp(c.args[0])))]
            if m == "get_parent_population" and is_src(c.func, "study._storage.set_study_system_attr") and len(c.args) == 3 and not c.keywords \
                    and is_src(c.args[0], "study._study_id") and "parents" in self.locals:
                key = next((tag for text, tag in ((KEY_GEN, "prefixPlusGen"), (KEY_ONLY, "prefixOnly")) if is_src(c.args[1], text)), None)
                w = next((tag for text, tag in WRITES.items() if is_src(c.args[2], text)), None)
                if key and w:
                    return [("act", ("writeCache", key, w))]
        raise U(st, "statement shape is not whitelisted")

    def ret(self, st: ast.Return, v: "ast.AST | None") -> Any:
        m = self.method
        if v is None or (isinstance(v, ast.Constant) and v.value is None):
            return "none"
        if m == "get_trial_generation" and is_src(v, "generation") and "generation" in self.locals:
            return "generation"
        if m == "get_parent_population":
            if isinstance(v, ast.List) and not v.elts:
                return "emptyList"
            if is_src(v, "parent_population") and "parents" in self.locals:
                return "parentPopulation"
            if {"cached", "trials"} <= self.locals:
                for text, tag in READS.items():
                    if is_src(v, text):
                        return ("readCache", tag)
        if m == "get_population" and isinstance(v, ast.ListComp) and is_src(v.elt, "trial") and len(v.generators) == 1:
            g = v.generators[0]
            if is_src(g.target, "trial") and isinstance(g.iter, ast.Call) and len(g.ifs) == 1 \
                    and is_src(g.ifs[0], "trial.system_attrs.get(%s, None) == generation" % GKEY):
                s = states_of(g.iter)
                if s != "bad":
                    return ("populationOf", r_states(s))  # type: ignore[arg-type]
        if m == "sample_relative":
            if isinstance(v, ast.Dict) and not v.keys:
                return "emptyDict"
            if is_src(v, "self._child_generation_strategy(study, search_space, parent_population)") and "parents" in self.locals:
                return "childGeneration"
        raise U(st, "return value is not whitelisted")


def _cls(tree: ast.Module, name: str, rel: str) -> ast.ClassDef:
    c = next((n for n in tree.body if isinstance(n, ast.ClassDef) and n.name == name), None)
    if c is None:
        raise Untranslatable(name, "class not found in %s" % rel)
    return c


def _fn(body: list[ast.stmt], name: str) -> "ast.FunctionDef | None":
    return next((n for n in body if isinstance(n, ast.FunctionDef) and n.name == name), None)


def translate_select(fn: ast.FunctionDef) -> dict[str, Any]:
    body = [s for s in fn.body if not is_doc(s)]
    if len(body) != 1 or not isinstance(body[0], ast.Return) or not isinstance(body[0].value, ast.Call):
        raise U(fn, "select_parent must be one `return self._elite_population_selection_strategy(study, <population> + <parents>)`")
    c = body[0].value
    if not (is_src(c.func, "self._elite_population_selection_strategy") and len(c.args) == 2 and not c.keywords and is_src(c.args[0], "study")
            and isinstance(c.args[1], ast.BinOp) and isinstance(c.args[1].op, ast.Add)):
        raise U(fn, "select_parent must call the elite strategy on a concatenation")
    ctx = GaCtx("select_parent")

    def arg(n: ast.AST, meth: str) -> Any:
        if isinstance(n, ast.Call) and is_src(n.func, "self.%s" % meth) and len(n.args) == 2 and not n.keywords and is_src(n.args[0], "study"):
            return ctx.iexp(n.args[1])
        return None
    lft, rgt = c.args[1].left, c.args[1].right
    if arg(lft, "get_population") is not None and arg(rgt, "get_parent_population") is not None:
        return {"popGen": arg(lft, "get_population"), "parentGen": arg(rgt, "get_parent_population"), "popFirst": True}
    if arg(rgt, "get_population") is not None and arg(lft, "get_parent_population") is not None:
        return {"popGen": arg(rgt, "get_population"), "parentGen": arg(lft, "get_parent_population"), "popFirst": False}
    raise U(fn, "the concatenation must be get_population(study, e) + get_parent_population(study, e')")


def translate_nsga3(tree: ast.Module) -> tuple[dict[str, Any], list[str]]:
    c = _cls(tree, "NSGAIIISampler", N3_REL)
    cp = _fn(c.body, "_collect_parent_population")
    sr = _fn(c.body, "sample_relative")
    why: list[str] = []
    if cp is None or sr is None:
        raise Untranslatable("NSGAIIISampler", "_collect_parent_population / sample_relative not found")
    stmts = list(ast.walk(cp))

    def has(text: str) -> bool:
        return any(isinstance(s, ast.stmt) and is_src(s, text) for s in stmts)

    def count_stmt(pred: Any) -> int:
        return sum(1 for s in stmts if isinstance(s, ast.stmt) and pred(s))
    d: dict[str, Any] = {}
    d["trialsAreStudyTrials"] = has("trials = study.get_trials(deepcopy=False)") and count_stmt(lambda s: isinstance(s, ast.Assign) and is_src(s.targets[0], "trials")) == 1
    reads = [s for s in stmts if isinstance(s, ast.Assign) and is_src(s.targets[0], "population") and isinstance(s.value, ast.ListComp)]
    d["read"] = "byIndex" if len(reads) == 1 and is_src(reads[0], "population = [trials[n] for n in cached_population_numbers]") else None
    writes = [s for s in stmts if isinstance(s, ast.Assign) and is_src(s.targets[0], "population_numbers")]
    wk = None
    if len(writes) == 1:
        if is_src(writes[0], "population_numbers = [t.number for t in population]"):
            wk = "numbers"
        elif is_src(writes[0], "population_numbers = [t._trial_id for t in population]"):
            wk = "ids"
    setattrs = [s for s in stmts if isinstance(s, ast.Expr) and isinstance(s.value, ast.Call) and is_src(s.value.func, "study._storage.set_study_system_attr")]
    if not (len(setattrs) == 1 and is_src(setattrs[0], "study._storage.set_study_system_attr(study._study_id, cache_key, (generation, population_numbers))")):
        wk = None
    d["write"] = wk
    d["lookupWithDefault"] = has("(cached_generation, cached_population_numbers) = study_system_attrs.get(cache_key, (-1, []))") and any(
        isinstance(s, ast.If) and is_src(s.test, "cached_generation >= generation") for s in stmts)
    gate = [s for s in stmts if isinstance(s, ast.If) and is_src(s.test, "len(generation_to_runnings[generation]) == 0")]
    d["writeOnlyWhenNoneRunning"] = len(gate) == 1 and len(setattrs) == 1 and any(x is setattrs[0] for x in ast.walk(gate[0]))
    srs = [s for s in sr.body if not is_doc(s)]
    d["generationWrite"] = (len(srs) >= 3 and is_src(srs[0], "(parent_generation, parent_population) = self._collect_parent_population(study)")
                            and is_src(srs[1], "generation = parent_generation + 1")
                            and is_src(srs[2], "study._storage.set_trial_system_attr(trial._trial_id, _GENERATION_KEY, generation)"))
    for k, v in d.items():
        if v in (False, None):
            why.append(k)
    return d, why


def translate(repo: str) -> tuple[str, dict[str, Any], list[dict[str, str]]]:
    problems: list[dict[str, str]] = []
    info: dict[str, Any] = {"methods": {}}
    t_base = ast.parse(open(os.path.join(repo, BASE_REL)).read())
    t_n2 = ast.parse(open(os.path.join(repo, N2_REL)).read())
    t_n3 = ast.parse(open(os.path.join(repo, N3_REL)).read())
    base = _cls(t_base, "BaseGASampler", BASE_REL)
    n2 = _cls(t_n2, "NSGAIISampler", N2_REL)
    defs: list[tuple[str, str, str, str]] = []

    def one(fn: "ast.FunctionDef | None", pyname: str, lean: str, tag: str, want: list[str]) -> None:
        try:
            if fn is None:
                raise Untranslatable(pyname, "not found")
            a = fn.args
            if a.vararg or a.kwarg or a.kwonlyargs or a.posonlyargs or a.defaults or [x.arg for x in a.args] != want or fn.decorator_list:
                raise U(fn, "parameters / decorators changed (expected %s)" % want)
            ir = GaCtx(tag).block(fn.body)
            info["methods"][pyname] = count_nodes(ir)
            defs.append((lean, pyname, r(ir), "lines %d-%d" % (fn.lineno, fn.end_lineno or fn.lineno)))
        except Untranslatable as e:
            problems.append({"what": pyname, "why": str(e)})
            info["methods"][pyname] = None
            defs.append((lean, pyname, STUB, "UNTRANSLATABLE: %s" % str(e).replace("-/", "- /")))

    one(_fn(base.body, "get_trial_generation"), "BaseGASampler.get_trial_generation", "getTrialGeneration", "get_trial_generation", ["self", "study", "trial"])
    one(_fn(base.body, "get_population"), "BaseGASampler.get_population", "getPopulation", "get_population", ["self", "study", "generation"])
    one(_fn(base.body, "get_parent_population"), "BaseGASampler.get_parent_population", "getParentPopulation", "get_parent_population",
        ["self", "study", "generation"])
    one(_fn(n2.body, "sample_relative"), "NSGAIISampler.sample_relative", "sampleRelative", "sample_relative", ["self", "study", "trial", "search_space"])
    # select_parent
    sel_text = "{ popGen := .lit 0, parentGen := .lit 0, popFirst := false }"
    try:
        fn = _fn(n2.body, "select_parent")
        if fn is None or [x.arg for x in fn.args.args] != ["self", "study", "generation"]:
            raise Untranslatable("NSGAIISampler.select_parent", "not found / parameters changed")
        sel = translate_select(fn)
        info["methods"]["NSGAIISampler.select_parent"] = 3
        sel_text = "{ popGen := %s, parentGen := %s, popFirst := %s }" % (r(sel["popGen"]), r(sel["parentGen"]), r(Lit(sel["popFirst"])))
    except Untranslatable as e:
        problems.append({"what": "NSGAIISampler.select_parent", "why": str(e)})
        info["methods"]["NSGAIISampler.select_parent"] = None
    # the two key methods must not be overridden by NSGA-II, and the keys must be the class-level ones
    for name in ("get_trial_generation", "get_population", "get_parent_population"):
        if _fn(n2.body, name) is not None:
            problems.append({"what": "NSGAIISampler.%s" % name, "why": "overrides the BaseGASampler method"})
    # NSGA-III
    try:
        n3, why = translate_nsga3(t_n3)
        for w in why:
            problems.append({"what": "NSGAIIISampler cache site `%s`" % w, "why": "the pinned statement was not found (or not exactly once)"})
    except Untranslatable as e:
        problems.append({"what": "NSGAIIISampler", "why": str(e)})
        n3 = {"trialsAreStudyTrials": False, "read": None, "write": None, "lookupWithDefault": False, "writeOnlyWhenNoneRunning": False, "generationWrite": False}
    info["nsga3"] = n3
    L = ["import OptunaVerif.Model.GaIR",
         "/-! GENERATED by verif/translators/tga.py from %s, %s and %s on every check run - do not edit. -/" % (BASE_REL, N2_REL, N3_REL),
         "namespace OptunaVerif.Generated.GaMethods",
         "open OptunaVerif OptunaVerif.GaIR", ""]
    for lean, py, text, comment in defs:
        L.append("/-- `%s` (%s) -/" % (py, comment))
        L.append("def %s : GStmt :=\n  %s\n" % (lean, text))
    L.append("/-- `NSGAIISampler.select_parent` -/")
    L.append("def selectParent : SelectIR :=\n  %s\n" % sel_text)
    L.append("def gaProg : GaProg :=\n  { getTrialGeneration := getTrialGeneration, getPopulation := getPopulation, getParentPopulation := getParentPopulation,\n"
             "    selectParent := selectParent, sampleRelative := sampleRelative }\n")
    L.append("/-- the population cache of `NSGAIIISampler._collect_parent_population` / the generation write of its `sample_relative` -/")
    L.append("def nsga3 : Nsga3IR :=\n  { trialsAreStudyTrials := %s, read := %s, write := %s, lookupWithDefault := %s,\n    writeOnlyWhenNoneRunning := %s, generationWrite := %s }\n" % (
        r(Lit(bool(n3["trialsAreStudyTrials"]))), "." + (n3["read"] or "byNumberLookup"), "." + (n3["write"] or "ids"),
        r(Lit(bool(n3["lookupWithDefault"]))), r(Lit(bool(n3["writeOnlyWhenNoneRunning"]))), r(Lit(bool(n3["generationWrite"])))))
    L.append("end OptunaVerif.Generated.GaMethods")
    return "\n".join(L) + "\n", info, problems


if __name__ == "__main__":
    import sys

    text, info, problems = translate(sys.argv[1] if len(sys.argv) > 1 else "/repo")
    print(text)
    for p in problems:
        print("-- PROBLEM", p, file=sys.stderr)
