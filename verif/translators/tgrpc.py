"""T-grpc (C01, gRPC proxy): regenerate lean/OptunaVerif/Generated/GrpcTables.lean from the source tree.

What is read from the source on every run (Python `ast`; `api.proto` by regular expression, cross-checked
against the descriptor of the importable `api_pb2` module):

  optuna/storages/_grpc/servicer.py  OptunaStorageProxyService.<Rpc>   the `try: self._backend.<m>(..) except <C> as e:
                                     context.abort(code=grpc.StatusCode.<S>, ..)` clauses in source order  -> servicerCatches,
                                     the backend method called                                            -> servicerBackend
                                     `values = list(request.values) if request.values else None`          -> setStateValuesDecode
                                     `_to_proto_trial_state` / `_from_proto_trial_state` if-chains          -> stateToProto/FromProto
                                     `_from_proto_trial(.. values=<expr> ..)`                               -> trialValuesDecode
                                     the `template_trial_is_none` guard of CreateNewTrial                    -> shapeChecks
  optuna/storages/_grpc/client.py    GrpcStorageProxy.<method> / GrpcClientCache._read_trials_from_remote_storage:
                                     the stub method called inside `try`, and the chain
                                     `except grpc.RpcError as e: if e.code() == grpc.StatusCode.<S>: raise <C> from e … raise`
                                                                                                            -> clientRaises, clientMethod
  both files                         every conditional expression over StudyDirection / api_pb2.MINIMIZE|MAXIMIZE
                                                                                                            -> dirToProtoSites, dirFromProtoSites
  optuna/exceptions.py               base classes of the optuna exception classes                           -> excBases
  optuna/trial/_state.py, optuna/study/_study_direction.py, optuna/storages/_grpc/api.proto                 enum numbers

Only whitelisted statement shapes are accepted; anything else is reported as "untranslatable"
(-> chk.broke("translation", …)) and the previous generated file is kept.
"""
from __future__ import annotations

import ast
import os
import re
from typing import Any

from verif import core

OUT = os.path.join(core.LEAN_DIR, "OptunaVerif", "Generated", "GrpcTables.lean")

SERVICER = "optuna/storages/_grpc/servicer.py"
CLIENT = "optuna/storages/_grpc/client.py"
PROTO = "optuna/storages/_grpc/api.proto"

# the 19 RPC methods of api.proto (Lean constructor names are the lower-camel forms)
RPCS = [
    "CreateNewStudy", "DeleteStudy", "SetStudyUserAttribute", "SetStudySystemAttribute", "GetStudyIdFromName",
    "GetStudyNameFromId", "GetStudyDirections", "GetStudyUserAttributes", "GetStudySystemAttributes", "GetAllStudies",
    "CreateNewTrial", "SetTrialParameter", "GetTrialIdFromStudyIdTrialNumber", "SetTrialStateValues",
    "SetTrialIntermediateValue", "SetTrialUserAttribute", "SetTrialSystemAttribute", "GetTrial", "GetTrials",
]
# exception classes the tables may mention (anything else is untranslatable)
EXC = {
    "KeyError": "keyError", "DuplicatedStudyError": "duplicatedStudyError", "UpdateFinishedTrialError": "updateFinishedTrialError",
    "ValueError": "valueError", "RuntimeError": "runtimeError", "OptunaError": "optunaError", "LookupError": "lookupError",
    "Exception": "exception", "BaseException": "baseException",
}
BUILTIN_BASES = {"KeyError": ["LookupError"], "LookupError": ["Exception"], "ValueError": ["Exception"],
                 "RuntimeError": ["Exception"], "Exception": ["BaseException"], "BaseException": []}
STATUS = {
    "OK": "ok", "CANCELLED": "cancelled", "UNKNOWN": "unknown", "INVALID_ARGUMENT": "invalidArgument",
    "DEADLINE_EXCEEDED": "deadlineExceeded", "NOT_FOUND": "notFound", "ALREADY_EXISTS": "alreadyExists",
    "PERMISSION_DENIED": "permissionDenied", "RESOURCE_EXHAUSTED": "resourceExhausted",
    "FAILED_PRECONDITION": "failedPrecondition", "ABORTED": "aborted", "OUT_OF_RANGE": "outOfRange",
    "UNIMPLEMENTED": "unimplemented", "INTERNAL": "internal", "UNAVAILABLE": "unavailable", "DATA_LOSS": "dataLoss",
    "UNAUTHENTICATED": "unauthenticated",
}


class Untranslatable(Exception):
    pass


def lc(name: str) -> str:
    return name[0].lower() + name[1:]


def _chain(n: ast.AST) -> str | None:
    parts = []
    while isinstance(n, ast.Attribute):
        parts.append(n.attr)
        n = n.value
    if isinstance(n, ast.Name):
        parts.append(n.id)
        return ".".join(reversed(parts))
    return None


def _parse(repo: str, rel: str) -> ast.Module:
    try:
        return ast.parse(open(os.path.join(repo, rel)).read())
    except (OSError, SyntaxError) as e:
        raise Untranslatable("%s: %s" % (rel, e))


def _class(tree: ast.Module, name: str, rel: str) -> ast.ClassDef:
    for n in tree.body:
        if isinstance(n, ast.ClassDef) and n.name == name:
            return n
    raise Untranslatable("%s: class %s not found" % (rel, name))


def _funcs(scope: list[ast.stmt]) -> dict[str, ast.FunctionDef]:
    return {n.name: n for n in scope if isinstance(n, ast.FunctionDef)}


def _status(n: ast.AST, where: str) -> str:
    c = _chain(n)
    if c is None or not c.startswith("grpc.StatusCode.") or c.split(".")[2] not in STATUS:
        raise Untranslatable("%s: `%s` is not a grpc.StatusCode member" % (where, ast.unparse(n)))
    return c.split(".")[2]


def _exc_names(n: ast.AST | None, where: str) -> list[str]:
    if n is None:
        raise Untranslatable("%s: bare `except:`" % where)
    elts = n.elts if isinstance(n, ast.Tuple) else [n]
    out = []
    for e in elts:
        if not isinstance(e, ast.Name) or e.id not in EXC:
            raise Untranslatable("%s: exception class `%s` is not one of %s" % (where, ast.unparse(e), sorted(EXC)))
        out.append(e.id)
    return out


# ------------------------------------------------------------------------------------------------ enums
def enum_values(repo: str, rel: str, cls: str) -> dict[str, int]:
    cdef = _class(_parse(repo, rel), cls, rel)
    out: dict[str, int] = {}
    for st in cdef.body:
        if isinstance(st, ast.Assign) and len(st.targets) == 1 and isinstance(st.targets[0], ast.Name) \
                and isinstance(st.value, ast.Constant) and isinstance(st.value.value, int) and not isinstance(st.value.value, bool):
            out[st.targets[0].id] = st.value.value
    if not out:
        raise Untranslatable("%s: no members of %s found" % (rel, cls))
    return out


def proto_enums(repo: str) -> dict[str, dict[str, int]]:
    try:
        text = open(os.path.join(repo, PROTO)).read()
    except OSError as e:
        raise Untranslatable("%s: %s" % (PROTO, e))
    text = re.sub(r"/\*.*?\*/", "", text, flags=re.S)
    text = re.sub(r"//[^\n]*", "", text)
    out: dict[str, dict[str, int]] = {}
    for m in re.finditer(r"\benum\s+(\w+)\s*\{([^}]*)\}", text):
        out[m.group(1)] = {k: int(v) for k, v in re.findall(r"(\w+)\s*=\s*(-?\d+)\s*;", m.group(2))}
    for need in ("TrialState", "StudyDirection"):
        if need not in out:
            raise Untranslatable("%s: enum %s not found" % (PROTO, need))
    rpcs = re.findall(r"\brpc\s+(\w+)\s*\(", text)
    if rpcs != RPCS:
        raise Untranslatable("%s: the service's rpc list is %s, the model was written for %s" % (PROTO, rpcs, RPCS))
    # the module that is actually imported must agree with the .proto text
    try:
        from optuna.storages._grpc.auto_generated import api_pb2  # noqa: PLC0415

        for en, vals in out.items():
            live = {v.name: v.number for v in api_pb2.DESCRIPTOR.enum_types_by_name[en].values}
            if live != vals:
                raise Untranslatable("api_pb2.%s = %s but api.proto says %s" % (en, live, vals))
    except ImportError:
        pass
    return out


def state_table(fn: ast.FunctionDef, arg_ns: str, ret_ns: str, arg_vals: dict[str, int], ret_vals: dict[str, int], where: str) -> list[tuple[int, int]]:
    """`if state == <arg_ns>.X: return <ret_ns>.Y` … `raise ValueError(..)`"""
    if len(fn.args.args) != 1:
        raise Untranslatable("%s: one argument expected" % where)
    arg = fn.args.args[0].arg
    rows: list[tuple[int, int]] = []
    body = list(fn.body)
    if not body or not isinstance(body[-1], ast.Raise):
        raise Untranslatable("%s: does not end with `raise`" % where)
    for st in body[:-1]:
        ok = (isinstance(st, ast.If) and not st.orelse and len(st.body) == 1 and isinstance(st.body[0], ast.Return)
              and isinstance(st.test, ast.Compare) and len(st.test.ops) == 1 and isinstance(st.test.ops[0], ast.Eq)
              and isinstance(st.test.left, ast.Name) and st.test.left.id == arg)
        if not ok:
            raise Untranslatable("%s: statement `%s` is not `if %s == X: return Y`" % (where, ast.unparse(st)[:80], arg))
        a, r = _chain(st.test.comparators[0]), _chain(st.body[0].value)  # type: ignore[arg-type]
        if not a or not r or not a.startswith(arg_ns + ".") or not r.startswith(ret_ns + "."):
            raise Untranslatable("%s: `%s` does not map %s.* to %s.*" % (where, ast.unparse(st)[:80], arg_ns, ret_ns))
        an, rn = a[len(arg_ns) + 1:], r[len(ret_ns) + 1:]
        if an not in arg_vals or rn not in ret_vals:
            raise Untranslatable("%s: unknown enum member in `%s`" % (where, ast.unparse(st)[:80]))
        rows.append((arg_vals[an], ret_vals[rn]))
    return rows


def direction_sites(trees: dict[str, ast.Module], sd: dict[str, int], pd: dict[str, int]) -> tuple[list[Any], list[Any]]:
    """Every `A if d == B else C` over StudyDirection.* / api_pb2.{MINIMIZE,MAXIMIZE}; (site, test, then, else)."""
    to_sites, from_sites = [], []

    def val(c: str | None) -> tuple[str, int] | None:
        if c is None:
            return None
        if c.startswith("StudyDirection.") and c.split(".")[1] in sd:
            return ("py", sd[c.split(".")[1]])
        if c.startswith("api_pb2.") and c.split(".")[1] in pd and c.count(".") == 1:
            return ("pb", pd[c.split(".")[1]])
        return None

    for rel, tree in trees.items():
        parents: dict[ast.AST, str] = {}
        for top in ast.walk(tree):
            if isinstance(top, ast.FunctionDef):
                for n in ast.walk(top):
                    parents.setdefault(n, top.name) if n is not top else None
        covered: set[int] = set()
        for n in ast.walk(tree):
            if isinstance(n, ast.IfExp):
                t = n.test
                if not (isinstance(t, ast.Compare) and len(t.ops) == 1 and isinstance(t.ops[0], ast.Eq)):
                    continue
                k, a, b = val(_chain(t.comparators[0])), val(_chain(n.body)), val(_chain(n.orelse))
                if k is None and a is None and b is None:
                    continue
                where = "%s:%s" % (os.path.basename(rel), parents.get(n, "?"))
                if k is None or a is None or b is None or not isinstance(t.left, ast.Name):
                    raise Untranslatable("%s: direction conversion `%s` has an unmodelled shape" % (where, ast.unparse(n)))
                if k[0] == "py" and a[0] == "pb" and b[0] == "pb":
                    to_sites.append((where, k[1], a[1], b[1]))
                elif k[0] == "pb" and a[0] == "py" and b[0] == "py":
                    from_sites.append((where, k[1], a[1], b[1]))
                else:
                    raise Untranslatable("%s: direction conversion `%s` mixes the two enums" % (where, ast.unparse(n)))
                for x in (t.comparators[0], n.body, n.orelse):
                    covered.add(id(x))
        # any other use of the protobuf direction constants is outside the model
        for n in ast.walk(tree):
            if isinstance(n, ast.Attribute) and _chain(n) in ("api_pb2.MINIMIZE", "api_pb2.MAXIMIZE") and id(n) not in covered:
                raise Untranslatable("%s line %d: api_pb2 direction constant used outside a conditional expression" % (rel, n.lineno))
    if len(to_sites) < 1 or len(from_sites) < 1:
        raise Untranslatable("no direction conversion found (to: %d, from: %d)" % (len(to_sites), len(from_sites)))
    return to_sites, from_sites


# ------------------------------------------------------------------------------------------------ servicer
def _backend_calls(node: ast.AST) -> list[str]:
    out = []
    for n in ast.walk(node):
        if isinstance(n, ast.Call):
            c = _chain(n.func)
            if c and c.startswith("self._backend."):
                out.append(c.split(".")[2])
    return out


def servicer_tables(repo: str, tree: ast.Module) -> tuple[dict[str, list[tuple[str, str]]], dict[str, str]]:
    fns = _funcs(_class(tree, "OptunaStorageProxyService", SERVICER).body)
    catches: dict[str, list[tuple[str, str]]] = {}
    backend: dict[str, str] = {}
    for rpc in RPCS:
        where = "servicer.%s" % rpc
        if rpc not in fns:
            raise Untranslatable("%s: method not found" % where)
        fn = fns[rpc]
        tries = [n for n in ast.walk(fn) if isinstance(n, ast.Try)]
        if len(tries) > 1:
            raise Untranslatable("%s: %d try statements" % (where, len(tries)))
        all_calls = _backend_calls(fn)
        if len(all_calls) != 1:
            raise Untranslatable("%s: %d calls on self._backend (exactly one expected)" % (where, len(all_calls)))
        backend[rpc] = all_calls[0]
        rows: list[tuple[str, str]] = []
        if tries:
            t = tries[0]
            if t not in fn.body:
                raise Untranslatable("%s: the try statement is nested" % where)
            if _backend_calls(ast.Module(body=t.body, type_ignores=[])) != all_calls:
                raise Untranslatable("%s: the backend call is not inside the try block" % where)
            if t.orelse or t.finalbody:
                raise Untranslatable("%s: try has else/finally" % where)
            for h in t.handlers:
                names = _exc_names(h.type, where)
                ok = (len(h.body) == 1 and isinstance(h.body[0], ast.Expr) and isinstance(h.body[0].value, ast.Call)
                      and _chain(h.body[0].value.func) == "context.abort")
                if not ok:
                    raise Untranslatable("%s: handler body `%s` is not a single context.abort(..)" % (where, ast.unparse(h.body[0])[:80]))
                call = h.body[0].value  # type: ignore[attr-defined]
                kw = {k.arg: k.value for k in call.keywords}
                code = kw.get("code", call.args[0] if call.args else None)
                if code is None:
                    raise Untranslatable("%s: context.abort without a code" % where)
                st = _status(code, where)
                rows += [(nm, st) for nm in names]
        # no other context.abort / set_code outside the handlers
        n_abort = sum(1 for n in ast.walk(fn) if isinstance(n, ast.Call) and _chain(n.func) in ("context.abort", "context.set_code", "context.abort_with_status"))
        if n_abort != (len(tries[0].handlers) if tries else 0):
            raise Untranslatable("%s: context.abort/set_code outside the except clauses" % where)
        catches[rpc] = rows
    return catches, backend


def values_decode(e: ast.AST, where: str) -> str:
    """emptyIsNone: `X if X else None`, `list(X) if X else None`;  emptyIsList: `X`, `list(X)` (an empty
    repeated field reaches the backend as a non-None empty sequence)."""
    def unlist(x: ast.AST) -> str | None:
        if isinstance(x, ast.Call) and isinstance(x.func, ast.Name) and x.func.id == "list" and len(x.args) == 1 and not x.keywords:
            x = x.args[0]
        return _chain(x)

    if isinstance(e, ast.IfExp):
        if isinstance(e.orelse, ast.Constant) and e.orelse.value is None:
            a, b = unlist(e.body), _chain(e.test)
            if a is not None and a == b and a.endswith(".values"):
                return "emptyIsNone"
        raise Untranslatable("%s: values expression `%s`" % (where, ast.unparse(e)))
    a = unlist(e)
    if a is not None and a.endswith(".values"):
        return "emptyIsList"
    raise Untranslatable("%s: values expression `%s`" % (where, ast.unparse(e)))


def _kw(call: ast.Call, name: str) -> ast.AST | None:
    for k in call.keywords:
        if k.arg == name:
            return k.value
    return None


def _find_call(fn: ast.AST, fname: str) -> list[ast.Call]:
    return [n for n in ast.walk(fn) if isinstance(n, ast.Call) and _chain(n.func) == fname]


def shape_checks(stree: ast.Module, ctree: ast.Module) -> list[tuple[str, bool]]:
    checks: list[tuple[str, bool]] = []
    sfns = _funcs(_class(stree, "OptunaStorageProxyService", SERVICER).body)
    mfns = _funcs(stree.body)
    cfns = _funcs(_class(ctree, "GrpcStorageProxy", CLIENT).body)
    kfns = _funcs(_class(ctree, "GrpcClientCache", CLIENT).body)

    def has(fn: ast.FunctionDef | None, snippet: str) -> bool:
        if fn is None:
            return False
        want = [ast.dump(s) for s in ast.parse(snippet).body]
        flat = [ast.dump(s) for s in ast.walk(fn) if isinstance(s, ast.stmt)]
        return all(w in flat for w in want)

    checks.append(("servicer.CreateNewTrial decodes the template iff not template_trial_is_none", has(
        sfns.get("CreateNewTrial"),
        "template_trial = None\nif not request.template_trial_is_none:\n    template_trial = _from_proto_trial(request.template_trial)")))
    checks.append(("servicer.CreateNewTrial passes (study_id, template_trial) to the backend", bool(
        [c for c in _find_call(sfns.get("CreateNewTrial") or ast.Pass(), "self._backend.create_new_trial")
         if [ast.unparse(a) for a in c.args] == ["study_id", "template_trial"]])))
    cn = cfns.get("create_new_trial")
    checks.append(("client.create_new_trial sets template_trial_is_none=True iff the template is None", has(
        cn,
        "if template_trial is None:\n    request = api_pb2.CreateNewTrialRequest(study_id=study_id, template_trial_is_none=True)\n"
        "else:\n    request = api_pb2.CreateNewTrialRequest(study_id=study_id, template_trial=grpc_servicer._to_proto_trial(template_trial), template_trial_is_none=False)")))
    tp = mfns.get("_to_proto_trial")
    call = (_find_call(tp, "api_pb2.Trial") or [None])[0] if tp else None
    checks.append(("_to_proto_trial forwards trial.values (None and [] both give an empty repeated field)",
                   call is not None and _kw(call, "values") is not None and ast.unparse(_kw(call, "values")) == "trial.values"))
    checks.append(("_to_proto_trial writes '' for an absent datetime",
                   call is not None and all(
                       _kw(call, f) is not None and ast.unparse(_kw(call, f)) == "trial.%s.strftime(DATETIME_FORMAT) if trial.%s else ''" % (f, f)
                       for f in ("datetime_start", "datetime_complete"))))
    fp = mfns.get("_from_proto_trial")
    checks.append(("_from_proto_trial reads '' as an absent datetime", has(
        fp, "datetime_start = datetime.strptime(trial.datetime_start, DATETIME_FORMAT) if trial.datetime_start else None\n"
            "datetime_complete = datetime.strptime(trial.datetime_complete, DATETIME_FORMAT) if trial.datetime_complete else None")))
    checks.append(("_from_proto_trial joins params with distributions by key", has(
        fp, "for key, value in trial.params.items():\n    params[key] = distributions[key].to_external_repr(value)")))
    cs = cfns.get("set_trial_state_values")
    call = (_find_call(cs, "api_pb2.SetTrialStateValuesRequest") or [None])[0] if cs else None
    checks.append(("client.set_trial_state_values forwards values and converts the state",
                   call is not None and _kw(call, "values") is not None and ast.unparse(_kw(call, "values")) == "values"
                   and ast.unparse(_kw(call, "state") or ast.Pass()) == "grpc_servicer._to_proto_trial_state(state)"))
    ss = sfns.get("SetTrialStateValues")
    checks.append(("servicer.SetTrialStateValues converts the state back and passes values", bool(
        [c for c in _find_call(ss or ast.Pass(), "self._backend.set_trial_state_values")
         if [ast.unparse(a) for a in c.args] == ["trial_id", "_from_proto_trial_state(state)", "values"]])))
    ga = cfns.get("get_all_trials")
    checks.append(("client.get_all_trials delegates to the cache without a try", ga is not None
                   and not [n for n in ast.walk(ga) if isinstance(n, ast.Try)] and bool(_find_call(ga, "self._cache.get_all_trials"))))
    kg = kfns.get("get_all_trials")
    checks.append(("GrpcClientCache.get_all_trials calls _read_trials_from_remote_storage without a try", kg is not None
                   and not [n for n in ast.walk(kg) if isinstance(n, ast.Try)] and bool(_find_call(kg, "self._read_trials_from_remote_storage"))))
    gt = sfns.get("GetTrials")
    checks.append(("servicer.GetTrials filters by id > greater_than or id in included", gt is not None and any(
        isinstance(n, ast.comprehension) and [ast.unparse(i) for i in n.ifs] == ["t._trial_id > trial_id_greater_than or t._trial_id in included_trial_ids"]
        for n in ast.walk(gt))))
    cr = cfns.get("create_new_study")
    call = (_find_call(cr, "api_pb2.CreateNewStudyRequest") or [None])[0] if cr else None
    checks.append(("client.create_new_study replaces an empty name by DEFAULT_STUDY_NAME_PREFIX + uuid4",
                   call is not None and ast.unparse(_kw(call, "study_name") or ast.Pass()) == "study_name or DEFAULT_STUDY_NAME_PREFIX + str(uuid.uuid4())"))
    return checks


# ------------------------------------------------------------------------------------------------ client
def _rpc_chain(h: ast.ExceptHandler, where: str) -> list[tuple[str, str]]:
    """body of `except grpc.RpcError as e:` -> [(status, exception class)]; must fall through to a bare `raise`."""
    if _chain(h.type) != "grpc.RpcError" or not h.name:  # type: ignore[arg-type]
        raise Untranslatable("%s: handler is not `except grpc.RpcError as e`" % where)
    e = h.name
    rows: list[tuple[str, str]] = []

    def bare_raise(st: ast.stmt) -> bool:
        return isinstance(st, ast.Raise) and st.exc is None

    def walk(stmts: list[ast.stmt]) -> None:
        if len(stmts) == 1 and bare_raise(stmts[0]):
            return
        if not stmts or not isinstance(stmts[0], ast.If):
            raise Untranslatable("%s: `%s` is neither `if e.code() == …` nor a bare raise" % (where, ast.unparse(stmts[0])[:80] if stmts else "<empty>"))
        i = stmts[0]
        t = i.test
        ok = (isinstance(t, ast.Compare) and len(t.ops) == 1 and isinstance(t.ops[0], ast.Eq) and isinstance(t.left, ast.Call)
              and _chain(t.left.func) == "%s.code" % e and not t.left.args)
        if not ok:
            raise Untranslatable("%s: test `%s` is not `%s.code() == grpc.StatusCode.X`" % (where, ast.unparse(t), e))
        st = _status(t.comparators[0], where)  # type: ignore[union-attr]
        body = list(i.body)
        # whitelisted side effect of the cache: forget the study before raising
        while body and isinstance(body[0], ast.Expr) and isinstance(body[0].value, ast.Call) and _chain(body[0].value.func) == "self.studies.pop":
            body = body[1:]
        if len(body) != 1 or not isinstance(body[0], ast.Raise) or body[0].exc is None:
            raise Untranslatable("%s: branch for %s is not a single `raise C from %s`" % (where, st, e))
        exc = body[0].exc
        if isinstance(exc, ast.Call) and not exc.args and not exc.keywords:
            exc = exc.func
        if not isinstance(exc, ast.Name) or exc.id not in EXC:
            raise Untranslatable("%s: raises `%s`" % (where, ast.unparse(body[0])))
        rows.append((st, exc.id))
        if len(i.orelse) == 1 and isinstance(i.orelse[0], ast.If):
            # `elif`: the chain continues; what follows the whole if statement follows its last branch too
            walk([i.orelse[0]] + stmts[1:])
        elif i.orelse:
            if len(stmts) != 1:
                raise Untranslatable("%s: statements after an if/else chain" % where)
            walk(list(i.orelse))
        else:
            walk(stmts[1:])

    walk(list(h.body))
    return rows


def client_tables(tree: ast.Module) -> tuple[dict[str, list[tuple[str, str]]], dict[str, str]]:
    raises: dict[str, list[tuple[str, str]]] = {}
    method: dict[str, str] = {}
    for cls, recv in (("GrpcStorageProxy", "self._stub."), ("GrpcClientCache", "self.grpc_client.")):
        for name, fn in _funcs(_class(tree, cls, CLIENT).body).items():
            where = "client.%s.%s" % (cls, name)
            calls = []
            for n in ast.walk(fn):
                if isinstance(n, ast.Call):
                    c = _chain(n.func)
                    if c and c.startswith(recv) and c[len(recv):] in RPCS:
                        calls.append((c[len(recv):], n))
            if not calls:
                continue
            if len(calls) != 1:
                raise Untranslatable("%s: %d stub calls" % (where, len(calls)))
            rpc, node = calls[0]
            if rpc in method:
                raise Untranslatable("%s: %s is also called from %s" % (where, rpc, method[rpc]))
            method[rpc] = "%s.%s" % (cls, name)
            tries = [t for t in ast.walk(fn) if isinstance(t, ast.Try)]
            inside = [t for t in tries if any(node is x for s in t.body for x in ast.walk(s))]
            if len(tries) != len(inside) or len(tries) > 1:
                raise Untranslatable("%s: try statements that do not enclose the stub call" % where)
            if not tries:
                raises[rpc] = []
                continue
            t = tries[0]
            if t.orelse or t.finalbody or len(t.handlers) != 1:
                raise Untranslatable("%s: try has else/finally or %d handlers" % (where, len(t.handlers)))
            raises[rpc] = _rpc_chain(t.handlers[0], where)
    missing = [r for r in RPCS if r not in method]
    if missing:
        raise Untranslatable("client: no call of stub method(s) %s" % missing)
    return raises, method


def exc_bases(repo: str) -> dict[str, list[str]]:
    rel = "optuna/exceptions.py"
    tree = _parse(repo, rel)
    out = dict(BUILTIN_BASES)
    for cls in ("OptunaError", "DuplicatedStudyError", "UpdateFinishedTrialError"):
        cdef = _class(tree, cls, rel)
        bases = []
        for b in cdef.bases:
            if not isinstance(b, ast.Name) or b.id not in EXC:
                raise Untranslatable("%s: base `%s` of %s is outside the modelled classes" % (rel, ast.unparse(b), cls))
            bases.append(b.id)
        out[cls] = bases
    return out


# ------------------------------------------------------------------------------------------------ emit
def _s(x: str) -> str:
    return '"' + x.replace("\\", "\\\\").replace('"', '\\"') + '"'


def generate(repo: str) -> tuple[str, dict[str, Any]]:
    stree, ctree = _parse(repo, SERVICER), _parse(repo, CLIENT)
    ts = enum_values(repo, "optuna/trial/_state.py", "TrialState")
    sd = enum_values(repo, "optuna/study/_study_direction.py", "StudyDirection")
    pe = proto_enums(repo)
    mfns = _funcs(stree.body)
    for f in ("_to_proto_trial_state", "_from_proto_trial_state", "_to_proto_trial", "_from_proto_trial"):
        if f not in mfns:
            raise Untranslatable("%s: function %s not found" % (SERVICER, f))
    st_to = state_table(mfns["_to_proto_trial_state"], "TrialState", "api_pb2", ts, pe["TrialState"], "servicer._to_proto_trial_state")
    st_from = state_table(mfns["_from_proto_trial_state"], "api_pb2", "TrialState", pe["TrialState"], ts, "servicer._from_proto_trial_state")
    to_sites, from_sites = direction_sites({SERVICER: stree, CLIENT: ctree}, sd, pe["StudyDirection"])
    catches, backend = servicer_tables(repo, stree)
    raises, method = client_tables(ctree)
    bases = exc_bases(repo)
    # decoding of `repeated double values`
    sfns = _funcs(_class(stree, "OptunaStorageProxyService", SERVICER).body)
    assigns = [n for n in ast.walk(sfns["SetTrialStateValues"]) if isinstance(n, ast.Assign) and len(n.targets) == 1
               and isinstance(n.targets[0], ast.Name) and n.targets[0].id == "values"]
    if len(assigns) != 1:
        raise Untranslatable("servicer.SetTrialStateValues: %d assignments to `values`" % len(assigns))
    ssv = values_decode(assigns[0].value, "servicer.SetTrialStateValues")
    calls = _find_call(mfns["_from_proto_trial"], "FrozenTrial")
    if len(calls) != 1 or _kw(calls[0], "values") is None:
        raise Untranslatable("servicer._from_proto_trial: FrozenTrial(.. values=..) not found")
    if not (isinstance(_kw(calls[0], "value"), ast.Constant) and _kw(calls[0], "value").value is None):  # type: ignore[union-attr]
        raise Untranslatable("servicer._from_proto_trial: FrozenTrial(value=..) is not None")
    ftv = values_decode(_kw(calls[0], "values"), "servicer._from_proto_trial")  # type: ignore[arg-type]
    checks = shape_checks(stree, ctree)

    L: list[str] = [
        "-- GENERATED by verif/translators/tgrpc.py from the optuna source tree on every run of `./check C01`; do not edit.",
        "-- Model/Proto.lean is built on these tables and the theorems of Props/C01Grpc.lean are re-proved against them.",
        "namespace OptunaVerif.Generated.GrpcTables",
        "",
        "/-- exception classes the servicer / client may name -/",
        "inductive Exc where",
        "  | " + " | ".join(EXC.values()),
        "deriving DecidableEq, Repr, Inhabited",
        "",
        "/-- `grpc.StatusCode` -/",
        "inductive Status where",
        "  | " + " | ".join(STATUS.values()),
        "deriving DecidableEq, Repr, Inhabited",
        "",
        "/-- the rpc methods of `service StorageService` (api.proto) -/",
        "inductive Rpc where",
        "  | " + " | ".join(lc(r) for r in RPCS),
        "deriving DecidableEq, Repr, Inhabited",
        "",
        "def Rpc.all : List Rpc := [" + ", ".join("." + lc(r) for r in RPCS) + "]",
        "",
        "/-- how a `repeated double values` field is handed on by the receiver -/",
        "inductive ValuesDecode where",
        "  /-- `X if X else None` / `list(X) if X else None`: an empty field is `None` -/",
        "  | emptyIsNone",
        "  /-- `X` / `list(X)`: an empty field is an empty (non-None) sequence -/",
        "  | emptyIsList",
        "deriving DecidableEq, Repr, Inhabited",
        "",
        "/-- direct base classes (optuna/exceptions.py; CPython for the builtins) -/",
        "def excBases : Exc → List Exc",
    ]
    for k, v in EXC.items():
        L.append("  | .%s => [%s]" % (v, ", ".join("." + EXC[b] for b in bases[k])))
    L += ["", "/-- servicer.py: `except C as e: context.abort(code=S, …)` clauses around the backend call, in source order -/",
          "def servicerCatches : Rpc → List (Exc × Status)"]
    for r in RPCS:
        L.append("  | .%s => [%s]" % (lc(r), ", ".join("(.%s, .%s)" % (EXC[c], STATUS[s]) for c, s in catches[r])))
    L += ["", "/-- servicer.py: the `BaseStorage` method of `self._backend` each rpc method calls -/",
          "def servicerBackend : Rpc → String"]
    for r in RPCS:
        L.append("  | .%s => %s" % (lc(r), _s(backend[r])))
    L += ["", "/-- client.py: `if e.code() == S: raise C from e` chain of the `except grpc.RpcError` clause around the stub call",
          "(anything else is re-raised as the `grpc.RpcError` itself) -/",
          "def clientRaises : Rpc → List (Status × Exc)"]
    for r in RPCS:
        L.append("  | .%s => [%s]" % (lc(r), ", ".join("(.%s, .%s)" % (STATUS[s], EXC[c]) for s, c in raises[r])))
    L += ["", "/-- client.py: the function whose body calls the stub method -/", "def clientMethod : Rpc → String"]
    for r in RPCS:
        L.append("  | .%s => %s" % (lc(r), _s(method[r])))
    L += [
        "",
        "/-- `_to_proto_trial_state`: (TrialState value, api_pb2.TrialState number), in source order; anything else raises -/",
        "def stateToProto : List (Nat × Nat) := [%s]" % ", ".join("(%d, %d)" % p for p in st_to),
        "/-- `_from_proto_trial_state`: (api_pb2.TrialState number, TrialState value) -/",
        "def stateFromProto : List (Nat × Nat) := [%s]" % ", ".join("(%d, %d)" % p for p in st_from),
        "",
        "/-- every `P1 if d == StudyDirection.X else P2` (site, X, P1, P2) -/",
        "def dirToProtoSites : List (String × Nat × Nat × Nat) := [%s]" % ", ".join("(%s, %d, %d, %d)" % (_s(w), a, b, c) for w, a, b, c in to_sites),
        "/-- every `D1 if d == api_pb2.X else D2` (site, X, D1, D2) -/",
        "def dirFromProtoSites : List (String × Nat × Nat × Nat) := [%s]" % ", ".join("(%s, %d, %d, %d)" % (_s(w), a, b, c) for w, a, b, c in from_sites),
        "/-- the first site of each kind; `Props/C01Grpc.dir_sites_uniform` shows all sites agree with it -/",
        "def dirToProtoTest : Nat := %d" % to_sites[0][1],
        "def dirToProtoThen : Nat := %d" % to_sites[0][2],
        "def dirToProtoElse : Nat := %d" % to_sites[0][3],
        "def dirFromProtoTest : Nat := %d" % from_sites[0][1],
        "def dirFromProtoThen : Nat := %d" % from_sites[0][2],
        "def dirFromProtoElse : Nat := %d" % from_sites[0][3],
        "",
        "/-- servicer.SetTrialStateValues: `values = …request.values…` -/",
        "def setStateValuesDecode : ValuesDecode := .%s" % ssv,
        "/-- servicer._from_proto_trial: `FrozenTrial(values=…trial.values…)` -/",
        "def trialValuesDecode : ValuesDecode := .%s" % ftv,
        "",
        "/-- statement shapes the wire model assumes, each checked against the source -/",
        "def shapeChecks : List (String × Bool) := [",
        ",\n".join("  (%s, %s)" % (_s(n), "true" if ok else "false") for n, ok in checks),
        "]",
        "",
        "end OptunaVerif.Generated.GrpcTables",
        "",
    ]
    info = {
        "servicerCatches": catches, "clientRaises": raises, "clientMethod": method, "servicerBackend": backend,
        "stateToProto": st_to, "stateFromProto": st_from, "dirToProtoSites": to_sites, "dirFromProtoSites": from_sites,
        "setStateValuesDecode": ssv, "trialValuesDecode": ftv, "shapeChecks": checks, "excBases": bases,
    }
    return "\n".join(L), info


def regenerate(chk: core.Check | None = None) -> dict[str, Any] | None:
    """Regenerate the Lean file; on failure report a broken translation and keep the previous file."""
    try:
        text, info = generate(core.REPO)
    except Untranslatable as e:
        if chk is not None:
            chk.broke("translation", {"translator": "T-grpc", "why": str(e)})
            return None
        raise
    changed = core.write_if_changed(OUT, text)
    if chk is not None:
        chk.translated.append("GrpcTables: %d servicer methods, %d client call sites, %d+%d direction sites, %d shape checks%s" % (
            len(info["servicerCatches"]), len(info["clientMethod"]), len(info["dirToProtoSites"]), len(info["dirFromProtoSites"]),
            len(info["shapeChecks"]), " (file changed)" if changed else ""))
        bad = [n for n, ok in info["shapeChecks"] if not ok]
        if bad:
            chk.extra["grpc_shape_checks_failed"] = bad
    return info


if __name__ == "__main__":
    import sys

    print(generate(sys.argv[1] if len(sys.argv) > 1 else core.REPO)[0])
