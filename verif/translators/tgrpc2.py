"""T-grpc2 (C01, gRPC proxy): the METHOD BODIES of the gRPC layer as statement / expression IR.

Read on every run (Python `ast`, whitelisted shapes only), written to lean/OptunaVerif/Generated/GrpcMethods.lean as data of
the types of lean/OptunaVerif/Model/GrpcIR.lean:

  optuna/storages/_grpc/servicer.py
      OptunaStorageProxyService.<Rpc>(self, request, context)   every rpc method of api.proto (19): every statement -
          request-field reads, conversions, the ONE `self._backend.<m>(…)` call with its arguments in signature order
          (keywords are placed by the signature of BaseStorage.<m> read from optuna/storages/_base.py; `deepcopy=` is dropped),
          the `try`, every `except C as e: context.abort(code=grpc.StatusCode.S, details=str(e))` clause in source order,
          `assert`, the reply constructor with every keyword                                       -> servicer<Rpc> : Stmt
      _to_proto_trial_state / _from_proto_trial_state   the if-chains and the final `raise ValueError`   -> Method
      _to_proto_trial / _from_proto_trial               every keyword of `api_pb2.Trial(…)` / `FrozenTrial(…)`, the conditional
          expressions, the dict comprehensions, the two parameter loops                               -> Method
  optuna/storages/_grpc/client.py
      GrpcStorageProxy.<method>     every public method (21): request constructor with every keyword, the stub call, the
          `except grpc.RpcError as e:` clause with its `if e.code() == grpc.StatusCode.S: raise C from e … raise` chain,
          the return expression                                                                       -> client_<method> : Method
      GrpcStorageProxy.__getstate__ / __setstate__   which attributes are dropped / rebuilt            -> pickleDropped / pickleRebuilt
      GrpcClientCache._read_trials_from_remote_storage   the wire half: request constructor (reads of the cache entry), stub
          call, except clause, `if not res.trials: return`, the decode loop                          -> client_read_trials : Method

Names: api.proto field names / FrozenTrial / FrozenStudy attribute names must be constructors of `GrpcIR.Fld`
(read from Model/GrpcIR.lean); enum members are replaced by their numbers (api.proto, _state.py, _study_direction.py).

A method whose body has a statement or expression outside the whitelist is reported (-> chk.broke("translation", …)) and
written as the stub `.unrep`, so that the theorem of Props/C01GrpcGen.lean that names it fails.
"""
from __future__ import annotations

import ast
import os
import re
from typing import Any

from verif import core
from verif.translators import tgrpc as T

OUT = os.path.join(core.LEAN_DIR, "OptunaVerif", "Generated", "GrpcMethods.lean")
IR = os.path.join(core.LEAN_DIR, "OptunaVerif", "Model", "GrpcIR.lean")
BASE = "optuna/storages/_base.py"

Untranslatable = T.Untranslatable

BACKEND_METHODS = [
    "create_new_study", "delete_study", "set_study_user_attr", "set_study_system_attr", "get_study_id_from_name",
    "get_study_name_from_id", "get_study_directions", "get_study_user_attrs", "get_study_system_attrs", "get_all_studies",
    "create_new_trial", "set_trial_param", "get_trial_id_from_study_id_trial_number", "set_trial_state_values",
    "set_trial_intermediate_value", "set_trial_user_attr", "set_trial_system_attr", "get_trial", "get_all_trials",
]
# the public methods of GrpcStorageProxy, in the order of the file today (a new / missing one is reported)
CLIENT_METHODS = [
    "create_new_study", "delete_study", "set_study_user_attr", "set_study_system_attr", "get_study_id_from_name",
    "get_study_name_from_id", "get_study_directions", "get_study_user_attrs", "get_study_system_attrs", "get_all_studies",
    "create_new_trial", "set_trial_param", "set_trial_state_values", "set_trial_intermediate_value", "set_trial_user_attr",
    "set_trial_system_attr", "get_trial_id_from_study_id_trial_number", "get_trial", "get_all_trials",
]
FN1 = {
    "json.loads": "jsonLoads", "json.dumps": "jsonDumps", "json_to_distribution": "jsonToDistribution",
    "distribution_to_json": "distributionToJson", "list": "list_", "set": "set_", "len": "len_",
    "_from_proto_trial": "fromProtoTrial", "grpc_servicer._from_proto_trial": "fromProtoTrial",
    "_to_proto_trial": "toProtoTrial", "grpc_servicer._to_proto_trial": "toProtoTrial",
    "_to_proto_trial_state": "toProtoTrialState", "grpc_servicer._to_proto_trial_state": "toProtoTrialState",
    "_from_proto_trial_state": "fromProtoTrialState", "grpc_servicer._from_proto_trial_state": "fromProtoTrialState",
}


def fld_names() -> set[str]:
    text = open(IR).read()
    m = re.search(r"inductive Fld where(.*?)deriving", text, flags=re.S)
    if not m:
        raise Untranslatable("Model/GrpcIR.lean: inductive Fld not found")
    return set(re.findall(r"\|\s*(\w+)", m.group(1)))


def lstr(s: str) -> str:
    return '"' + s.replace("\\", "\\\\").replace('"', '\\"') + '"'


class Tr:
    """one function body -> IR text"""

    def __init__(self, env: dict[str, Any], where: str, scope: set[str]) -> None:
        self.env = env
        self.where = where
        self.scope = set(scope)

    def bad(self, n: ast.AST, why: str = "") -> Untranslatable:
        return Untranslatable("%s line %s: `%s` %s" % (self.where, getattr(n, "lineno", "?"), ast.unparse(n)[:160],
                                                       why or "is outside the whitelist"))

    def fld(self, name: str, n: ast.AST) -> str:
        f = ("p" + name) if name.startswith("_") else name
        if f not in self.env["flds"]:
            raise self.bad(n, "names the field/attribute `%s`, which Model/GrpcIR.lean does not know" % name)
        return "." + f

    # ------------------------------------------------------------------ expressions
    def enum_const(self, n: ast.AST) -> str | None:
        c = T._chain(n)
        if c is None:
            return None
        e = self.env
        if c.startswith("api_pb2.") and c.count(".") == 1:
            k = c.split(".")[1]
            for en in ("StudyDirection", "TrialState"):
                if k in e["proto"][en]:
                    return "(.nat %d)" % e["proto"][en][k]
        if c.startswith("StudyDirection.") and c.split(".")[1] in e["sd"]:
            return "(.nat %d)" % e["sd"][c.split(".")[1]]
        if c.startswith("TrialState.") and c.split(".")[1] in e["ts"]:
            return "(.tstate %d)" % e["ts"][c.split(".")[1]]
        return None

    def enum_num(self, n: ast.AST) -> int | None:
        s = self.enum_const(n)
        if s is None or not s.startswith("(.nat "):
            return None
        return int(s[6:-1])

    def ex(self, n: ast.AST, cond: bool = False) -> str:
        if isinstance(n, ast.Constant):
            v = n.value
            if v is None:
                return ".none"
            if v is True:
                return ".tt"
            if v is False:
                return ".ff"
            if isinstance(v, str):
                return "(.str %s)" % lstr(v)
            if isinstance(v, int) and v >= 0:
                return "(.nat %d)" % v
            raise self.bad(n)
        if isinstance(n, ast.Name):
            if n.id in self.scope:
                return "(.var %s)" % lstr(n.id)
            if n.id == "DEFAULT_STUDY_NAME_PREFIX":
                return "(.str %s)" % lstr(self.env["prefix"])
            raise self.bad(n, "is not a local name")
        if isinstance(n, ast.Attribute):
            c = self.enum_const(n)
            if c is not None:
                return c
            if isinstance(n.value, ast.Name) and n.value.id in self.scope:
                return "(.attr (.var %s) %s)" % (lstr(n.value.id), self.fld(n.attr, n))
            raise self.bad(n)
        if isinstance(n, ast.IfExp):
            return "(.ifElse %s %s %s)" % (self.ex(n.test, True), self.ex(n.body), self.ex(n.orelse))
        if isinstance(n, ast.BoolOp) and isinstance(n.op, ast.Or) and len(n.values) == 2:
            return "(.%s %s %s)" % ("or_" if cond else "orElse", self.ex(n.values[0], cond), self.ex(n.values[1], cond))
        if isinstance(n, ast.UnaryOp) and isinstance(n.op, ast.Not):
            return "(.not_ %s)" % self.ex(n.operand, True)
        if isinstance(n, ast.Compare) and len(n.ops) == 1:
            a, b, op = n.left, n.comparators[0], n.ops[0]
            if isinstance(op, (ast.Is, ast.IsNot)) and isinstance(b, ast.Constant) and b.value is None:
                r = "(.isNone %s)" % self.ex(a)
                return r if isinstance(op, ast.Is) else "(.not_ %s)" % r
            if isinstance(op, ast.Eq):
                return "(.eq %s %s)" % (self.ex(a), self.ex(b))
            if isinstance(op, ast.Gt):
                return "(.gt %s %s)" % (self.ex(a), self.ex(b))
            if isinstance(op, ast.In):
                return "(.in_ %s %s)" % (self.ex(a), self.ex(b))
            raise self.bad(n)
        if isinstance(n, ast.BinOp) and isinstance(n.op, ast.Add):
            return "(.concat %s %s)" % (self.ex(n.left), self.ex(n.right))
        if isinstance(n, ast.Call):
            return self.call(n)
        if isinstance(n, ast.ListComp):
            return self.listcomp(n)
        if isinstance(n, ast.DictComp):
            return self.dictcomp(n)
        raise self.bad(n)

    def call(self, n: ast.Call) -> str:
        c = T._chain(n.func)
        if c == "str" and len(n.args) == 1 and not n.keywords and isinstance(n.args[0], ast.Call) \
                and T._chain(n.args[0].func) == "uuid.uuid4" and not n.args[0].args and not n.args[0].keywords:
            return ".uuid4"
        if c in FN1 and len(n.args) == 1 and not n.keywords:
            return "(.call1 .%s %s)" % (FN1[c], self.ex(n.args[0]))
        if c == "copy.deepcopy" and len(n.args) == 1 and not n.keywords:
            return self.ex(n.args[0])  # identity on values
        if c == "datetime.strptime" and len(n.args) == 2 and not n.keywords and isinstance(n.args[1], ast.Name) \
                and n.args[1].id == "DATETIME_FORMAT":
            return "(.call1 .strptime %s)" % self.ex(n.args[0])
        if isinstance(n.func, ast.Attribute) and n.func.attr == "strftime" and len(n.args) == 1 and not n.keywords \
                and isinstance(n.args[0], ast.Name) and n.args[0].id == "DATETIME_FORMAT":
            return "(.call1 .strftime %s)" % self.ex(n.func.value)
        m = self.msg_kind(c)
        if m is not None:
            if n.args or any(k.arg is None for k in n.keywords):
                raise self.bad(n, "message constructors are read with keywords only")
            seen: set[str] = set()
            out = ".nil"
            for k in reversed(n.keywords):
                assert k.arg is not None
                if k.arg in seen:
                    raise self.bad(n, "repeats keyword " + k.arg)
                seen.add(k.arg)
                out = "(.cons %s %s %s)" % (self.fld(k.arg, n), self.ex(k.value), out)
            return "(.msg %s %s)" % (m, out)
        raise self.bad(n)

    def msg_kind(self, c: str | None) -> str | None:
        if c is None:
            return None
        if c == "FrozenStudy":
            return ".frozenStudy"
        if c == "FrozenTrial":
            return ".frozenTrial"
        if c == "api_pb2.Study":
            return ".study"
        if c == "api_pb2.Trial":
            return ".trial"
        if c.startswith("api_pb2."):
            name = c.split(".", 1)[1]
            for suffix, kind in (("Request", "request"), ("Reply", "reply")):
                if name.endswith(suffix) and name[: -len(suffix)] in T.RPCS:
                    return "(.%s .%s)" % (kind, T.lc(name[: -len(suffix)]))
        return None

    def listcomp(self, n: ast.ListComp) -> str:
        if len(n.generators) != 1:
            raise self.bad(n)
        g = n.generators[0]
        if g.is_async or not isinstance(g.target, ast.Name):
            raise self.bad(n)
        x = g.target.id
        src = self.ex(g.iter)
        e = n.elt
        # [P1 if d == X else P2 for d in src] over enum members
        if not g.ifs and isinstance(e, ast.IfExp) and isinstance(e.test, ast.Compare) and len(e.test.ops) == 1 \
                and isinstance(e.test.ops[0], ast.Eq) and isinstance(e.test.left, ast.Name) and e.test.left.id == x:
            t, a, b = self.enum_num(e.test.comparators[0]), self.enum_num(e.body), self.enum_num(e.orelse)
            if t is not None and a is not None and b is not None:
                return "(.mapDirs %d %d %d %s)" % (t, a, b, src)
        inner = Tr(self.env, self.where, self.scope | {x})
        if not g.ifs:
            return "(.listComp %s %s %s)" % (lstr(x), src, inner.ex(e))
        if len(g.ifs) == 1:
            return "(.listCompIf %s %s %s %s)" % (lstr(x), src, inner.ex(e), inner.ex(g.ifs[0], True))
        raise self.bad(n)

    def dictcomp(self, n: ast.DictComp) -> str:
        if len(n.generators) != 1:
            raise self.bad(n)
        g = n.generators[0]
        ok = (not g.ifs and not g.is_async and isinstance(g.target, ast.Tuple) and len(g.target.elts) == 2
              and all(isinstance(t, ast.Name) for t in g.target.elts) and isinstance(g.iter, ast.Call)
              and isinstance(g.iter.func, ast.Attribute) and g.iter.func.attr == "items" and not g.iter.args and not g.iter.keywords)
        if not ok:
            raise self.bad(n)
        k, v = g.target.elts[0].id, g.target.elts[1].id  # type: ignore[attr-defined]
        if not (isinstance(n.key, ast.Name) and n.key.id == k):
            raise self.bad(n)
        src = self.ex(g.iter.func.value)  # type: ignore[union-attr]
        if isinstance(n.value, ast.Name) and n.value.id == v:
            return "(.dictCopy %s)" % src
        if isinstance(n.value, ast.Call) and len(n.value.args) == 1 and not n.value.keywords \
                and isinstance(n.value.args[0], ast.Name) and n.value.args[0].id == v:
            c = T._chain(n.value.func)
            if c in ("json.loads", "json.dumps", "json_to_distribution", "distribution_to_json"):
                return "(.dictComp .%s %s)" % (FN1[c], src)
        raise self.bad(n)

    # ------------------------------------------------------------------ statements
    def args_of(self, call: ast.Call, method: str) -> str:
        sig = self.env["signatures"].get(method)
        if sig is None:
            raise self.bad(call, "calls a BaseStorage method without a known signature")
        slots: list[ast.AST | None] = [None] * len(sig)
        if len(call.args) > len(sig):
            raise self.bad(call, "has more arguments than BaseStorage.%s takes" % method)
        for i, a in enumerate(call.args):
            if isinstance(a, ast.Starred):
                raise self.bad(call)
            slots[i] = a
        for k in call.keywords:
            if k.arg is None or k.arg not in sig or slots[sig.index(k.arg)] is not None:
                raise self.bad(call, "keyword `%s`" % k.arg)
            slots[sig.index(k.arg)] = k.value
        out = []
        for name, a in zip(sig, slots):
            if name == "deepcopy":
                if a is not None and not (isinstance(a, ast.Constant) and isinstance(a.value, bool)):
                    raise self.bad(call, "deepcopy must be a literal")
                continue
            if name == "states" and method == "get_all_trials":
                if a is not None:
                    raise self.bad(call, "the servicer is read as asking for all states")
                continue
            if a is None:
                raise self.bad(call, "leaves `%s` to its default" % name)
            out.append(self.ex(a))
        return "[" + ", ".join(out) + "]"

    def call_stmt(self, call: ast.Call, into: str | None) -> str | None:
        c = T._chain(call.func)
        tgt = "none" if into is None else "(some %s)" % lstr(into)
        if c is not None and c.startswith("self._backend."):
            m = c.split(".")[2]
            if m not in BACKEND_METHODS:
                raise self.bad(call, "calls a backend method the contract model does not know")
            return "(.backend .%s %s %s)" % (m, self.args_of(call, m), tgt)
        if c is not None and (c.startswith("self._stub.") or c.startswith("self.grpc_client.")) and c.split(".")[2] in T.RPCS:
            if len(call.args) != 1 or call.keywords:
                raise self.bad(call)
            return "(.stub .%s %s %s)" % (T.lc(c.split(".")[2]), self.ex(call.args[0]), tgt)
        if c == "self._cache.get_all_trials" and len(call.args) == 2 and not call.keywords:
            return "(.cacheGetAll %s %s %s)" % (self.ex(call.args[0]), self.ex(call.args[1]), tgt)
        return None

    def is_code_test(self, n: ast.AST, evar: str | None) -> str | None:
        if evar is None or not (isinstance(n, ast.Compare) and len(n.ops) == 1 and isinstance(n.ops[0], ast.Eq)):
            return None
        l = n.left
        if isinstance(l, ast.Call) and not l.args and not l.keywords and T._chain(l.func) == evar + ".code":
            return T.STATUS[T._status(n.comparators[0], self.where)]
        return None

    def block(self, stmts: list[ast.stmt], evar: str | None = None) -> str:
        out: list[str] = []
        i = 0
        while i < len(stmts):
            st = stmts[i]
            # params = {} ; for key, value in S.items(): params[key] = D[key].to_X_repr(value)
            if isinstance(st, ast.Assign) and len(st.targets) == 1 and isinstance(st.targets[0], ast.Name) \
                    and isinstance(st.value, ast.Dict) and not st.value.keys and i + 1 < len(stmts) and isinstance(stmts[i + 1], ast.For):
                out.append(self.param_loop(st.targets[0].id, stmts[i + 1]))  # type: ignore[arg-type]
                self.scope.add(st.targets[0].id)
                i += 2
                continue
            out.append(self.stmt(st, evar))
            i += 1
        if not out:
            return ".skip"
        return out[0] if len(out) == 1 else "(block [" + ",\n      ".join(out) + "])"

    def param_loop(self, target: str, loop: ast.For) -> str:
        ok = (isinstance(loop.target, ast.Tuple) and len(loop.target.elts) == 2 and all(isinstance(t, ast.Name) for t in loop.target.elts)
              and not loop.orelse and len(loop.body) == 1 and isinstance(loop.iter, ast.Call) and isinstance(loop.iter.func, ast.Attribute)
              and loop.iter.func.attr == "items" and not loop.iter.args)
        if not ok:
            raise self.bad(loop)
        k, v = loop.target.elts[0].id, loop.target.elts[1].id  # type: ignore[union-attr]
        b = loop.body[0]
        # params[key] = D[key].to_internal_repr(value)
        ok = (isinstance(b, ast.Assign) and len(b.targets) == 1 and isinstance(b.targets[0], ast.Subscript)
              and isinstance(b.targets[0].value, ast.Name) and b.targets[0].value.id == target
              and isinstance(b.targets[0].slice, ast.Name) and b.targets[0].slice.id == k
              and isinstance(b.value, ast.Call) and len(b.value.args) == 1 and not b.value.keywords
              and isinstance(b.value.args[0], ast.Name) and b.value.args[0].id == v
              and isinstance(b.value.func, ast.Attribute) and b.value.func.attr in ("to_internal_repr", "to_external_repr")
              and isinstance(b.value.func.value, ast.Subscript) and isinstance(b.value.func.value.slice, ast.Name)
              and b.value.func.value.slice.id == k)
        if not ok:
            raise self.bad(loop, "is not the parameter loop the model knows")
        kind = "internalParams" if b.value.func.attr == "to_internal_repr" else "externalParams"  # type: ignore[union-attr]
        src = self.ex(loop.iter.func.value)  # type: ignore[union-attr]
        dists = self.ex(b.value.func.value.value)  # type: ignore[union-attr]
        return "(.assign %s (.%s %s %s))" % (lstr(target), kind, src, dists)

    def stmt(self, st: ast.stmt, evar: str | None) -> str:
        if isinstance(st, ast.Expr) and isinstance(st.value, ast.Constant) and isinstance(st.value.value, str):
            return ".skip"
        if isinstance(st, (ast.Assign, ast.AnnAssign)):
            if isinstance(st, ast.Assign):
                if len(st.targets) != 1:
                    raise self.bad(st)
                tg, val = st.targets[0], st.value
            else:
                tg, val = st.target, st.value
                if val is None:
                    return ".skip"
            if not isinstance(tg, ast.Name):
                raise self.bad(st)
            if isinstance(val, ast.Call):
                r = self.call_stmt(val, tg.id)
                if r is not None:
                    self.scope.add(tg.id)
                    return r
            # study = self.studies[study_id]  (the cache entry is a pseudo-parameter)
            if ast.unparse(val) in self.scope:
                self.scope.add(tg.id)
                return "(.assign %s (.var %s))" % (lstr(tg.id), lstr(ast.unparse(val)))
            r = "(.assign %s %s)" % (lstr(tg.id), self.ex(val))
            self.scope.add(tg.id)
            return r
        if isinstance(st, ast.Expr) and isinstance(st.value, ast.Call):
            call = st.value
            c = T._chain(call.func)
            r = self.call_stmt(call, None)
            if r is not None:
                return r
            if c == "context.abort":
                kw = {k.arg: k.value for k in call.keywords}
                if call.args or set(kw) != {"code", "details"} or evar is None or ast.unparse(kw["details"]) != "str(%s)" % evar:
                    raise self.bad(st)
                return "(.abort .%s)" % T.STATUS[T._status(kw["code"], self.where)]
            if c == "self._cache.delete_study_cache" and len(call.args) == 1 and not call.keywords:
                return ".cacheNote"
            if c == "self.studies.pop" and ast.unparse(call) == "self.studies.pop(study_id, None)":
                return ".cacheNote"
            raise self.bad(st)
        if isinstance(st, ast.If):
            code = self.is_code_test(st.test, evar)
            a0 = set(self.scope)
            if ast.unparse(st.test) == "study_id not in self.studies" and ast.unparse(st.body[0]) == \
                    "self.studies[study_id] = GrpcClientCacheEntry()" and len(st.body) == 1 and not st.orelse:
                return ".cacheNote"
            t = None if code is not None else self.ex(st.test, True)
            a = self.block(st.body, evar)
            sa = self.scope
            self.scope = set(a0)
            b = self.block(st.orelse, evar)
            self.scope = sa | self.scope
            if code is not None:
                return "(.ifCode .%s %s %s)" % (code, a, b)
            return "(.ite %s %s %s)" % (t, a, b)
        if isinstance(st, ast.Try):
            if st.orelse or st.finalbody or not st.handlers:
                raise self.bad(st)
            body = self.block(st.body, evar)
            hs = ".reraise"
            for h in reversed(st.handlers):
                if h.name is None:
                    raise self.bad(h, "handlers are read as `except C as e:`")
                c = T._chain(h.type) if h.type is not None else None
                hb = Tr(self.env, self.where, self.scope)
                if c == "grpc.RpcError":
                    hs = "(.onRpcError %s %s)" % (hb.block(h.body, h.name), hs)
                elif isinstance(h.type, ast.Name) and h.type.id in T.EXC:
                    hs = "(.onExc .%s %s %s)" % (T.EXC[h.type.id], hb.block(h.body, h.name), hs)
                else:
                    raise self.bad(h)
            return "(.tryExcept %s %s)" % (body, hs)
        if isinstance(st, ast.Raise):
            if st.exc is None:
                if st.cause is not None:
                    raise self.bad(st)
                return ".reraise"
            e = st.exc.func if isinstance(st.exc, ast.Call) else st.exc
            if not isinstance(e, ast.Name) or e.id not in T.EXC:
                raise self.bad(st)
            if st.cause is not None and not (isinstance(st.cause, ast.Name) and st.cause.id == evar):
                raise self.bad(st)
            return "(.raise .%s)" % T.EXC[e.id]
        if isinstance(st, ast.Return):
            return "(.ret %s)" % (".none" if st.value is None else self.ex(st.value))
        if isinstance(st, ast.Assert):
            return "(.assert %s)" % self.ex(st.test, True)
        if isinstance(st, ast.For):
            # for trial_proto in res.trials: trial = conv(trial_proto); self._add_trial_to_cache(study_id, trial)
            ok = (isinstance(st.target, ast.Name) and not st.orelse and len(st.body) == 2 and isinstance(st.body[0], ast.Assign)
                  and len(st.body[0].targets) == 1 and isinstance(st.body[0].targets[0], ast.Name)
                  and ast.unparse(st.body[1]) == "self._add_trial_to_cache(study_id, %s)" % st.body[0].targets[0].id)
            if not ok:
                raise self.bad(st)
            x = st.target.id  # type: ignore[union-attr]
            inner = Tr(self.env, self.where, self.scope | {x})
            # convention: the trials handed to _add_trial_to_cache, in order, are what the method "returns"
            return "(.ret (.listComp %s %s %s))" % (lstr(x), self.ex(st.iter), inner.ex(st.body[0].value))
        raise self.bad(st)


# ------------------------------------------------------------------------------------------------ files
def signatures(repo: str) -> dict[str, list[str]]:
    cdef = T._class(T._parse(repo, BASE), "BaseStorage", BASE)
    out = {}
    for name, fn in T._funcs(cdef.body).items():
        a = fn.args
        if a.vararg or a.kwarg or a.posonlyargs:
            continue
        out[name] = [x.arg for x in a.args[1:]] + [x.arg for x in a.kwonlyargs]
    return out


def _params(fn: ast.FunctionDef, where: str) -> list[str]:
    a = fn.args
    if a.vararg or a.kwarg or a.posonlyargs or a.kwonlyargs:
        raise Untranslatable("%s: parameter list outside the whitelist" % where)
    return [x.arg for x in a.args]


def translate(repo: str) -> tuple[str, dict[str, Any], list[dict[str, Any]]]:
    env: dict[str, Any] = {
        "flds": fld_names(), "proto": T.proto_enums(repo), "sd": T.enum_values(repo, "optuna/study/_study_direction.py", "StudyDirection"),
        "ts": T.enum_values(repo, "optuna/trial/_state.py", "TrialState"), "signatures": signatures(repo),
    }
    base = T._parse(repo, BASE)
    prefix = [st.value.value for st in base.body if isinstance(st, ast.Assign) and len(st.targets) == 1
              and isinstance(st.targets[0], ast.Name) and st.targets[0].id == "DEFAULT_STUDY_NAME_PREFIX"
              and isinstance(st.value, ast.Constant) and isinstance(st.value.value, str)]
    if len(prefix) != 1:
        raise Untranslatable("%s: DEFAULT_STUDY_NAME_PREFIX is not one string literal" % BASE)
    env["prefix"] = prefix[0]
    stree, ctree = T._parse(repo, T.SERVICER), T._parse(repo, T.CLIENT)
    problems: list[dict[str, Any]] = []
    info: dict[str, Any] = {"servicer": {}, "client": {}, "converters": {}, "prefix": prefix[0]}
    L = [
        "-- GENERATED by verif/translators/tgrpc2.py from the optuna source tree on every run of `./check C01`; do not edit.",
        "-- The interpreter is Model/GrpcIR.lean; Props/C01GrpcGen.lean proves these bodies equal to the wire model (Model/Proto.lean).",
        "import OptunaVerif.Model.GrpcIR",
        "namespace OptunaVerif.Generated.GrpcMethods",
        "open OptunaVerif.GrpcIR",
        "",
    ]

    def attempt(where: str, f: Any) -> Any:
        try:
            return f()
        except Untranslatable as e:
            problems.append({"method": where, "why": str(e)[:500]})
            return None

    # ---- servicer rpc methods
    sfuncs = T._funcs(T._class(stree, "OptunaStorageProxyService", T.SERVICER).body)
    extra = sorted(set(sfuncs) - set(T.RPCS) - {"__init__"})
    if extra:
        problems.append({"method": "OptunaStorageProxyService", "why": "methods the model does not know: %s" % extra})
    for rpc in T.RPCS:
        where = "servicer.%s" % rpc

        def go(rpc: str = rpc, where: str = where) -> str:
            fn = sfuncs.get(rpc)
            if fn is None:
                raise Untranslatable("%s: not found" % where)
            if _params(fn, where) != ["self", "request", "context"]:
                raise Untranslatable("%s: parameters are not (self, request, context)" % where)
            return Tr(env, where, {"request"}).block(fn.body)

        body = attempt(where, go)
        info["servicer"][rpc] = body is not None
        L += ["/-- `OptunaStorageProxyService.%s` -/" % rpc, "def servicer%s : Stmt :=" % rpc, "  " + (body or ".unrep"), ""]
    L += ["def servicer : OptunaVerif.Generated.GrpcTables.Rpc → Stmt"] + ["  | .%s => servicer%s" % (T.lc(r), r) for r in T.RPCS] + [""]

    # ---- converters
    mfuncs = T._funcs(stree.body)
    for name in ("_to_proto_trial_state", "_from_proto_trial_state", "_to_proto_trial", "_from_proto_trial"):
        where = "servicer.%s" % name

        def goc(name: str = name, where: str = where) -> tuple[list[str], str]:
            fn = mfuncs.get(name)
            if fn is None:
                raise Untranslatable("%s: not found" % where)
            ps = _params(fn, where)
            if len(ps) != 1:
                raise Untranslatable("%s: one parameter expected" % where)
            return ps, Tr(env, where, set(ps)).block(fn.body)

        r = attempt(where, goc)
        info["converters"][name] = r is not None
        ps, body = r if r is not None else (["x"], ".unrep")
        L += ["/-- `%s` -/" % name, "def conv%s : Method :=" % name, "  { params := [%s], body :=" % ", ".join(lstr(p) for p in ps),
              "    " + body + " }", ""]

    # ---- client methods
    ccls = T._class(ctree, "GrpcStorageProxy", T.CLIENT)
    cfuncs = T._funcs(ccls.body)
    publ = [n for n in cfuncs if not n.startswith("_")]
    if publ != CLIENT_METHODS:
        problems.append({"method": "GrpcStorageProxy", "why": "public methods are %s, the model was written for %s" % (publ, CLIENT_METHODS)})
    for name in CLIENT_METHODS:
        where = "client.%s" % name

        def gom(name: str = name, where: str = where) -> tuple[list[str], str]:
            fn = cfuncs.get(name)
            if fn is None:
                raise Untranslatable("%s: not found" % where)
            ps = _params(fn, where)[1:]
            return ps, Tr(env, where, set(ps)).block(fn.body)

        r = attempt(where, gom)
        info["client"][name] = r is not None
        ps, body = r if r is not None else ([], ".unrep")
        L += ["/-- `GrpcStorageProxy.%s` -/" % name, "def client_%s : Method :=" % name,
              "  { params := [%s], body :=" % ", ".join(lstr(p) for p in ps), "    " + body + " }", ""]

    # ---- the wire half of GrpcClientCache._read_trials_from_remote_storage
    where = "client.GrpcClientCache._read_trials_from_remote_storage"

    def gor() -> tuple[list[str], str]:
        fn = T._funcs(T._class(ctree, "GrpcClientCache", T.CLIENT).body).get("_read_trials_from_remote_storage")
        if fn is None:
            raise Untranslatable("%s: not found" % where)
        ps = _params(fn, where)[1:]
        if ps != ["study_id"]:
            raise Untranslatable("%s: parameters are not (self, study_id)" % where)
        ps = ps + ["self.studies[study_id]"]
        body = Tr(env, where, set(ps)).block(fn.body)
        return ps, body

    r = attempt(where, gor)
    info["client"]["_read_trials_from_remote_storage"] = r is not None
    ps, body = r if r is not None else ([], ".unrep")
    L += ["/-- `GrpcClientCache._read_trials_from_remote_storage` (wire half; the cache entry is the second parameter; the value",
          "returned is the list of decoded trials handed to `_add_trial_to_cache`) -/", "def client_read_trials : Method :=",
          "  { params := [%s], body :=" % ", ".join(lstr(p) for p in ps), "    " + body + " }", ""]

    # ---- pickling: what __getstate__ drops and __setstate__ rebuilds
    def gop() -> tuple[list[str], list[str]]:
        g, s = cfuncs.get("__getstate__"), cfuncs.get("__setstate__")
        if g is None or s is None:
            raise Untranslatable("client.__getstate__/__setstate__: not found")
        dropped = []
        for st in g.body:
            u = ast.unparse(st)
            m = re.fullmatch(r"del state\['(\w+)'\]", u)
            if m:
                dropped.append(m.group(1))
            elif u not in ("state = self.__dict__.copy()", "return state"):
                raise Untranslatable("client.__getstate__: `%s`" % u[:120])
        rebuilt = []
        for st in s.body:
            u = ast.unparse(st)
            m = re.fullmatch(r"self\.(\w+) = (.*)", u, flags=re.S)
            if m:
                rebuilt.append(m.group(1))
                if m.group(1) == "_cache" and m.group(2) != "GrpcClientCache(self._stub)":
                    raise Untranslatable("client.__setstate__: the cache is rebuilt as `%s`" % m.group(2)[:100])
            elif u != "self.__dict__.update(state)":
                raise Untranslatable("client.__setstate__: `%s`" % u[:120])
        return dropped, rebuilt

    r = attempt("client.__getstate__/__setstate__", gop)
    dropped, rebuilt = r if r is not None else ([], [])
    info["pickle"] = {"dropped": dropped, "rebuilt": rebuilt}
    L += ["/-- `GrpcStorageProxy.__getstate__`: the attributes deleted from the pickled state -/",
          "def pickleDropped : List String := [%s]" % ", ".join(lstr(x) for x in dropped),
          "/-- `GrpcStorageProxy.__setstate__`: the attributes assigned afresh (a new channel, an EMPTY `GrpcClientCache`) -/",
          "def pickleRebuilt : List String := [%s]" % ", ".join(lstr(x) for x in rebuilt), ""]
    # ---- BaseStorage.get_best_trial (runs in the client): its statement skeleton, as a table (the computation itself is C12's / T-best's)
    def gob() -> list[str]:
        fn = T._funcs(T._class(base, "BaseStorage", BASE).body).get("get_best_trial")
        if fn is None:
            raise Untranslatable("BaseStorage.get_best_trial: not found")
        out = []
        for st in fn.body:
            if isinstance(st, ast.Expr) and isinstance(st.value, ast.Constant):
                continue
            if isinstance(st, ast.Assign) and isinstance(st.value, ast.Call) and (T._chain(st.value.func) or "").startswith("self."):
                out.append("call " + ast.unparse(st.value))
            elif isinstance(st, ast.If) and len(st.body) == 1 and isinstance(st.body[0], ast.Raise) and not st.orelse:
                e = st.body[0].exc
                e = e.func if isinstance(e, ast.Call) else e
                out.append("if %s: raise %s" % (ast.unparse(st.test), ast.unparse(e) if e is not None else ""))
            elif isinstance(st, ast.If):
                out.append("if %s: … else: …" % ast.unparse(st.test))
            elif isinstance(st, ast.Return):
                out.append("return " + ("" if st.value is None else ast.unparse(st.value)))
            elif isinstance(st, ast.Assign):
                out.append("%s = …" % ast.unparse(st.targets[0]))
            else:
                raise Untranslatable("BaseStorage.get_best_trial: `%s`" % ast.unparse(st)[:120])
        return out

    r = attempt("base.get_best_trial", gob)
    info["best_skeleton"] = r
    L += ["/-- `BaseStorage.get_best_trial` (runs in the client on top of the rpcs): its statements in order — the two reads through `self`,",
          "the two guards with the class they raise (the pick itself is C12's: Generated/Best.lean) -/",
          "def baseGetBestTrialSkeleton : List String := [%s]" % ", ".join(lstr(x) for x in (r or [])), ""]
    L += ["def program : Program :=",
          "  { servicer := servicer, toProtoState := conv_to_proto_trial_state, fromProtoState := conv_from_proto_trial_state,",
          "    toProtoTrial := conv_to_proto_trial, fromProtoTrial := conv_from_proto_trial,",
          "    createNewStudy := client_create_new_study, deleteStudy := client_delete_study, setStudyUserAttr := client_set_study_user_attr,",
          "    setStudySystemAttr := client_set_study_system_attr, getStudyIdFromName := client_get_study_id_from_name,",
          "    getStudyNameFromId := client_get_study_name_from_id, getStudyDirections := client_get_study_directions,",
          "    getStudyUserAttrs := client_get_study_user_attrs, getStudySystemAttrs := client_get_study_system_attrs,",
          "    getAllStudies := client_get_all_studies, createNewTrial := client_create_new_trial, setTrialParam := client_set_trial_param,",
          "    setTrialStateValues := client_set_trial_state_values, setTrialIntermediateValue := client_set_trial_intermediate_value,",
          "    setTrialUserAttr := client_set_trial_user_attr, setTrialSystemAttr := client_set_trial_system_attr,",
          "    getTrialIdFromNumber := client_get_trial_id_from_study_id_trial_number, getTrial := client_get_trial,",
          "    getAllTrials := client_get_all_trials, readTrials := client_read_trials }", ""]
    L += ["/-- methods read as IR / methods that had to be stubbed -/",
          "def translated : Nat := %d" % (sum(info["servicer"].values()) + sum(info["client"].values()) + sum(info["converters"].values())),
          "def stubbed : List String := [%s]" % ", ".join(lstr(p["method"]) for p in problems), "",
          "end OptunaVerif.Generated.GrpcMethods", ""]
    return "\n".join(L), info, problems


if __name__ == "__main__":
    import sys

    text, _, probs = translate(sys.argv[1] if len(sys.argv) > 1 else core.REPO)
    print(text)
    for p in probs:
        print("-- PROBLEM", p, file=sys.stderr)
