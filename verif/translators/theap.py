"""T-heap (C20): Python `ast` of the in-process storages -> lists of heap primitives (Lean `Prim`).

Every method of `InMemoryStorage`, `JournalStorageReplayResult` and the public getters of
`JournalStorage` (plus the object-handling parts of `_CachedStorage`) is run through a small abstract
interpreter over *whitelisted statement shapes*.  Each control-flow path of a method becomes one
primitive list; identical paths are merged.  What the interpreter tracks per local variable:

  obj    a trial / dict object that is (or was) the machine's current object `cur`
  view   the storage's own container (`self._studies[s].trials`, a `FrozenStudy` record, ...)
  list   a local list that accumulates live objects
  deep   `copy.deepcopy(..)` of the current object / collection (may only be returned)
  study  the private study record (`self._studies[study_id]`), whose `user_attrs`/`system_attrs`/
         `directions` attributes are slots
  (anything else must be "scalar-safe": ids, keys, values, states, bookkeeping look-ups)

Anything outside the whitelist raises `Untranslatable` (-> chk.broke("translation", ...)).
The second table (`deep_api`) lists the `Study`/`Trial` level getters that promise deep copies, with
the shape of their `return`.
"""
from __future__ import annotations

import ast
import os
import re
from typing import Any

FIELDS = {"params": 0, "distributions": 1, "user_attrs": 2, "system_attrs": 3, "intermediate_values": 4, "values": 5}
SCALAR_FIELDS = {"state": 6, "datetime_start": 7, "datetime_complete": 8, "number": 9, "_trial_id": 10, "value": 11}
# private attribute names of FrozenTrial that alias the public ones
PRIV = {"_params": "params", "_distributions": "distributions", "_user_attrs": "user_attrs", "_system_attrs": "system_attrs",
        "_values": "values", "_number": "number", "_datetime_start": "datetime_start"}
STUDY_SLOTS = {"user_attrs", "system_attrs", "directions"}
STUDY_PRIVATE = {"best_trial_id", "name", "param_distribution", "unfinished_trial_ids", "last_finished_trial_id", "study_name", "_study_id"}


# a trial object none of whose parts is shared with anything stored; `values` may be None (no list object at all)
FRESH_TRIAL = ["allocNew"] + ["newField %d" % f for f in range(5)] + ["?newField 5"]


class Untranslatable(Exception):
    def __init__(self, where: str, why: str) -> None:
        super().__init__("%s: %s" % (where, why))
        self.where = where
        self.why = why


def U(node: ast.AST, why: str) -> Untranslatable:
    try:
        txt = ast.unparse(node)
    except Exception:  # noqa: BLE001
        txt = repr(node)
    return Untranslatable("line %s `%s`" % (getattr(node, "lineno", "?"), txt[:120]), why)


def src(n: ast.AST) -> str:
    return ast.unparse(n)


# ---- expression shapes ---------------------------------------------------------------------------
# Shapes are Python source with `_`-prefixed names as wildcards; `*_` swallows the remaining arguments.
class Shape:
    def __init__(self, pat: str) -> None:
        self.pat = ast.parse(pat, mode="eval").body

    def match(self, s: "str | ast.AST") -> bool:
        if isinstance(s, str):
            try:
                s = ast.parse(s, mode="eval").body
            except SyntaxError:
                return False
        return _pm(s, self.pat)


def _pm(n: Any, p: Any) -> bool:
    if isinstance(p, ast.Name) and re.fullmatch(r"_[a-z0-9]?", p.id):
        return True
    if isinstance(p, ast.Slice) and isinstance(n, ast.Slice):
        return True
    if type(n) is not type(p):
        return False
    if isinstance(p, ast.Call):
        if not _pm(n.func, p.func):
            return False
        if p.args and isinstance(p.args[-1], ast.Starred) and isinstance(p.args[-1].value, ast.Name) and p.args[-1].value.id == "_":
            fixed = p.args[:-1]
            return len(n.args) >= len(fixed) and all(_pm(a, b) for a, b in zip(n.args, fixed))
        if len(n.args) != len(p.args) or len(n.keywords) != len(p.keywords):
            return False
        return all(_pm(a, b) for a, b in zip(n.args, p.args)) and all(a.arg == b.arg and _pm(a.value, b.value) for a, b in zip(n.keywords, p.keywords))
    for f in p._fields:
        if f == "ctx":
            continue
        a, b = getattr(n, f, None), getattr(p, f, None)
        if isinstance(b, list):
            if not isinstance(a, list) or len(a) != len(b) or not all(_pm(x, y) for x, y in zip(a, b)):
                return False
        elif isinstance(b, ast.AST):
            if not _pm(a, b):
                return False
        elif a != b:
            return False
    return True


def shapes(*pats: str) -> list[Shape]:
    return [Shape(p) for p in pats]


RE_LIVE_TRIAL = shapes(
    "self._get_trial(_)", "self.get_trial(_)", "self._trials[_]", "self._replay_result.get_trial(_)",
    "self._replay_result._trials[_]", "self._studies[_].trials[_]", "self._get_cached_trial(_)")
# objects built by the backend of _CachedStorage for this call (a DB read builds new objects)
RE_FRESH_TRIAL = shapes("self._backend._create_new_trial(*_)", "self._backend.get_trial(_)", "self._backend.get_best_trial(_)")
RE_FRESH_LIST = shapes("self._backend._get_trials(*_)", "self._backend.get_all_studies()")
RE_FRESH_DICT = shapes("self._backend.get_study_user_attrs(_)", "self._backend.get_study_system_attrs(_)", "self._backend.get_study_directions(_)")
# the container itself / private records
RE_VIEW = shapes("self._studies[_].trials", "self._replay_result.get_all_studies()", "list(self._studies.values())", "self._studies.values()")
RE_SLICE = shapes("self._studies[_].trials[_:_]")
RE_STUDY = shapes("self._studies[_]", "self._studies.get(_)", "self._studies.pop(_)", "self._replay_result.get_study(_)",
                  "self.get_study(_)", "_StudyInfo()")
# a *new* list of live objects
RE_LIVE_LIST_CALL = shapes("self._replay_result.get_all_trials(*_)", "self.get_all_trials(*_)")
RE_NEUTRAL_CALL = shapes(
    "self._check_study_id(*_)", "self._check_trial_id(*_)", "self.check_trial_is_updatable(*_)", "_logger.info(*_)",
    "_logger.warning(*_)", "distributions.check_distribution_compatibility(*_)", "check_distribution_compatibility(*_)",
    "self._update_cache(*_)", "self._sync_with_backend()", "self._write_log(*_)", "self._read_trials_from_remote_storage(*_)",
    "self._backend.delete_study(*_)", "self._backend.record_heartbeat(*_)", "self._backend.save_snapshot(*_)", "warnings.warn(*_)")
RE_MAY_RAISE = shapes("self._check_study_id(*_)", "self._check_trial_id(*_)", "self.check_trial_is_updatable(*_)",
                      "distributions.check_distribution_compatibility(*_)", "check_distribution_compatibility(*_)")
# assignment / del / method-call targets that are the storage's private bookkeeping
RE_PRIVATE_TARGET = shapes(
    "self._max_study_id", "self._max_trial_id", "self._next_study_id", "self._last_created_trial_id_by_this_process",
    "self.log_number_read",
    *[x for n in ("_trial_id_to_study_id_and_number", "_study_name_to_id", "_prev_waiting_trial_number", "_study_id_to_trial_ids",
                  "_trial_id_to_study_id", "_worker_id_to_owned_trial_id", "_study_id_and_number_to_trial_id")
      for x in ("self.%s" % n, "self.%s[_]" % n)],
    "self._studies[_].param_distribution[_]", "self._studies[_].best_trial_id", "self._studies[_].name")
RE_PRIVATE_CALL = shapes(
    "self._study_id_to_trial_ids[_].append(_)", "self._study_id_to_trial_ids.pop(_)", "self._worker_id_to_owned_trial_id.pop(*_)",
    "_s.unfinished_trial_ids.add(_)", "_s.unfinished_trial_ids.remove(_)")


def m_any(res: list[Shape], s: "str | ast.AST") -> bool:
    return any(r.match(s) for r in res)


class St:
    """One path through a method."""

    def __init__(self) -> None:
        self.prims: list[str] = []
        self.env: dict[str, tuple[str, Any]] = {}
        self.tok = 0  # token of the object currently in `cur`
        self.ntok = 0
        self.published = 0  # number of publish/unpublish so far (a later re-load may see another object)
        self.done = False
        self.loop_break = False

    def clone(self) -> "St":
        s = St()
        s.prims = list(self.prims)
        s.env = dict(self.env)
        s.tok, s.ntok, s.published, s.done, s.loop_break = self.tok, self.ntok, self.published, self.done, self.loop_break
        return s

    def emit(self, *ps: str) -> None:
        self.prims += ps

    def new_tok(self) -> int:
        self.ntok += 1
        self.tok = self.ntok
        return self.tok


class Interp:
    def __init__(self, cls: str, fn: ast.FunctionDef, params: dict[str, tuple[str, Any]] | None = None) -> None:
        self.cls = cls
        self.fn = fn
        self.params = params or {}

    # -- classification of names -----------------------------------------------------------------
    def kind(self, st: St, name: str) -> str:
        return st.env.get(name, ("scalar", None))[0]

    def scalar_safe(self, st: St, e: ast.AST) -> bool:
        """No alias of a tracked object can come out of evaluating `e` (reads are free)."""
        if isinstance(e, ast.Constant):
            return True
        if isinstance(e, ast.Name):
            return self.kind(st, e.id) in ("scalar",)
        if isinstance(e, ast.Attribute):
            base = e.value
            if isinstance(base, ast.Name) and self.kind(st, base.id) == "obj":
                a = PRIV.get(e.attr, e.attr)
                return a in SCALAR_FIELDS  # `trial.state`, `trial.number`; a dict-valued attribute would be an alias
            if isinstance(base, ast.Name) and self.kind(st, base.id) == "study":
                return e.attr in STUDY_PRIVATE
            if isinstance(base, ast.Name) and self.kind(st, base.id) in ("view", "list", "deep"):
                return False
            s = src(e)
            if m_any(RE_LIVE_TRIAL, src(base)):
                return PRIV.get(e.attr, e.attr) in SCALAR_FIELDS
            if m_any(RE_STUDY, src(base)):
                return e.attr in STUDY_PRIVATE
            return self.scalar_safe(st, base) or s.startswith("self.")
        if isinstance(e, ast.Subscript):
            # reading an element: `trial.params[name]`, `trial.distributions[name]`, `self._x[id][0]`, `log['k']`
            v = e.value
            if isinstance(v, ast.Attribute) and self.is_obj_expr(st, v.value) and PRIV.get(v.attr, v.attr) in FIELDS:
                return self.scalar_safe_sub(st, e.slice)
            if isinstance(v, ast.Name) and self.kind(st, v.id) in ("view", "list", "deep", "obj", "study"):
                return False
            if self.is_live_trial(st, e) or m_any(RE_VIEW, src(e)) or m_any(RE_STUDY, src(e)) or m_any(RE_SLICE, e):
                return False
            return self.scalar_safe(st, v) and self.scalar_safe_sub(st, e.slice)
        if isinstance(e, ast.Call):
            s = src(e)
            if m_any(RE_LIVE_TRIAL, s) or m_any(RE_VIEW, s) or m_any(RE_STUDY, s) or m_any(RE_LIVE_LIST_CALL, s) \
                    or m_any(RE_FRESH_TRIAL, s) or m_any(RE_FRESH_LIST, s) or m_any(RE_FRESH_DICT, s):
                return False
            if s.startswith("copy.") or "_build_frozen_study" in s:
                return False
            f = e.func
            # method calls that read an object: `.keys()`, `.get(k)`, `.items()` on a dict-valued attribute; `len(xs)`
            if isinstance(f, ast.Attribute) and f.attr in ("keys", "get", "items", "is_finished", "values") and isinstance(f.value, ast.Attribute) \
                    and self.is_obj_expr(st, f.value.value) and f.attr in ("keys", "get", "is_finished"):
                return all(self.scalar_safe(st, a) for a in e.args)
            if isinstance(f, ast.Name) and f.id == "len" and len(e.args) == 1:
                a = e.args[0]
                if isinstance(a, ast.Name):
                    return True
                if m_any(RE_VIEW, a) or self.study_attr(st, a) is not None:
                    return True
                if isinstance(a, ast.Attribute) and self.is_obj_expr(st, a.value):
                    return True
            okf = True
            if isinstance(f, ast.Attribute):
                okf = self.scalar_safe(st, f.value) or (isinstance(f.value, ast.Name) and f.value.id in ("self", "datetime", "distributions", "uuid", "pickle", "threading"))
            elif not isinstance(f, ast.Name):
                okf = False
            return okf and all(self.scalar_safe(st, a) for a in e.args) and all(self.scalar_safe(st, k.value) for k in e.keywords)
        if isinstance(e, (ast.BinOp,)):
            return self.scalar_safe(st, e.left) and self.scalar_safe(st, e.right)
        if isinstance(e, ast.UnaryOp):
            return self.scalar_safe(st, e.operand)
        if isinstance(e, ast.BoolOp):
            return all(self.scalar_safe(st, v) for v in e.values)
        if isinstance(e, ast.Compare):
            ok = True
            for x in [e.left] + list(e.comparators):
                # `name in trial.params`, `xs is None`, `not trials`
                if isinstance(x, ast.Attribute) and self.is_obj_expr(st, x.value):
                    continue
                if isinstance(x, ast.Name) and self.kind(st, x.id) in ("view", "list", "obj", "study", "deep"):
                    continue
                ok = ok and self.scalar_safe(st, x)
            return ok
        if isinstance(e, (ast.Tuple, ast.List)):
            return all(self.scalar_safe(st, x) for x in e.elts)
        if isinstance(e, ast.Dict):
            return all(k is not None and self.scalar_safe(st, k) for k in e.keys) and all(self.scalar_safe(st, v) for v in e.values)
        if isinstance(e, ast.JoinedStr):
            return True
        if isinstance(e, ast.IfExp):
            return self.scalar_safe(st, e.test) and self.scalar_safe(st, e.body) and self.scalar_safe(st, e.orelse)
        if isinstance(e, (ast.ListComp, ast.DictComp, ast.GeneratorExp)):
            # comprehensions over bookkeeping / log payloads only
            names = {n.id for n in ast.walk(e) if isinstance(n, ast.Name)}
            if any(self.kind(st, n) != "scalar" for n in names):
                return False
            s = src(e)
            return not ("_get_trial" in s or "self._trials" in s or ".trials" in s or "copy." in s)
        if isinstance(e, ast.Starred):
            return self.scalar_safe(st, e.value)
        if isinstance(e, ast.Lambda):
            return True
        return False

    def scalar_safe_sub(self, st: St, e: ast.AST) -> bool:
        if isinstance(e, ast.Slice):
            return all(x is None or self.scalar_safe(st, x) for x in (e.lower, e.upper, e.step))
        return self.scalar_safe(st, e)

    def test_ok(self, st: St, e: ast.AST) -> bool:
        if isinstance(e, ast.UnaryOp) and isinstance(e.op, ast.Not):
            return self.test_ok(st, e.operand)
        if isinstance(e, ast.Name):
            return True  # truthiness of anything
        if isinstance(e, ast.BoolOp):
            return all(self.test_ok(st, v) for v in e.values)
        return self.scalar_safe(st, e)

    def is_obj_expr(self, st: St, e: ast.AST) -> bool:
        if isinstance(e, ast.Name):
            return self.kind(st, e.id) == "obj"
        return self.is_live_trial(st, e)

    def is_live_trial(self, st: St, e: ast.AST) -> bool:
        if m_any(RE_LIVE_TRIAL, e):
            return True
        return isinstance(e, ast.Subscript) and not isinstance(e.slice, ast.Slice) and isinstance(e.value, ast.Attribute) \
            and e.value.attr == "trials" and isinstance(e.value.value, ast.Name) and self.kind(st, e.value.value.id) == "study"

    # -- making an expression the current object -------------------------------------------------
    def to_cur(self, st: St, e: ast.AST, for_write: bool = False) -> str:
        """Emit what is needed for `cur` to hold the value of `e`; returns its kind (obj/view/list)."""
        s = src(e)
        if isinstance(e, ast.Name):
            k, info = st.env.get(e.id, ("scalar", None))
            if k == "obj":
                tok, live, pub = info
                if tok == st.tok:
                    return "obj"
                if live and pub == st.published and not for_write:
                    st.emit("load")
                    st.env[e.id] = ("obj", (st.new_tok(), True, st.published))
                    return "obj"
                raise U(e, "object variable is no longer the current object")
            if k == "view":
                if info != st.tok:
                    st.emit("loadAll")
                    st.env[e.id] = ("view", st.new_tok())
                return "view"
            if k == "list":
                return "list"
            if k == "deep":
                return "deep"
            raise U(e, "not an object")
        if self.is_live_trial(st, e):
            st.emit("load")
            st.new_tok()
            return "obj"
        if m_any(RE_FRESH_TRIAL, s):
            st.emit(*FRESH_TRIAL)
            st.new_tok()
            return "obj"
        if m_any(RE_FRESH_DICT, s):
            st.emit("allocNew")
            st.new_tok()
            return "obj"
        if m_any(RE_VIEW, s):
            st.emit("loadAll")
            st.new_tok()
            return "view"
        if m_any(RE_LIVE_LIST_CALL, s) or m_any(RE_FRESH_LIST, s):
            st.emit("collect")
            st.new_tok()
            return "obj"
        sa = self.study_attr(st, e)
        if sa is not None:
            st.emit("load")
            st.new_tok()
            return "obj"
        if isinstance(e, ast.Attribute) and PRIV.get(e.attr, e.attr) in FIELDS and self.is_obj_or_live(st, e.value):
            self.to_cur(st, e.value)
            st.emit("loadField %d" % FIELDS[PRIV.get(e.attr, e.attr)])
            st.new_tok()
            return "obj"
        raise U(e, "expression is not a recognised object expression")

    def is_obj_or_live(self, st: St, e: ast.AST) -> bool:
        return self.is_obj_expr(st, e) or m_any(RE_FRESH_TRIAL, src(e))

    def study_attr(self, st: St, e: ast.AST) -> str | None:
        """`study.user_attrs` / `self._studies[s].directions` -> attribute name (a slot)."""
        if isinstance(e, ast.Attribute) and e.attr in STUDY_SLOTS | {"_directions"}:
            b = e.value
            if (isinstance(b, ast.Name) and self.kind(st, b.id) == "study") or m_any(RE_STUDY, src(b)):
                return e.attr
        return None

    def fresh_value(self, st: St, e: ast.AST) -> bool:
        """An expression that builds a new dict/list/None not shared with anything stored."""
        if isinstance(e, ast.Constant):
            return True
        if isinstance(e, ast.Dict) and all(k is not None for k in e.keys):
            return all(self.scalar_safe(st, k) for k in e.keys if k is not None) and all(self.scalar_safe(st, v) for v in e.values)
        if isinstance(e, (ast.DictComp, ast.ListComp)):
            return self.scalar_safe(st, e)
        if isinstance(e, ast.Name):
            return self.kind(st, e.id) == "scalar" and st.env.get(e.id, ("scalar", None))[1] != "param-object"
        if isinstance(e, ast.Call):
            s = src(e)
            if re.match(r"^log\.get\(", s) or re.match(r"^list\(", s) or re.match(r"^dict\(", s):
                return all(self.scalar_safe(st, a) for a in e.args)
            if re.match(r"^datetime\.", s) or re.match(r"^TrialState\(", s):
                return True
        if isinstance(e, ast.Subscript) and isinstance(e.value, ast.Name) and e.value.id == "log":
            return True
        return False

    # -- constructors ----------------------------------------------------------------------------
    def construct_trial(self, st: St, e: ast.Call) -> None:
        st.emit("allocNew")
        st.new_tok()
        seen = set()
        for kw in e.keywords:
            a = kw.arg
            if a in FIELDS:
                if not self.fresh_value(st, kw.value):
                    raise U(kw.value, "FrozenTrial(%s=...) is not a freshly built value" % a)
                if not (isinstance(kw.value, ast.Constant) and kw.value.value is None):
                    st.emit(("?newField %d" if a == "values" else "newField %d") % FIELDS[a])
                seen.add(a)
            elif a in SCALAR_FIELDS or a in ("trial_id",):
                if not self.scalar_safe(st, kw.value):
                    raise U(kw.value, "FrozenTrial(%s=...) is not scalar" % a)
            else:
                raise U(kw.value, "unknown FrozenTrial argument %r" % a)
        if e.args:
            raise U(e, "positional FrozenTrial arguments")

    def rhs_object(self, st: St, e: ast.AST) -> tuple[str, Any] | None:
        """If `e` evaluates to a tracked object, emit the primitives and return the env entry."""
        s = src(e)
        if isinstance(e, ast.Call) and s.startswith("copy.copy(") and len(e.args) == 1:
            k = self.to_cur(st, e.args[0])
            if k == "obj":
                st.emit("allocCopy")
                return ("obj", (st.new_tok(), False, st.published))
            if k in ("view", "list"):
                st.emit("collect")
                return ("obj", (st.new_tok(), False, st.published))
            raise U(e, "copy.copy of a deep copy")
        if isinstance(e, ast.Call) and s.startswith("copy.deepcopy(") and len(e.args) == 1:
            a = e.args[0]
            if isinstance(a, ast.Name) and st.env.get(a.id, (None, None)) == ("scalar", "param-object"):
                # the caller's own object (template_trial): a deep copy of it is a brand-new object graph
                st.emit(*FRESH_TRIAL)
                return ("obj", (st.new_tok(), False, st.published))
            k = self.to_cur(st, a)
            if k in ("view", "list"):
                st.emit("collect")
                st.new_tok()
            return ("deep", st.tok)
        if isinstance(e, ast.Call) and (s.startswith("FrozenTrial(") or s.startswith("self._create_running_trial(")):
            if s.startswith("self._create_running_trial("):
                st.emit("allocNew", *["newField %d" % FIELDS[f] for f in ("params", "distributions", "user_attrs", "system_attrs", "intermediate_values")])
                st.new_tok()
            else:
                self.construct_trial(st, e)
            return ("obj", (st.tok, False, st.published))
        if m_any(RE_LIVE_TRIAL, s):
            st.emit("load")
            return ("obj", (st.new_tok(), True, st.published))
        if m_any(RE_FRESH_TRIAL, s) or m_any(RE_FRESH_DICT, s):
            self.to_cur(st, e)
            return ("obj", (st.tok, False, st.published))
        if m_any(RE_LIVE_LIST_CALL, s) or m_any(RE_FRESH_LIST, s):
            st.emit("collect")
            return ("obj", (st.new_tok(), False, st.published))
        if m_any(RE_SLICE, e):
            return ("list", None)
        if isinstance(e, ast.Subscript) and not isinstance(e.slice, ast.Slice) and (
                (isinstance(e.value, ast.Name) and self.kind(st, e.value.id) in ("view", "list"))
                or (isinstance(e.value, ast.Attribute) and e.value.attr == "trials" and isinstance(e.value.value, ast.Name)
                    and self.kind(st, e.value.value.id) == "study")):
            # an element of the container: a live object
            st.emit("load")
            return ("obj", (st.new_tok(), True, st.published))
        if m_any(RE_STUDY, s) and not s.startswith("self._replay_result.get_all"):
            return ("study", None)
        if m_any(RE_VIEW, s):
            st.emit("loadAll")
            return ("view", st.new_tok())
        if isinstance(e, ast.Attribute) and isinstance(e.value, ast.Name) and self.kind(st, e.value.id) == "study" and e.attr == "trials":
            st.emit("loadAll")
            return ("view", st.new_tok())
        if isinstance(e, ast.List) and not e.elts:
            return ("list", None)
        if isinstance(e, (ast.ListComp, ast.DictComp)) and len(e.generators) == 1:
            it = e.generators[0].iter
            its = src(it)
            base = it.func.value if isinstance(it, ast.Call) and isinstance(it.func, ast.Attribute) and it.func.attr in ("values", "items") else it
            if (isinstance(base, ast.Name) and self.kind(st, base.id) in ("view", "list", "obj")) or m_any(RE_VIEW, its) or \
                    (isinstance(base, ast.Attribute) and isinstance(base.value, ast.Name) and self.kind(st, base.value.id) == "study" and base.attr == "trials"):
                # `[t for t in trials if t.state in states]`: a new list of the same live objects
                elt = e.elt if isinstance(e, ast.ListComp) else e.value
                if not isinstance(elt, ast.Name):
                    raise U(e, "comprehension element is not the loop variable")
                st.emit("collect")
                return ("obj", (st.new_tok(), False, st.published))
        if isinstance(e, ast.Call) and re.match(r"^list\(sorted\((\w+)\.values\(\), key=", s):
            n = re.match(r"^list\(sorted\((\w+)\.values\(\), key=", s).group(1)  # type: ignore[union-attr]
            if self.kind(st, n) in ("view", "obj", "list"):
                st.emit("collect")
                return ("obj", (st.new_tok(), False, st.published))
        if isinstance(e, ast.Call) and isinstance(e.func, ast.Name) and e.func.id in ("max", "min") and e.args and isinstance(e.args[0], ast.Name) \
                and self.kind(st, e.args[0].id) in ("obj", "list", "view"):
            # an element of a list of live objects
            st.emit("load")
            return ("obj", (st.new_tok(), True, st.published))
        return None

    # -- statements ------------------------------------------------------------------------------
    def run_block(self, sts: list[St], body: list[ast.stmt]) -> list[St]:
        for stmt in body:
            nxt: list[St] = []
            for st in sts:
                if st.done or st.loop_break:
                    nxt.append(st)
                else:
                    nxt += self.stmt(st, stmt)
            sts = nxt
            if len(sts) > 400:
                raise U(stmt, "too many paths")
        return sts

    def stmt(self, st: St, n: ast.stmt) -> list[St]:
        if isinstance(n, ast.With):
            if not all(re.match(r"^self\._(thread_)?lock$", src(i.context_expr)) for i in n.items):
                raise U(n, "unknown context manager")
            return self.run_block([st], n.body)
        if isinstance(n, ast.Pass):
            return [st]
        if isinstance(n, ast.Expr):
            if isinstance(n.value, ast.Constant):
                return [st]
            return self.expr_stmt(st, n)
        if isinstance(n, ast.Assert):
            return [st]
        if isinstance(n, ast.Raise):
            st.done = True
            return [st]
        if isinstance(n, ast.Break):
            st.loop_break = True
            return [st]
        if isinstance(n, ast.Continue):
            st.loop_break = True
            return [st]
        if isinstance(n, ast.If):
            if not self.test_ok(st, n.test):
                raise U(n.test, "condition is not scalar-safe")
            a = self.run_block([st.clone()], n.body)
            b = self.run_block([st.clone()], n.orelse)
            return a + b
        if isinstance(n, ast.For):
            return self.for_stmt(st, n)
        if isinstance(n, ast.Try):
            a = self.run_block([st.clone()], n.body + n.orelse)
            out = list(a)
            for h in n.handlers:
                out += self.run_block([st.clone()], h.body)
            if n.finalbody:
                out = self.run_block(out, n.finalbody)
            return out
        if isinstance(n, ast.Return):
            return self.ret(st, n)
        if isinstance(n, ast.AnnAssign):
            if n.value is None:
                return [st]
            return self.assign(st, [n.target], n.value, n)
        if isinstance(n, ast.Assign):
            return self.assign(st, n.targets, n.value, n)
        if isinstance(n, ast.AugAssign):
            if m_any(RE_PRIVATE_TARGET, src(n.target)) and self.scalar_safe(st, n.value):
                return [st]
            raise U(n, "augmented assignment to a non-private target")
        if isinstance(n, ast.Delete):
            for t in n.targets:
                s = src(t)
                if Shape("self._trials[_]").match(t) or Shape("self._studies[_]").match(t):
                    st.emit("unpublish")
                    st.published += 1
                elif m_any(RE_PRIVATE_TARGET, s):
                    pass
                else:
                    raise U(n, "del of a non-private target")
            return [st]
        raise U(n, "statement shape not whitelisted")

    def expr_stmt(self, st: St, n: ast.Expr) -> list[St]:
        e = n.value
        s = src(e)
        if not isinstance(e, ast.Call):
            raise U(n, "expression statement")
        if m_any(RE_NEUTRAL_CALL, s) or m_any(RE_PRIVATE_CALL, s):
            # arguments must not leak a tracked object into something that mutates it: these helpers only read
            if m_any(RE_MAY_RAISE, e):
                out = st.clone()
                out.done = True  # the check raises: the call ends here
                return [out, st]
            return [st]
        if Shape("self._set_trial(_, _x)").match(e) and isinstance(e.args[1], ast.Name):
            self.need_current(st, e.args[1].id, n)
            st.emit("publish")
            st.published += 1
            return [st]
        if Shape("self._studies[_].trials.append(_x)").match(e) and isinstance(e.args[0], ast.Name):
            self.need_current(st, e.args[0].id, n)
            st.emit("publish")
            st.published += 1
            return [st]
        if Shape("self._add_trials_to_cache(_, _x)").match(e):
            # helper: `study.trials[trial.number] = trial` for each element (checked on the helper itself)
            name = src(e.args[1]).strip("[]")
            k = self.kind(st, name)
            if k != "obj":
                raise U(n, "argument of _add_trials_to_cache is not a tracked object")
            self.to_cur(st, ast.Name(id=name))
            st.emit("publish")
            st.published += 1
            return [st]
        f = e.func
        if isinstance(f, ast.Attribute) and isinstance(f.value, ast.Name):
            k = self.kind(st, f.value.id)
            if k == "list" and f.attr == "append" and len(e.args) == 1:
                a = e.args[0]
                if isinstance(a, ast.Name) and self.kind(st, a.id) == "obj":
                    return [st]
                if m_any(RE_LIVE_TRIAL, src(a)):
                    return [st]
                raise U(n, "append of an untracked value to a result list")
        # in-place mutation through a method call: x.f.update(..) / d.update(..)
        if isinstance(f, ast.Attribute) and f.attr in ("update", "setdefault", "pop", "clear", "popitem", "__setitem__", "append", "extend", "insert", "remove", "sort", "reverse"):
            tgt = f.value
            if isinstance(tgt, ast.Attribute) and PRIV.get(tgt.attr, tgt.attr) in FIELDS and self.is_obj_expr(st, tgt.value):
                self.to_cur(st, tgt.value, for_write=not m_any(RE_LIVE_TRIAL, src(tgt.value)))
                st.emit("mutField %d" % FIELDS[PRIV.get(tgt.attr, tgt.attr)])
                return [st]
            sa = self.study_attr(st, tgt)
            if sa is not None:
                st.emit("load", "mutCur")
                st.new_tok()
                return [st]
            if isinstance(tgt, ast.Name) and self.kind(st, tgt.id) == "obj":
                self.need_current(st, tgt.id, n)
                st.emit("mutCur")
                return [st]
            if isinstance(tgt, ast.Name) and self.kind(st, tgt.id) == "view":
                raise U(n, "in-place mutation of the container through a local alias")
        raise U(n, "call statement not whitelisted")

    def need_current(self, st: St, name: str, n: ast.AST) -> None:
        k, info = st.env.get(name, ("scalar", None))
        if k != "obj" or info[0] != st.tok:
            raise U(n, "`%s` is not the current object" % name)

    def for_stmt(self, st: St, n: ast.For) -> list[St]:
        if n.orelse:
            raise U(n, "for-else")
        its = src(n.iter)
        it = n.iter
        skip = st.clone()
        once = st.clone()
        tgt = n.target
        elem_kind: tuple[str, Any] | None = None
        if isinstance(it, ast.Name) and self.kind(st, it.id) in ("view", "list"):
            elem_kind = ("obj", None)
        elif isinstance(it, ast.Name) and st.env.get(it.id, (None, None)) == ("scalar", "param-fresh-list"):
            elem_kind = ("fresh", None)
        elif isinstance(it, ast.Name) and self.kind(st, it.id) == "obj" and st.env[it.id][1][1] is False:
            elem_kind = ("freshelem", None)  # elements of a freshly built list (backend read)
        elif m_any(RE_VIEW, it) or m_any(RE_SLICE, it):
            elem_kind = ("obj", None)
        elif self.scalar_safe(st, it):
            elem_kind = None
        else:
            raise U(n.iter, "loop over an unrecognised collection")
        if isinstance(tgt, ast.Name):
            if elem_kind is None:
                once.env[tgt.id] = ("scalar", None)
            elif elem_kind[0] == "obj":
                once.emit("load")
                once.env[tgt.id] = ("obj", (once.new_tok(), True, once.published))
            else:
                once.emit(*FRESH_TRIAL)
                once.env[tgt.id] = ("obj", (once.new_tok(), False, once.published))
        elif isinstance(tgt, ast.Tuple) and elem_kind is None:
            for x in tgt.elts:
                if isinstance(x, ast.Name):
                    once.env[x.id] = ("scalar", None)
        else:
            raise U(n, "loop target")
        outs = self.run_block([once], n.body)
        for o in outs:
            o.loop_break = False
        return [skip] + outs

    def assign(self, st: St, targets: list[ast.expr], value: ast.expr, n: ast.stmt) -> list[St]:
        if len(targets) != 1:
            raise U(n, "chained assignment")
        t = targets[0]
        ts = src(t)
        # -- local name ---------------------------------------------------------------------------
        if isinstance(t, ast.Name):
            ent = self.rhs_object(st, value)
            if ent is not None:
                st.env[t.id] = ent
                return [st]
            if isinstance(value, ast.Name) and self.kind(st, value.id) != "scalar":
                st.env[t.id] = st.env[value.id]
                return [st]
            if self.scalar_safe(st, value) or self.fresh_value(st, value):
                st.env[t.id] = ("scalar", None)
                return [st]
            raise U(n, "right-hand side may alias a stored object")
        if isinstance(t, ast.Tuple) and all(isinstance(x, ast.Name) for x in t.elts):
            if self.scalar_safe(st, value):
                for x in t.elts:
                    st.env[x.id] = ("scalar", None)  # type: ignore[attr-defined]
                return [st]
            raise U(n, "tuple assignment of a non-scalar")
        # -- attribute of an object: x.f = ... ------------------------------------------------------
        if isinstance(t, ast.Attribute) and isinstance(t.value, ast.Name) and self.kind(st, t.value.id) == "obj":
            x = t.value.id
            a = PRIV.get(t.attr, t.attr)
            self.need_current(st, x, n)
            if a in FIELDS:
                f = FIELDS[a]
                vs = src(value)
                same = r"(?:copy\.copy\()?%s\.(?:%s|_%s)\)?" % (re.escape(x), a, a)
                if re.match(r"^copy\.copy\(%s\.(%s|_%s)\)$" % (re.escape(x), a, a), vs):
                    st.emit("copyField %d" % f)
                    return [st]
                if isinstance(value, ast.Dict) and value.keys and value.keys[0] is None and re.match("^%s$" % same, src(value.values[0])):
                    for k, v in zip(value.keys[1:], value.values[1:]):
                        if k is not None and not self.scalar_safe(st, k):
                            raise U(n, "dict display key")
                        if not self.scalar_safe(st, v):
                            raise U(n, "dict display value")
                    st.emit("copyField %d" % f)
                    if len(value.keys) > 1:
                        st.emit("mutField %d" % f)
                    return [st]
                if self.fresh_value(st, value) or (a == "values" and self.scalar_safe(st, value)):
                    # `FrozenTrial.values = v` stores `list(v)` (property setter)
                    st.emit("newField %d" % f)
                    return [st]
                raise U(n, "dict-valued attribute assigned something that is neither a copy of itself nor a new value")
            if a in SCALAR_FIELDS:
                if not self.scalar_safe(st, value):
                    raise U(n, "scalar attribute assigned a non-scalar")
                st.emit("setScalar %d" % SCALAR_FIELDS[a])
                return [st]
            raise U(n, "unknown attribute of a trial object")
        # -- element of a dict-valued attribute: x.f[k] = v -----------------------------------------
        if isinstance(t, ast.Subscript) and isinstance(t.value, ast.Attribute) and PRIV.get(t.value.attr, t.value.attr) in FIELDS \
                and self.is_obj_expr(st, t.value.value):
            if not (self.scalar_safe_sub(st, t.slice) and self.scalar_safe(st, value)):
                raise U(n, "key/value of an item assignment")
            base = t.value.value
            self.to_cur(st, base, for_write=isinstance(base, ast.Name))
            st.emit("mutField %d" % FIELDS[PRIV.get(t.value.attr, t.value.attr)])
            return [st]
        # -- study attribute slots --------------------------------------------------------------------
        sa = self.study_attr(st, t)
        if sa is not None:
            vs = src(value)
            bs = src(t.value)  # type: ignore[attr-defined]
            if isinstance(value, ast.Dict) and value.keys and value.keys[0] is None and src(value.values[0]) == "%s.%s" % (bs, sa):
                for k, v in zip(value.keys[1:], value.values[1:]):
                    if (k is not None and not self.scalar_safe(st, k)) or not self.scalar_safe(st, v):
                        raise U(n, "dict display")
                st.emit("load", "allocCopy")
                if len(value.keys) > 1:
                    st.emit("mutCur")
                st.emit("publish")
                st.new_tok()
                st.published += 1
                return [st]
            if re.match(r"^copy\.copy\(%s\.%s\)$" % (re.escape(bs), sa), vs):
                st.emit("load", "allocCopy", "publish")
                st.new_tok()
                st.published += 1
                return [st]
            if self.fresh_value(st, value):
                st.emit("allocNew", "publish")
                st.new_tok()
                st.published += 1
                return [st]
            if isinstance(value, ast.Name) and self.kind(st, value.id) == "obj":
                self.need_current(st, value.id, n)
                st.emit("publish")
                st.published += 1
                return [st]
            raise U(n, "study attribute assigned something that is neither a copy of itself nor a new value")
        if isinstance(t, ast.Subscript) and self.study_attr(st, t.value) is not None:
            if not (self.scalar_safe_sub(st, t.slice) and self.scalar_safe(st, value)):
                raise U(n, "key/value of an item assignment")
            st.emit("load", "mutCur")
            st.new_tok()
            return [st]
        # -- study record attributes that are private ---------------------------------------------------
        if isinstance(t, ast.Attribute) and isinstance(t.value, ast.Name) and self.kind(st, t.value.id) == "study" and t.attr in STUDY_PRIVATE:
            if self.scalar_safe(st, value) or self.fresh_value(st, value):
                return [st]
            raise U(n, "private study attribute assigned a tracked object")
        # -- publishing ----------------------------------------------------------------------------------
        if Shape("self._trials[_]").match(t) or Shape("self._studies[_].trials[_]").match(t) or \
                (isinstance(t, ast.Subscript) and isinstance(t.value, ast.Attribute) and t.value.attr == "trials"
                 and isinstance(t.value.value, ast.Name) and self.kind(st, t.value.value.id) == "study"):
            if isinstance(value, ast.Name):
                self.to_cur(st, value, for_write=True)
            else:
                ent = self.rhs_object(st, value)
                if ent is None or ent[0] != "obj":
                    raise U(n, "stored value is not a tracked object")
            st.emit("publish")
            st.published += 1
            return [st]
        if Shape("self._studies[_]").match(t):
            return self.new_study(st, value, n)
        if m_any(RE_PRIVATE_TARGET, ts):
            if self.scalar_safe(st, value) or self.fresh_value(st, value):
                return [st]
            raise U(n, "bookkeeping assigned a tracked object")
        raise U(n, "assignment target not whitelisted")

    def new_study(self, st: St, value: ast.expr, n: ast.stmt) -> list[St]:
        s = src(value)
        if s == "_StudyInfo()":
            return [st]
        if isinstance(value, ast.Name) and self.kind(st, value.id) == "study":
            return [st]
        if isinstance(value, ast.Call) and isinstance(value.func, ast.Name) and value.func.id in ("_StudyInfo", "FrozenStudy"):
            # every slot-valued attribute of the new record must be a new object
            args = list(value.args) + [k.value for k in value.keywords]
            for a in args:
                if not (self.scalar_safe(st, a) or self.fresh_value(st, a)):
                    raise U(a, "study record built from a tracked object")
            for _ in sorted(STUDY_SLOTS):
                st.emit("allocNew", "publish")
                st.new_tok()
                st.published += 1
            return [st]
        raise U(n, "study record")

    def ret(self, st: St, n: ast.Return) -> list[St]:
        st.done = True
        e = n.value
        if e is None:
            return [st]
        s = src(e)
        if isinstance(e, ast.Name):
            k, info = st.env.get(e.id, ("scalar", None))
            if k == "obj":
                self.to_cur(st, e)
                st.emit("ret")
                return [st]
            if k == "view":
                self.to_cur(st, e)
                st.emit("ret")
                return [st]
            if k == "list":
                st.emit("collect", "ret")
                return [st]
            if k == "deep":
                if info != st.tok:
                    raise U(n, "deep copy of something that is no longer current")
                st.emit("retDeep")
                return [st]
            if k == "study":
                st.emit("loadAll", "ret")
                return [st]
            return [st]
        if isinstance(e, ast.IfExp):
            a = self.ret(st.clone(), ast.Return(value=e.body, lineno=n.lineno))
            b = self.ret(st.clone(), ast.Return(value=e.orelse, lineno=n.lineno))
            if not self.test_ok(st, e.test):
                raise U(n, "condition")
            return a + b
        if isinstance(e, ast.Call) and s.startswith("copy.deepcopy(") and len(e.args) == 1:
            k = self.to_cur(st, e.args[0])
            if k in ("view", "list"):
                st.emit("collect")
            st.emit("retDeep")
            return [st]
        if isinstance(e, ast.Call) and s.startswith("copy.copy(") and len(e.args) == 1:
            ent = self.rhs_object(st, e)
            st.emit("ret")
            return [st]
        if isinstance(e, ast.ListComp) and re.match(r"^\[self\._build_frozen_study\(\w+\) for \w+ in self\._studies\]$", s):
            st.emit(*self.params["__build_frozen_study__"])
            return [st]
        ent = None
        if not self.scalar_safe(st, e):
            # an object-valued expression
            sa = self.study_attr(st, e)
            if sa is not None or (isinstance(e, ast.Attribute) and PRIV.get(e.attr, e.attr) in FIELDS) or self.is_live_trial(st, e) \
                    or m_any(RE_VIEW, s) or m_any(RE_FRESH_TRIAL, s) or m_any(RE_FRESH_DICT, s) or m_any(RE_FRESH_LIST, s) or m_any(RE_LIVE_LIST_CALL, s):
                self.to_cur(st, e)
                st.emit("ret")
                return [st]
            ent = self.rhs_object(st, e)
            if ent is not None and ent[0] == "obj":
                st.emit("ret")
                return [st]
            if ent is not None and ent[0] in ("view",):
                st.emit("ret")
                return [st]
            if ent is not None and ent[0] == "study":
                st.emit("loadAll", "ret")
                return [st]
            raise U(n, "returned expression not recognised")
        return [st]

    def run(self) -> list[list[str]]:
        st = St()
        for name, ent in self.params.items():
            if not name.startswith("__"):
                st.env[name] = ent
        outs = self.run_block([st], self.fn.body)
        paths: list[list[str]] = []
        for o in outs:
            for p in _expand(o.prims):
                if p not in paths:
                    paths.append(p)
        return paths


def _expand(prims: list[str]) -> list[list[str]]:
    """`?p` = the primitive may or may not happen (a value that can be None at run time)."""
    outs: list[list[str]] = [[]]
    for p in prims:
        if p.startswith("?"):
            outs = [o + x for o in outs for x in ([], [p[1:]])]
        else:
            outs = [o + [p] for o in outs]
    return outs


# ---- inventory -----------------------------------------------------------------------------------
def _class(tree: ast.Module, name: str) -> ast.ClassDef:
    for n in tree.body:
        if isinstance(n, ast.ClassDef) and n.name == name:
            return n
    raise Untranslatable(name, "class not found")


def _methods(c: ast.ClassDef) -> dict[str, ast.FunctionDef]:
    return {n.name: n for n in c.body if isinstance(n, ast.FunctionDef)}


IN_MEMORY = ["create_new_study", "delete_study", "set_study_user_attr", "set_study_system_attr", "get_study_id_from_name",
             "get_study_name_from_id", "get_study_directions", "get_study_user_attrs", "get_study_system_attrs", "get_all_studies",
             "create_new_trial", "set_trial_param", "get_trial_id_from_study_id_trial_number", "get_trial_number_from_id",
             "get_best_trial", "get_trial_param", "set_trial_state_values", "_update_cache", "set_trial_intermediate_value",
             "set_trial_user_attr", "set_trial_system_attr", "get_trial", "_get_trial", "_set_trial", "get_all_trials"]
REPLAY = ["get_trial", "get_all_trials", "_apply_create_study", "_apply_delete_study",
          "_apply_set_study_user_attr", "_apply_set_study_system_attr", "_apply_create_trial", "_apply_set_trial_param",
          "_apply_set_trial_state_values", "_apply_set_trial_intermediate_value", "_apply_set_trial_user_attr",
          "_apply_set_trial_system_attr"]
JOURNAL = ["get_study_name_from_id", "get_study_directions", "get_study_user_attrs", "get_study_system_attrs", "get_all_studies",
           "get_trial", "get_all_trials", "get_trial_id_from_study_id_trial_number"]
BASE = ["get_best_trial", "get_trial_params", "get_trial_user_attrs", "get_trial_system_attrs"]
CACHED = ["get_study_user_attrs", "get_study_system_attrs", "get_all_studies", "create_new_trial", "get_best_trial",
          "_get_cached_trial", "get_trial", "get_all_trials", "_add_trials_to_cache"]

PARAMS: dict[tuple[str, str], dict[str, tuple[str, Any]]] = {
    ("InMemoryStorage", "create_new_trial"): {"template_trial": ("scalar", "param-object")},
    ("InMemoryStorage", "_set_trial"): {"trial": ("obj", (0, False, 0))},
    ("_CachedStorage", "_add_trials_to_cache"): {"trials": ("scalar", "param-fresh-list")},
}


def _helper_checks(cls: str, ms: dict[str, ast.FunctionDef], out: list[str]) -> dict[str, Any]:
    """Helpers that other methods use by name must have exactly the meaning the interpreter gives to
    a call of them."""
    extra: dict[str, Any] = {}
    if cls == "InMemoryStorage":
        want = {"_get_trial": [["load", "ret"]], "_set_trial": [["publish"]]}
        for h, w in want.items():
            got = Interp(cls, ms[h], PARAMS.get((cls, h))).run()
            got = [p for p in got if p]
            if got != w:
                raise Untranslatable("%s.%s" % (cls, h), "helper no longer means %s (now %s)" % (w, got))
        # _build_frozen_study: FrozenStudy(.., user_attrs=<E1>, system_attrs=<E2>, ..)
        fn = ms["_build_frozen_study"]
        r = [n for n in ast.walk(fn) if isinstance(n, ast.Return)]
        if len(r) != 1 or not (isinstance(r[0].value, ast.Call) and src(r[0].value.func) == "FrozenStudy"):
            raise Untranslatable("InMemoryStorage._build_frozen_study", "shape")
        kws = {k.arg: src(k.value) for k in r[0].value.keywords}
        prims: list[str] = []
        for a in ("user_attrs", "system_attrs"):
            v = kws.get(a, "")
            if re.match(r"^copy\.deepcopy\(study\.%s\)$" % a, v):
                prims += ["load", "retDeep"]
            elif re.match(r"^copy\.copy\(study\.%s\)$" % a, v) or re.match(r"^dict\(study\.%s\)$" % a, v):
                prims += ["load", "allocCopy", "ret"]
            elif v == "study.%s" % a:
                prims += ["load", "ret"]
            else:
                raise Untranslatable("InMemoryStorage._build_frozen_study", "%s=%s" % (a, v))
        extra["__build_frozen_study__"] = prims
    if cls == "JournalStorageReplayResult":
        # internal helpers that hand the private FrozenStudy records to JournalStorage (whose getters are translated
        # knowing that): they must still mean "the record itself" / "the live trial" / "a new list of live trials"
        want2 = {"get_study": [["loadAll", "ret"]], "get_all_studies": [["loadAll", "ret"]], "get_trial": [["load", "ret"]]}
        for h, w in want2.items():
            got = [p for p in Interp(cls, ms[h]).run() if p]
            if got != w:
                raise Untranslatable("%s.%s" % (cls, h), "helper no longer means %s (now %s)" % (w, got))
        got = [p for p in Interp(cls, ms["get_all_trials"]).run() if p]
        if not got or any(p[-2:] != ["collect", "ret"] for p in got):
            raise Untranslatable("%s.get_all_trials" % cls, "helper no longer returns a new list of the live trials (now %s)" % got)
    if cls == "_CachedStorage":
        got = Interp(cls, ms["_add_trials_to_cache"], PARAMS.get((cls, "_add_trials_to_cache"))).run()
        body = [p for p in got if p]
        want = [[p for p in FRESH_TRIAL if not p.startswith("?")] + ["publish"], [p.lstrip("?") for p in FRESH_TRIAL] + ["publish"]]
        if body != want:
            raise Untranslatable("_CachedStorage._add_trials_to_cache", "helper no longer only stores the objects it is given (now %s)" % body)
    return extra


def _frozen_trial_checks(repo: str) -> list[str]:
    """Facts about FrozenTrial the interpreter relies on: the `values` setter stores a new list."""
    tree = ast.parse(open(os.path.join(repo, "optuna/trial/_frozen.py")).read())
    c = _class(tree, "FrozenTrial")
    ms = _methods(c)
    notes = []
    sv = ms.get("_set_values")
    if sv is None or "self._values = list(v)" not in src(sv):
        raise Untranslatable("FrozenTrial._set_values", "does not store list(v)")
    notes.append("FrozenTrial._set_values stores list(v)")
    return notes


def translate_storages(repo: str) -> tuple[list[tuple[str, list[str]]], list[dict[str, str]], list[str]]:
    """-> (methods [(name, prims)], untranslatable [{where, why}], notes)"""
    methods: list[tuple[str, list[str]]] = []
    bad: list[dict[str, str]] = []
    notes: list[str] = []
    try:
        notes += _frozen_trial_checks(repo)
    except Untranslatable as e:
        bad.append({"where": e.where, "why": e.why})
    plan = [
        ("optuna/storages/_in_memory.py", "InMemoryStorage", IN_MEMORY),
        ("optuna/storages/journal/_storage.py", "JournalStorageReplayResult", REPLAY),
        ("optuna/storages/journal/_storage.py", "JournalStorage", JOURNAL),
        ("optuna/storages/_base.py", "BaseStorage", BASE),
        ("optuna/storages/_cached_storage.py", "_CachedStorage", CACHED),
    ]
    for path, cls, names in plan:
        try:
            tree = ast.parse(open(os.path.join(repo, path)).read())
            ms = _methods(_class(tree, cls))
            extra = _helper_checks(cls, ms, notes)
        except Untranslatable as e:
            bad.append({"where": "%s: %s" % (cls, e.where), "why": e.why})
            continue
        # every method of the class that is not in the inventory must be known-irrelevant
        for name in names:
            fn = ms.get(name)
            if fn is None:
                bad.append({"where": "%s.%s" % (cls, name), "why": "method not found"})
                continue
            params = dict(PARAMS.get((cls, name), {}))
            params.update(extra)
            try:
                paths = Interp(cls, fn, params).run()
            except Untranslatable as e:
                bad.append({"where": "%s.%s %s" % (cls, name, e.where), "why": e.why})
                continue
            paths = [p for p in paths if p] + ([[]] if any(not p for p in paths) else [])
            for i, p in enumerate(paths):
                methods.append(("%s.%s#%d" % (cls, name, i), p))
        known = set(names)
        for name in ms:
            if name in known or name in IRRELEVANT.get(cls, set()) or cls == "BaseStorage":
                continue
            bad.append({"where": "%s.%s" % (cls, name), "why": "method is not in the translator's inventory"})
    return methods, bad, notes


IRRELEVANT: dict[str, set[str]] = {
    "InMemoryStorage": {"__init__", "__getstate__", "__setstate__", "_build_frozen_study", "_create_running_trial", "_check_study_id", "_check_trial_id"},
    "JournalStorageReplayResult": {"__init__", "apply_logs", "get_study", "get_all_studies", "worker_id", "owned_trial_id", "_is_issued_by_this_worker", "_study_exists",
                                   "_trial_exists_and_updatable"},
    "JournalStorage": {"__init__", "__getstate__", "__setstate__", "restore_replay_result", "_write_log", "_sync_with_backend",
                       "create_new_study", "delete_study", "set_study_user_attr", "set_study_system_attr", "get_study_id_from_name",
                       "create_new_trial", "set_trial_param", "set_trial_state_values", "set_trial_intermediate_value",
                       "set_trial_user_attr", "set_trial_system_attr"},
    "BaseStorage": set(),
    "_CachedStorage": {"__init__", "__getstate__", "__setstate__", "create_new_study", "delete_study", "set_study_user_attr",
                       "set_study_system_attr", "get_study_id_from_name", "get_study_name_from_id", "get_study_directions",
                       "set_trial_param", "get_trial_id_from_study_id_trial_number", "set_trial_state_values",
                       "set_trial_intermediate_value", "set_trial_user_attr", "set_trial_system_attr",
                       "_read_trials_from_remote_storage", "record_heartbeat", "_get_stale_trial_ids", "get_heartbeat_interval",
                       "get_failed_trial_callback"},
}


# ---- the Study / Trial level: getters that promise deep copies ------------------------------------
def _ret_shape(fn: ast.FunctionDef, where: str) -> list[list[str]]:
    """Shape of every `return` of an API getter: deep copy / delegation / live."""
    outs: list[list[str]] = []
    for n in ast.walk(fn):
        if not isinstance(n, ast.Return) or n.value is None:
            continue
        s = src(n.value)
        if Shape("copy.deepcopy(_)").match(n.value):
            outs.append(["load", "retDeep"])
        elif re.match(r"^copy\.deepcopy\(\w+\) if deepcopy else \w+$", s):
            outs.append(["load", "retDeep"])  # the deepcopy=True branch is the promise
        elif re.match(r"^self\.get_trials\(deepcopy=True, states=None\)$", s) or re.match(r"^self\._get_trials\(deepcopy, states, use_cache=False\)$", s) \
                or re.match(r"^self\._storage\.get_all_trials\(self\._study_id, deepcopy=deepcopy, states=states\)$", s):
            outs.append(["load", "retDeep"])  # delegates, passing the deep-copy request on
        elif re.match(r"^_get_pareto_front_trials\(self, consider_constraint=\w+\)$", s):
            outs.append(["load", "retDeep"])  # built from `study.trials` (checked below)
        else:
            outs.append(["load", "ret"])
    if not outs:
        raise Untranslatable(where, "no return")
    return outs


def translate_api(repo: str) -> tuple[list[tuple[str, list[str]]], list[dict[str, str]]]:
    out: list[tuple[str, list[str]]] = []
    bad: list[dict[str, str]] = []
    try:
        st = _methods(_class(ast.parse(open(os.path.join(repo, "optuna/study/study.py")).read()), "Study"))
        tr = _methods(_class(ast.parse(open(os.path.join(repo, "optuna/trial/_trial.py")).read()), "Trial"))
        for name in ("best_trial", "best_trials", "trials", "get_trials", "_get_trials", "user_attrs", "system_attrs"):
            for i, p in enumerate(_ret_shape(st[name], "Study." + name)):
                out.append(("Study.%s#%d" % (name, i), p))
        for name in ("params", "distributions", "user_attrs", "system_attrs"):
            for i, p in enumerate(_ret_shape(tr[name], "Trial." + name)):
                out.append(("Trial.%s#%d" % (name, i), p))
        # Trial.__init__: the cached trial must be a deep copy of what the storage returned
        init = tr["__init__"]
        a = [n for n in ast.walk(init) if isinstance(n, ast.Assign) and src(n.targets[0]) == "self._cached_frozen_trial"]
        if len(a) != 1:
            raise Untranslatable("Trial.__init__", "assignment of _cached_frozen_trial not found")
        s = src(a[0].value)
        if re.match(r"^copy\.deepcopy\(self\.storage\.get_trial\(self\._trial_id\)\)$", s):
            out.append(("Trial.__init__[_cached_frozen_trial]#0", ["load", "retDeep"]))
        elif re.match(r"^copy\.copy\(self\.storage\.get_trial\(self\._trial_id\)\)$", s):
            out.append(("Trial.__init__[_cached_frozen_trial]#0", ["load", "allocCopy", "ret"]))
        elif re.match(r"^self\.storage\.get_trial\(self\._trial_id\)$", s):
            out.append(("Trial.__init__[_cached_frozen_trial]#0", ["load", "ret"]))
        else:
            raise Untranslatable("Trial.__init__", "unrecognised initialiser `%s`" % s)
        # _get_pareto_front_trials must start from study.trials
        mo = ast.parse(open(os.path.join(repo, "optuna/study/_multi_objective.py")).read())
        fn = [n for n in mo.body if isinstance(n, ast.FunctionDef) and n.name == "_get_pareto_front_trials"][0]
        if "study.trials" not in src(fn):
            out.append(("_get_pareto_front_trials#0", ["load", "ret"]))
        else:
            out.append(("_get_pareto_front_trials#0", ["load", "retDeep"]))
        # tell returns a deep copy
        tl = ast.parse(open(os.path.join(repo, "optuna/study/_tell.py")).read())
        fn = [n for n in tl.body if isinstance(n, ast.FunctionDef) and n.name == "_tell_with_warning"][0]
        a2 = [n for n in ast.walk(fn) if isinstance(n, ast.Assign) and src(n.targets[0]) == "frozen_trial" and "get_trial(" in src(n.value)]
        for i, n in enumerate(a2):
            out.append(("_tell_with_warning[frozen_trial]#%d" % i, ["load", "retDeep"] if src(n.value).startswith("copy.deepcopy(") else ["load", "ret"]))
        for n in ast.walk(fn):
            if isinstance(n, ast.Return) and n.value is not None and src(n.value) not in ("frozen_trial",):
                out.append(("_tell_with_warning.return", ["load", "retDeep"] if src(n.value).startswith("copy.deepcopy(") else ["load", "ret"]))
    except Untranslatable as e:
        bad.append({"where": e.where, "why": e.why})
    except (KeyError, IndexError) as e:
        bad.append({"where": "Study/Trial API", "why": "expected definition missing: %r" % (e,)})
    return out, bad


# ---- Lean emission ---------------------------------------------------------------------------------
def _prim(p: str) -> str:
    parts = p.split()
    return ".%s" % parts[0] if len(parts) == 1 else "(.%s %s)" % (parts[0], parts[1])


def emit_lean(methods: list[tuple[str, list[str]]], api: list[tuple[str, list[str]]]) -> str:
    L = ["import OptunaVerif.Model.Heap",
         "/-! GENERATED by verif/translators/theap.py from the Python source on every check run — do not edit.",
         "Field codes: " + ", ".join("%s=%d" % kv for kv in sorted({**FIELDS, **SCALAR_FIELDS}.items(), key=lambda kv: kv[1])) + ". -/",
         "namespace OptunaVerif.Generated.HeapMethods", "open OptunaVerif.Heap", ""]

    def table(name: str, doc: str, rows: list[tuple[str, list[str]]]) -> None:
        L.append("/-- %s -/" % doc)
        L.append("def %s : List Method := [" % name)
        for i, (n, ps) in enumerate(rows):
            L.append("  ⟨\"%s\", [%s]⟩%s" % (n, ", ".join(_prim(p) for p in ps), "," if i + 1 < len(rows) else ""))
        L.append("]")
        L.append("")

    table("methods", "one entry per control-flow path of every object-handling method of the in-process storages", methods)
    table("deepApi", "Study/Trial level getters that promise deep copies: the shape of each `return`", api)
    L.append("end OptunaVerif.Generated.HeapMethods")
    return "\n".join(L) + "\n"


def generate(repo: str) -> dict[str, Any]:
    methods, bad, notes = translate_storages(repo)
    api, bad2 = translate_api(repo)
    return {"methods": methods, "api": api, "untranslatable": bad + bad2, "notes": notes, "lean": emit_lean(methods, api)}


if __name__ == "__main__":
    import sys
    g = generate(sys.argv[1] if len(sys.argv) > 1 else "/repo")
    for n, p in g["methods"] + g["api"]:
        print("%-70s %s" % (n, " ".join(p)))
    for b in g["untranslatable"]:
        print("UNTRANSLATABLE", b)
