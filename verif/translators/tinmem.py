"""T-inmem (C01): `InMemoryStorage` -> Lean DATA (lean/OptunaVerif/Generated/InMemoryMethods.lean).

Read from optuna/storages/_in_memory.py (and two methods of optuna/storages/_base.py) with Python `ast` on every run:

  every public method of InMemoryStorage the harness calls (METHODS below), body -> `Stmt` of Model/InMemoryIR.lean
  the private helpers they call: _check_study_id, _check_trial_id, _get_trial, _set_trial, _update_cache          -> `Stmt`
  BaseStorage.check_trial_is_updatable, BaseStorage.get_n_trials (not overridden by InMemoryStorage)              -> `Stmt`
  _StudyInfo.__init__ and InMemoryStorage.__init__: attribute -> initial value                                    -> tables
  _create_running_trial, _build_frozen_study: compared literally with the shape the primitives stand for

Statement language: skip / seq / ite / raise / ret / act / call (callee body inlined by reference, fresh frame, parameter
binding, result slot) / forStudyTrials (the two `for trial in self._studies[sid].trials[...]` loops).  Local variables are
tracked by KIND (their names are free):  sid tid num name trial bestTrial study trials best dirs dir passedState bestValue
newValue, plus the parameters the Lean interpreter reads from the op (key/value, template_trial, param_name, distribution,
state, values, step, trial_number, states, deepcopy).  `with self._lock:` is unwrapped (that every public body is wholly inside
it is T-lock's table, C03); `copy.copy` / `copy.deepcopy` are the identity on values (aliasing is C20's subject); `_logger.*`
calls are dropped.  Anything else raises `Untranslatable`: the method is emitted as the stub `.ret .lenVal` (which makes its
equality theorem fail) and `regenerate` reports chk.broke("translation", ...).
"""
from __future__ import annotations

import ast
import copy as _copy
import os
from typing import Any

from verif.translators.tjournal import U, Untranslatable, is_src, norm

REL = "optuna/storages/_in_memory.py"
BASE_REL = "optuna/storages/_base.py"
CLASS = "InMemoryStorage"

# public methods: python name -> expected parameter names (after self)
METHODS: dict[str, list[str]] = {
    "create_new_study": ["directions", "study_name"],
    "delete_study": ["study_id"],
    "set_study_user_attr": ["study_id", "key", "value"],
    "set_study_system_attr": ["study_id", "key", "value"],
    "get_study_id_from_name": ["study_name"],
    "get_study_name_from_id": ["study_id"],
    "get_study_directions": ["study_id"],
    "get_study_user_attrs": ["study_id"],
    "get_study_system_attrs": ["study_id"],
    "get_all_studies": [],
    "create_new_trial": ["study_id", "template_trial"],
    "set_trial_param": ["trial_id", "param_name", "param_value_internal", "distribution"],
    "get_trial_id_from_study_id_trial_number": ["study_id", "trial_number"],
    "get_trial_number_from_id": ["trial_id"],
    "get_best_trial": ["study_id"],
    "get_trial_param": ["trial_id", "param_name"],
    "set_trial_state_values": ["trial_id", "state", "values"],
    "set_trial_intermediate_value": ["trial_id", "step", "intermediate_value"],
    "set_trial_user_attr": ["trial_id", "key", "value"],
    "set_trial_system_attr": ["trial_id", "key", "value"],
    "get_trial": ["trial_id"],
    "get_all_trials": ["study_id", "deepcopy", "states"],
}
HELPERS: dict[str, list[str]] = {
    "_check_study_id": ["study_id"], "_check_trial_id": ["trial_id"], "_get_trial": ["trial_id"],
    "_set_trial": ["trial_id", "trial"], "_update_cache": ["trial_id", "study_id"],
}
BASE_METHODS: dict[str, list[str]] = {"check_trial_is_updatable": ["trial_id", "trial_state"], "get_n_trials": ["study_id", "state"]}
PARAM_KIND = {
    "study_id": "sid", "trial_id": "tid", "study_name": "name", "trial": "trial", "trial_state": "passedState",
    "directions": "argDirs", "key": "argKey", "value": "argValue", "template_trial": "argTmpl", "param_name": "argParamName",
    "param_value_internal": "argParamValue", "distribution": "argDist", "state": "argState", "values": "argValues",
    "step": "argStep", "intermediate_value": "argInterValue", "trial_number": "argNumber", "deepcopy": "argDeepcopy",
    "states": "argStates",
}
# slots of which there is one per frame (a second local of the same kind under another name is not expressible)
SINGLE = {"sid", "tid", "num", "name", "trial", "bestTrial", "study", "trials", "best", "dirs", "dir", "passedState", "bestValue", "newValue"}
ERR = {"KeyError": "keyError", "DuplicatedStudyError": "duplicated", "UpdateFinishedTrialError": "updateFinished",
       "ValueError": "valueError", "RuntimeError": "runtimeError"}
TSTATE = {"RUNNING": "running", "COMPLETE": "complete", "PRUNED": "pruned", "FAIL": "fail", "WAITING": "waiting"}
CALLEE_SLOT = {"study_id": "sid", "trial_id": "tid", "trial": "trial", "trial_state": "passedState"}

CREATE_RUNNING_TRIAL = """return FrozenTrial(trial_id=-1, number=-1, state=TrialState.RUNNING, params={}, distributions={}, user_attrs={},
    system_attrs={}, value=None, intermediate_values={}, datetime_start=datetime.now(), datetime_complete=None)"""
BUILD_FROZEN_STUDY = ["study = self._studies[study_id]",
                      """return FrozenStudy(study_name=study.name, direction=None, directions=study.directions,
    user_attrs=copy.deepcopy(study.user_attrs), system_attrs=copy.deepcopy(study.system_attrs), study_id=study_id)"""]


def lean_name(method: str) -> str:
    priv = method.startswith("_")
    parts = method.strip("_").split("_")
    n = parts[0] + "".join(p.capitalize() for p in parts[1:])
    return (n + "Priv" if priv else n) + "M"


def strip_doc(body: list[ast.stmt]) -> list[ast.stmt]:
    if body and isinstance(body[0], ast.Expr) and isinstance(body[0].value, ast.Constant) and isinstance(body[0].value.value, str):
        return body[1:]
    return body


class Ctx:
    def __init__(self, tr: "Translator", fn: ast.FunctionDef, params: list[str]) -> None:
        self.tr = tr
        self.fn = fn
        self.kind: dict[str, str] = {p: PARAM_KIND[p] for p in params}
        if fn.name == "get_n_trials":
            self.kind["state"] = "argStates"
        self.assumed: list[str] = []

    # ---- names ----
    def k(self, n: ast.AST, kind: str) -> bool:
        return isinstance(n, ast.Name) and self.kind.get(n.id) == kind

    def name_of(self, kind: str) -> str | None:
        for n, k in self.kind.items():
            if k == kind:
                return n
        return None

    def bind(self, node: ast.AST, name: str, kind: str) -> None:
        if kind in SINGLE:
            other = self.name_of(kind)
            if other is not None and other != name:
                raise U(node, "a second local of kind %s (`%s` besides `%s`): one slot per kind and frame" % (kind, name, other))
        old = self.kind.get(name)
        if old is not None and old != kind:
            raise U(node, "local `%s` changes its kind from %s to %s" % (name, old, kind))
        self.kind[name] = kind

    # ---- shapes ----
    def self_attr(self, n: ast.AST, attr: str) -> bool:
        return isinstance(n, ast.Attribute) and isinstance(n.value, ast.Name) and n.value.id == "self" and n.attr == attr

    def sub(self, n: ast.AST, attr: str, kind: str) -> bool:
        return isinstance(n, ast.Subscript) and self.self_attr(n.value, attr) and self.k(n.slice, kind)

    def study_field(self, n: ast.AST, field: str) -> bool:
        """`self._studies[<sid>].<field>`"""
        return isinstance(n, ast.Attribute) and n.attr == field and self.sub(n.value, "_studies", "sid")

    def local_field(self, n: ast.AST, kind: str, field: str) -> bool:
        return isinstance(n, ast.Attribute) and n.attr == field and self.k(n.value, kind)

    def is_copy(self, n: ast.AST) -> ast.AST | None:
        """`copy.copy(x)` / `copy.deepcopy(x)` -> x"""
        if isinstance(n, ast.Call) and len(n.args) == 1 and not n.keywords and (is_src(n.func, "copy.copy") or is_src(n.func, "copy.deepcopy")):
            return n.args[0]
        return None

    def tstate(self, n: ast.AST) -> str | None:
        if isinstance(n, ast.Attribute) and isinstance(n.value, ast.Name) and n.value.id == "TrialState" and n.attr in TSTATE:
            return TSTATE[n.attr]
        return None

    def num(self, n: ast.AST) -> Any:
        """integer expressions (NumE)"""
        if isinstance(n, ast.Constant) and type(n.value) is int and n.value >= 0:
            return ("lit", n.value)
        if self.k(n, "sid"):
            return "sidV"
        if self.k(n, "tid"):
            return "tidV"
        if self.k(n, "num"):
            return "numV"
        if self.local_field(n, "trial", "number"):
            return "trialNumber"
        if self.local_field(n, "trial", "_trial_id"):
            return "trialId"
        if isinstance(n, ast.Call) and isinstance(n.func, ast.Name) and n.func.id == "len" and len(n.args) == 1 and not n.keywords:
            if self.study_field(n.args[0], "trials"):
                return "lenStudyTrials"
            if self.k(n.args[0], "trials"):
                return "lenTrials"
        if isinstance(n, ast.BinOp) and isinstance(n.op, ast.Add) and isinstance(n.right, ast.Constant) and n.right.value == 1:
            return ("succ", self.num(n.left))
        raise U(n, "integer expression is not whitelisted")

    # ---- conditions ----
    def cond(self, n: ast.AST) -> Any:
        if isinstance(n, ast.Constant) and n.value is True:
            return "tt"
        if isinstance(n, ast.Constant) and n.value is False:
            return "ff"
        if isinstance(n, ast.UnaryOp) and isinstance(n.op, ast.Not):
            c0 = self.cond(n.operand)
            return c0[1] if isinstance(c0, tuple) and c0[0] == "not" else ("not", c0)
        if isinstance(n, ast.BoolOp):
            op = "and" if isinstance(n.op, ast.And) else "or"
            out = self.cond(n.values[-1])
            for v in reversed(n.values[:-1]):
                out = (op, self.cond(v), out)
            return out
        if self.k(n, "trials"):
            return ("not", "trialsEmpty")
        if isinstance(n, ast.Call) and isinstance(n.func, ast.Attribute) and n.func.attr == "is_finished" and not n.args and not n.keywords:
            if self.k(n.func.value, "argState"):
                return "argStateFinished"
            if self.k(n.func.value, "passedState"):
                return "passedStateFinished"
            if self.local_field(n.func.value, "trial", "state"):
                return ("or", ("trialStateIs", "complete"), ("or", ("trialStateIs", "pruned"), ("trialStateIs", "fail")))
        if isinstance(n, ast.Compare) and len(n.ops) == 1:
            a, op, b = n.left, n.ops[0], n.comparators[0]
            neg = isinstance(op, (ast.NotIn, ast.IsNot, ast.NotEq))
            c: Any = None
            if isinstance(op, (ast.In, ast.NotIn)):
                if self.k(a, "name") and self.self_attr(b, "_study_name_to_id"):
                    c = "nameKnown"
                elif self.k(a, "sid") and self.self_attr(b, "_studies"):
                    c = "studyKnown"
                elif self.k(a, "tid") and self.self_attr(b, "_trial_id_to_study_id_and_number"):
                    c = "trialKnown"
                elif self.k(a, "argParamName") and self.study_field(b, "param_distribution"):
                    c = "paramKnown"
            elif isinstance(op, (ast.Is, ast.IsNot)) and isinstance(b, ast.Constant) and b.value is None:
                if self.k(a, "name"):
                    c = ("not", "nameGiven")
                elif self.k(a, "argTmpl"):
                    c = "templateNone"
                elif self.k(a, "study"):
                    c = "studyIsNone"
                elif self.k(a, "best"):
                    c = "bestIsNone"
                elif self.k(a, "argValues"):
                    c = ("not", "valuesGiven")
                elif self.k(a, "argStates"):
                    c = ("not", "statesGiven")
                elif self.local_field(a, "bestTrial", "value"):
                    c = "bestValueNone"
                elif self.local_field(a, "trial", "value"):
                    c = "trialValueNone"
            elif isinstance(op, (ast.Eq, ast.NotEq)):
                for x, y in ((a, b), (b, a)):
                    if self.k(x, "argState") and self.tstate(y):
                        c = ("argStateIs", self.tstate(y))
                    elif self.local_field(x, "trial", "state") and self.tstate(y):
                        c = ("trialStateIs", self.tstate(y))
                    elif self.k(x, "argStates") and is_src(y, "(TrialState.WAITING,)"):
                        c = "statesIsWaitingTuple"
                    elif self.k(x, "dir") and is_src(y, "StudyDirection.MAXIMIZE"):
                        c = "dirIsMaximize"
                    if c is not None:
                        break
            elif isinstance(op, (ast.Lt, ast.Gt, ast.LtE, ast.GtE)):
                nm = {ast.Lt: "lt", ast.Gt: "gt", ast.LtE: "le", ast.GtE: "ge"}[type(op)]
                flip = {"lt": "gt", "gt": "lt", "le": "ge", "ge": "le"}
                if self.k(a, "bestValue") and self.k(b, "newValue"):
                    return ("cmpBestNew", nm)
                if self.k(a, "newValue") and self.k(b, "bestValue"):
                    return ("cmpBestNew", flip[nm])
                # len(..) > 1, len(trials) <= trial_number
                if isinstance(op, ast.Gt) and isinstance(b, ast.Constant) and b.value == 1 and isinstance(a, ast.Call) and is_src(a.func, "len") and len(a.args) == 1:
                    if self.study_field(a.args[0], "directions"):
                        return "studyMultiObjective"
                    if self.k(a.args[0], "dirs"):
                        return "dirsMany"
                if isinstance(op, ast.LtE) and self.k(b, "argNumber") and isinstance(a, ast.Call) and is_src(a.func, "len") and len(a.args) == 1 and self.k(a.args[0], "trials"):
                    return "numberBeyond"
                if isinstance(op, ast.GtE) and self.k(a, "argNumber") and isinstance(b, ast.Call) and is_src(b.func, "len") and len(b.args) == 1 and self.k(b.args[0], "trials"):
                    return "numberBeyond"
            if c is not None:
                if neg:
                    return c[1] if isinstance(c, tuple) and c[0] == "not" else ("not", c)
                return c
        raise U(n, "condition is not whitelisted")

    # ---- calls of other methods ----
    def call(self, n: ast.AST) -> tuple[str, list[tuple[str, str]]] | None:
        """`self.<m>(args)` for a translated method -> (lean name of the callee, [(callee slot, caller Arg)])"""
        if not (isinstance(n, ast.Call) and isinstance(n.func, ast.Attribute) and isinstance(n.func.value, ast.Name) and n.func.value.id == "self"):
            return None
        m = n.func.attr
        params = {**HELPERS, **METHODS, **BASE_METHODS}.get(m)
        if params is None:
            return None
        if m == "get_all_trials":
            kws = {k.arg: k.value for k in n.keywords}
            ok = (len(n.args) == 1 and self.k(n.args[0], "sid") and set(kws) == {"deepcopy", "states"} and isinstance(kws["deepcopy"], ast.Constant)
                  and self.k(kws["states"], "argStates"))
            if not ok:
                raise U(n, "get_all_trials may only be called as self.get_all_trials(<study_id>, deepcopy=<const>, states=<the states argument>)")
            return self.tr.need(m, n), [("sid", "sidV")]
        if n.keywords or len(n.args) != len(params):
            raise U(n, "call of %s with other than its %d positional arguments" % (m, len(params)))
        binds = []
        for p, a in zip(params, n.args):
            slot = CALLEE_SLOT.get(p)
            if slot is None:
                raise U(n, "parameter %s of %s cannot be passed between frames" % (p, m))
            if slot == "sid" and self.k(a, "sid"):
                binds.append(("sid", "sidV"))
            elif slot == "tid" and self.k(a, "tid"):
                binds.append(("tid", "tidV"))
            elif slot == "tid" and self.k(a, "best"):
                binds.append(("tid", "bestId"))
            elif slot == "trial" and self.k(a, "trial"):
                binds.append(("trial", "trial"))
            elif slot == "passedState" and self.local_field(a, "trial", "state"):
                binds.append(("passedState", "trialState"))
            else:
                raise U(n, "argument `%s` for parameter %s of %s is not whitelisted" % (ast.unparse(a), p, m))
        return self.tr.need(m, n), binds

    # ---- statements ----
    def is_identity(self, st: ast.stmt) -> bool:
        """copies (identity on values), logging, the state normalisation of get_n_trials"""
        if isinstance(st, (ast.Assign, ast.AnnAssign)) and (isinstance(st, ast.AnnAssign) or len(st.targets) == 1):
            tgt = st.target if isinstance(st, ast.AnnAssign) else st.targets[0]
            v = st.value
            inner = self.is_copy(v) if v is not None else None
            if inner is not None and ast.unparse(inner) == ast.unparse(tgt):
                # x = copy.copy(x) / trial.params = copy.copy(trial.params)
                if isinstance(tgt, ast.Name) and self.kind.get(tgt.id) in ("trial", "trials"):
                    return True
                if isinstance(tgt, ast.Attribute) and self.k(tgt.value, "trial") and tgt.attr in (
                        "params", "distributions", "user_attrs", "system_attrs", "intermediate_values"):
                    return True
        if isinstance(st, ast.Expr) and isinstance(st.value, ast.Call) and isinstance(st.value.func, ast.Attribute) \
                and isinstance(st.value.func.value, ast.Name) and st.value.func.value.id == "_logger":
            return all(self.pure(a) for a in st.value.args)
        if self.fn.name == "get_n_trials" and is_src(st, "if isinstance(state, TrialState):\n    state = (state,)"):
            self.assumed.append("get_n_trials: `state` arrives as a tuple or None (the normalisation of a bare TrialState is not modelled)")
            return True
        if isinstance(st, ast.If) and isinstance(st.test, ast.Name) and self.kind.get(st.test.id) == "argDeepcopy" \
                and all(self.is_identity(x) for x in st.body + st.orelse):
            return True
        return False

    def pure(self, n: ast.AST) -> bool:
        for x in ast.walk(n):
            if isinstance(x, ast.Call) and not (isinstance(x.func, ast.Attribute) and x.func.attr == "format"):
                return False
        return True

    def block(self, body: list[ast.stmt]) -> list[Any]:
        body = strip_doc(body)
        out: list[Any] = []
        i = 0

        def next_real(j: int) -> int | None:
            while j < len(body) and self.is_identity(body[j]):
                j += 1
            return j if j < len(body) else None

        while i < len(body):
            st = body[i]
            if self.is_identity(st):
                i += 1
                continue
            j = next_real(i + 1)
            nxt = body[j] if j is not None else None
            # study_uuid = str(uuid.uuid4()); study_name = DEFAULT_STUDY_NAME_PREFIX + study_uuid
            if nxt is not None and is_src(st, "study_uuid = str(uuid.uuid4())") and isinstance(nxt, ast.Assign) and len(nxt.targets) == 1 \
                    and self.k(nxt.targets[0], "name") and is_src(nxt.value, "DEFAULT_STUDY_NAME_PREFIX + study_uuid"):
                out.append(("act", "uuidName"))
                i = j + 1
                continue
            # the parameter pair
            if nxt is not None and self.param_pair(st, nxt):
                out.append(("act", "trialSetParam"))
                i = j + 1
                continue
            # distribution = trial.distributions[param_name]; return distribution.to_internal_repr(trial.params[param_name])
            t = self.name_of("trial")
            if nxt is not None and t and self.name_of("argParamName") == "param_name" and isinstance(st, ast.Assign) and len(st.targets) == 1 \
                    and isinstance(st.targets[0], ast.Name) and is_src(st.value, "%s.distributions[param_name]" % t) \
                    and is_src(nxt, "return %s.to_internal_repr(%s.params[param_name])" % (st.targets[0].id, t)):
                out.append(("ret", "trialParamInternal"))
                i = j + 1
                continue
            out += self.stmt(st)
            i += 1
        return out

    def param_pair(self, a: ast.stmt, b: ast.stmt) -> bool:
        t = self.name_of("trial")
        if not t or self.name_of("argParamName") != "param_name" or self.name_of("argDist") != "distribution" \
                or self.name_of("argParamValue") != "param_value_internal":
            return False
        p = "%s.params[param_name] = distribution.to_external_repr(param_value_internal)" % t
        d = "%s.distributions[param_name] = distribution" % t
        return (is_src(a, p) and is_src(b, d)) or (is_src(a, d) and is_src(b, p))

    def stmt(self, st: ast.stmt) -> list[Any]:
        if isinstance(st, ast.Pass):
            return []
        if isinstance(st, ast.With):
            if len(st.items) == 1 and st.items[0].optional_vars is None and self.self_attr(st.items[0].context_expr, "_lock"):
                return self.block(st.body)
            raise U(st, "only `with self._lock:`")
        if isinstance(st, ast.Return):
            return self.ret(st)
        if isinstance(st, ast.Raise):
            e = st.exc
            if st.cause is None and isinstance(e, ast.Name) and e.id in ERR:
                return [("raise", ERR[e.id])]
            if st.cause is None and isinstance(e, ast.Call) and isinstance(e.func, ast.Name) and e.func.id in ERR and not e.keywords \
                    and all(self.pure(a) for a in e.args):
                return [("raise", ERR[e.func.id])]
            raise U(st, "only `raise <KeyError|DuplicatedStudyError|UpdateFinishedTrialError|ValueError|RuntimeError>[(message)]`")
        if isinstance(st, ast.Assert):
            t = self.name_of("trial")
            bt = self.name_of("bestTrial")
            if t and is_src(st.test, "%s.value is not None" % t):
                return [("ite", "trialValueNone", [("raise", "runtimeError")], [])]   # AssertionError, coarse class
            if (t and self.name_of("argNumber") and is_src(st.test, "%s.number == %s" % (t, self.name_of("argNumber")))) or \
                    (bt and is_src(st.test, "%s is not None" % bt)):
                self.assumed.append("%s: assert %s" % (self.fn.name, ast.unparse(st.test)))
                return []
            raise U(st, "assertion is not whitelisted")
        if isinstance(st, ast.If):
            return [("ite", self.cond(st.test), self.block(st.body), self.block(st.orelse))]
        if isinstance(st, ast.For):
            return [self.for_loop(st)]
        if isinstance(st, ast.AugAssign):
            if isinstance(st.op, ast.Add) and isinstance(st.value, ast.Constant) and st.value.value == 1:
                if self.self_attr(st.target, "_max_study_id"):
                    return [("act", "bumpMaxStudyId")]
                if self.self_attr(st.target, "_max_trial_id"):
                    return [("act", "bumpMaxTrialId")]
            raise U(st, "augmented assignment is not whitelisted")
        if isinstance(st, ast.Delete) and len(st.targets) == 1:
            t = st.targets[0]
            if isinstance(t, ast.Subscript) and self.self_attr(t.value, "_trial_id_to_study_id_and_number"):
                return [("act", ("tidMapDel", self.num(t.slice)))]
            if isinstance(t, ast.Subscript) and self.self_attr(t.value, "_study_name_to_id") and self.k(t.slice, "name"):
                return [("act", "nameToIdDel")]
            if self.sub(t, "_studies", "sid"):
                return [("act", "studiesDel")]
            if self.sub(t, "_prev_waiting_trial_number", "sid"):
                return [("act", "prevWaitingDel")]
            raise U(st, "del is not whitelisted")
        if isinstance(st, ast.Expr):
            v = st.value
            c = self.call(v)
            if c is not None:
                return [("call", c[0], c[1], "drop")]
            if isinstance(v, ast.Call) and isinstance(v.func, ast.Attribute) and v.func.attr == "append" and len(v.args) == 1 and not v.keywords:
                if self.study_field(v.func.value, "trials") and self.k(v.args[0], "trial"):
                    return [("act", "studyTrialsAppend")]
                if self.k(v.func.value, "trials") and self.k(v.args[0], "trial"):
                    return [("act", "trialsAppend")]
            s = self.name_of("sid")
            if s and self.name_of("argParamName") == "param_name" and self.name_of("argDist") == "distribution" and is_src(
                    v, "distributions.check_distribution_compatibility(self._studies[%s].param_distribution[param_name], distribution)" % s):
                return [("act", "checkCompat")]
            raise U(st, "expression statement is not whitelisted")
        if isinstance(st, ast.Assign) and len(st.targets) == 1:
            return self.assign(st, st.targets[0], st.value)
        if isinstance(st, ast.AnnAssign) and st.value is not None and st.simple:
            return self.assign(st, st.target, st.value)
        raise U(st, "statement shape is not whitelisted")

    def ret(self, st: ast.Return) -> list[Any]:
        v = st.value
        if v is None or (isinstance(v, ast.Constant) and v.value is None):
            return [("ret", "none")]
        if isinstance(v, ast.Constant) and isinstance(v.value, bool):
            return [("ret", ("bool", v.value))]
        if self.k(v, "sid"):
            return [("ret", "sidV")]
        if self.k(v, "tid"):
            return [("ret", "tidV")]
        if self.k(v, "trial"):
            return [("ret", "trial")]
        if self.k(v, "trials"):
            return [("ret", "trials")]
        if self.local_field(v, "trial", "_trial_id"):
            return [("ret", "trialIdOfTrial")]
        if isinstance(v, ast.Subscript) and self.self_attr(v.value, "_study_name_to_id") and self.k(v.slice, "name"):
            return [("ret", "nameToId")]
        for f, r in (("name", "studyName"), ("directions", "studyDirs"), ("user_attrs", "studyUserAttrs"), ("system_attrs", "studySystemAttrs")):
            if self.study_field(v, f):
                return [("ret", r)]
        if is_src(v, "[self._build_frozen_study(study_id) for study_id in self._studies]"):
            self.tr.check_literal("_build_frozen_study", ["study_id"], BUILD_FROZEN_STUDY, v)
            return [("ret", "allStudies")]
        if isinstance(v, ast.Subscript) and self.study_field(v.value, "trials") and self.k(v.slice, "num"):
            return [("ret", "studyTrialAt")]
        if isinstance(v, ast.Subscript) and isinstance(v.slice, ast.Constant) and v.slice.value == 1 and self.sub(v.value, "_trial_id_to_study_id_and_number", "tid"):
            return [("ret", "tidMapNumber")]
        c = self.call(v)
        if c is not None:
            return [("call", c[0], c[1], "val"), ("ret", "val")]
        if isinstance(v, ast.Call) and is_src(v.func, "len") and len(v.args) == 1 and not v.keywords:
            c = self.call(v.args[0])
            if c is not None:
                return [("call", c[0], c[1], "val"), ("ret", "lenVal")]
        raise U(st, "returned expression is not whitelisted")

    def assign(self, st: ast.stmt, tgt: ast.AST, v: ast.AST) -> list[Any]:
        # ---- tuple unpacking
        if isinstance(tgt, ast.Tuple) and len(tgt.elts) == 2 and all(isinstance(e, ast.Name) for e in tgt.elts) \
                and self.sub(v, "_trial_id_to_study_id_and_number", "tid"):
            self.bind(st, tgt.elts[0].id, "sid")
            self.bind(st, tgt.elts[1].id, "num")
            return [("act", "sidNumOfTrialId")]
        # ---- locals
        if isinstance(tgt, ast.Name):
            name = tgt.id
            inner = self.is_copy(v)
            vv = inner if inner is not None else v
            if is_src(v, "self._max_study_id + 1"):
                self.bind(st, name, "sid")
                return [("act", "sidFromMax")]
            if is_src(v, "self._max_trial_id + 1"):
                self.bind(st, name, "tid")
                return [("act", "tidFromMax")]
            if isinstance(v, ast.Subscript) and isinstance(v.slice, ast.Constant) and v.slice.value == 0 and self.sub(v.value, "_trial_id_to_study_id_and_number", "tid"):
                self.bind(st, name, "sid")
                return [("act", "sidOfTrialId")]
            if self.study_field(v, "name"):
                self.bind(st, name, "name")
                return [("act", "nameOfStudy")]
            if self.sub(v, "_studies", "sid"):
                self.bind(st, name, "study")
                return [("act", "bindStudy")]
            if isinstance(v, ast.Call) and isinstance(v.func, ast.Attribute) and v.func.attr == "get" and self.self_attr(v.func.value, "_studies") \
                    and len(v.args) == 1 and not v.keywords and self.k(v.args[0], "sid"):
                self.bind(st, name, "study")
                return [("act", "bindStudyGet")]
            if is_src(v, "self._create_running_trial()"):
                self.tr.check_literal("_create_running_trial", [], [CREATE_RUNNING_TRIAL], v, static=True)
                self.bind(st, name, "trial")
                return [("act", "newRunningTrial")]
            if inner is not None and self.k(inner, "argTmpl"):
                self.bind(st, name, "trial")
                return [("act", "trialFromTemplate")]
            if self.local_field(vv, "study", "trials"):
                self.bind(st, name, "trials")
                return [("act", "bindTrialsOfStudyRef")]
            if self.study_field(vv, "trials"):
                self.bind(st, name, "trials")
                return [("act", "bindTrialsOfStudy")]
            if isinstance(v, ast.List) and not v.elts:
                self.bind(st, name, "trials")
                return [("act", "trialsNew")]
            if isinstance(v, ast.ListComp) and self.kind.get(name) == "trials" and self.name_of("argStates") == "states" and (
                    is_src(v, "[t for t in %s if t.state in states]" % name)):
                return [("act", "trialsFilterStates")]
            if isinstance(v, ast.Subscript) and self.k(v.value, "trials") and self.k(v.slice, "argNumber"):
                self.bind(st, name, "trial")
                return [("act", "trialOfTrials")]
            if self.study_field(v, "best_trial_id"):
                self.bind(st, name, "best")
                return [("act", "bindBest")]
            if isinstance(v, ast.Subscript) and self.k(v.value, "dirs") and isinstance(v.slice, ast.Constant) and v.slice.value == 0:
                self.bind(st, name, "dir")
                return [("act", "bindDirection")]
            if self.local_field(v, "bestTrial", "value"):
                self.bind(st, name, "bestValue")
                return [("act", "bindBestValue")]
            if self.local_field(v, "trial", "value"):
                self.bind(st, name, "newValue")
                return [("act", "bindNewValue")]
            c = self.call(vv)
            if c is not None:
                callee = vv.func.attr  # type: ignore[union-attr]
                if callee in ("_get_trial", "get_trial"):
                    if c[1] == [("tid", "bestId")]:
                        self.bind(st, name, "bestTrial")
                        return [("call", c[0], c[1], "bestTrial")]
                    self.bind(st, name, "trial")
                    return [("call", c[0], c[1], "trial")]
                if callee == "get_study_directions":
                    self.bind(st, name, "dirs")
                    return [("call", c[0], c[1], "dirs")]
                raise U(st, "result of %s cannot be kept in a local" % callee)
            raise U(st, "assignment to a local is not one of the whitelisted bindings")
        # ---- self.<dict>[k] = ...
        if isinstance(tgt, ast.Subscript):
            if self.sub(tgt, "_studies", "sid"):
                if isinstance(v, ast.Call) and isinstance(v.func, ast.Name) and v.func.id == "_StudyInfo" and not v.keywords and len(v.args) == 2 \
                        and self.k(v.args[0], "name") and (self.k(v.args[1], "argDirs") or (is_src(v.args[1].func if isinstance(v.args[1], ast.Call) else v.args[1], "list")
                                                                                              and isinstance(v.args[1], ast.Call) and len(v.args[1].args) == 1 and self.k(v.args[1].args[0], "argDirs"))):
                    return [("act", "storeNewStudy")]
                raise U(st, "a study record must be stored as _StudyInfo(<study_name>, list(<directions>))")
            if isinstance(tgt.value, ast.Attribute) and self.self_attr(tgt.value, "_study_name_to_id") and self.k(tgt.slice, "name") and self.k(v, "sid"):
                return [("act", "nameToIdSet")]
            if self.sub(tgt, "_prev_waiting_trial_number", "sid"):
                if isinstance(v, ast.Call) and isinstance(v.func, ast.Name) and v.func.id == "min" and len(v.args) == 2 and not v.keywords \
                        and ast.unparse(v.args[0]) == ast.unparse(tgt):
                    return [("act", ("prevWaitingMin", self.num(v.args[1])))]
                return [("act", ("prevWaitingSet", self.num(v)))]
            if self.sub(tgt, "_trial_id_to_study_id_and_number", "tid") and isinstance(v, ast.Tuple) and len(v.elts) == 2 and self.k(v.elts[0], "sid"):
                return [("act", ("tidMapSet", self.num(v.elts[1])))]
            if self.study_field(tgt.value, "trials") and self.k(tgt.slice, "num") and self.k(v, "trial"):
                return [("act", "studyTrialSet")]
            if self.study_field(tgt.value, "param_distribution") and self.k(tgt.slice, "argParamName") and self.k(v, "argDist"):
                return [("act", "paramDistSet")]
            if isinstance(tgt.value, ast.Attribute) and self.k(tgt.value.value, "trial"):
                f = tgt.value.attr
                if f == "intermediate_values" and self.k(tgt.slice, "argStep") and self.k(v, "argInterValue"):
                    return [("act", "trialSetInter")]
                if f in ("user_attrs", "system_attrs") and self.k(tgt.slice, "argKey") and self.k(v, "argValue"):
                    return [("act", ("trialSetAttr", f == "user_attrs"))]
            raise U(st, "subscript assignment is not whitelisted")
        # ---- <obj>.<field> = ...
        if isinstance(tgt, ast.Attribute):
            if self.study_field(tgt, "best_trial_id") and self.k(v, "tid"):
                return [("act", "setBest")]
            if isinstance(tgt.value, ast.Name):
                obj, f = tgt.value.id, tgt.attr
                kd = self.kind.get(obj)
                if kd == "study" and f in ("user_attrs", "system_attrs") and self.name_of("argKey") == "key" and self.name_of("argValue") == "value" \
                        and is_src(v, "{**%s.%s, key: value}" % (obj, f)):
                    return [("act", ("studySetAttr", f == "user_attrs"))]
                if kd == "trial":
                    if f == "number":
                        return [("act", ("trialSetNumber", self.num(v)))]
                    if f == "_trial_id":
                        return [("act", ("trialSetId", self.num(v)))]
                    if f == "state" and self.k(v, "argState"):
                        return [("act", "trialSetState")]
                    if f == "values" and self.k(v, "argValues"):
                        return [("act", "trialSetValues")]
                    if f == "datetime_start" and is_src(v, "datetime.now()"):
                        return [("act", "trialSetStart")]
                    if f == "datetime_complete" and is_src(v, "datetime.now()"):
                        return [("act", "trialSetComplete")]
            raise U(st, "field update is not whitelisted")
        raise U(st, "assignment target is not whitelisted")

    def for_loop(self, st: ast.For) -> Any:
        if st.orelse or not isinstance(st.target, ast.Name):
            raise U(st, "for loop shape")
        it = st.iter
        from_cursor = None
        if self.study_field(it, "trials"):
            from_cursor = False
        elif isinstance(it, ast.Subscript) and self.study_field(it.value, "trials") and isinstance(it.slice, ast.Slice) and it.slice.upper is None \
                and it.slice.step is None and it.slice.lower is not None and self.sub(it.slice.lower, "_prev_waiting_trial_number", "sid"):
            from_cursor = True
        if from_cursor is None:
            raise U(st, "only `for <trial> in self._studies[<sid>].trials[<cursor>:]` loops")
        for x in ast.walk(st):
            if isinstance(x, (ast.Break, ast.Continue)):
                raise U(x, "break / continue inside a loop")
        self.bind(st, st.target.id, "trial")
        return ("for", from_cursor, self.block(st.body))


# ---- rendering --------------------------------------------------------------------------------------------------
def r_num(e: Any) -> str:
    if isinstance(e, str):
        return "." + e
    if e[0] == "lit":
        return "(.lit %d)" % e[1]
    return "(.succ %s)" % r_num(e[1])


def r_cond(c: Any) -> str:
    if isinstance(c, str):
        return "." + c
    if c[0] in ("argStateIs", "trialStateIs", "cmpBestNew"):
        return "(.%s .%s)" % (c[0], c[1])
    if c[0] == "not":
        return "(.not %s)" % r_cond(c[1])
    return "(.%s %s %s)" % (c[0], r_cond(c[1]), r_cond(c[2]))


def r_bool(b: bool) -> str:
    return "true" if b else "false"


def r_act(a: Any) -> str:
    if isinstance(a, str):
        return "." + a
    if a[0] in ("studySetAttr", "trialSetAttr"):
        return "(.%s %s)" % (a[0], r_bool(a[1]))
    return "(.%s %s)" % (a[0], r_num(a[1]))


def r_ret(r: Any) -> str:
    if isinstance(r, str):
        return "." + r
    return "(.bool %s)" % r_bool(r[1])


def r_block(b: list[Any], ind: int) -> str:
    if not b:
        return ".skip"
    if len(b) == 1:
        return r_stmt(b[0], ind)
    pad = " " * (ind + 2)
    return "(block [\n" + ",\n".join(pad + r_stmt(s, ind + 2) for s in b) + "])"


def r_stmt(s: Any, ind: int) -> str:
    k = s[0]
    if k == "raise":
        return "(.raise .%s)" % s[1]
    if k == "ret":
        return "(.ret %s)" % r_ret(s[1])
    if k == "act":
        return "(.act %s)" % r_act(s[1])
    if k == "ite":
        return "(.ite %s %s %s)" % (r_cond(s[1]), r_block(s[2], ind + 2), r_block(s[3], ind + 2))
    if k == "call":
        return "(.call %s [%s] .%s)" % (s[1], ", ".join("(.%s, .%s)" % b for b in s[2]), s[3])
    if k == "for":
        return "(.forStudyTrials %s %s)" % (r_bool(s[1]), r_block(s[2], ind + 2))
    raise AssertionError(s)


# ---- the class -----------------------------------------------------------------------------------------------------
class Translator:
    def __init__(self, repo: str) -> None:
        self.repo = repo
        self.problems: list[dict[str, str]] = []
        self.defs: list[tuple[str, str, str, str]] = []   # lean name, python name, text, comment
        self.done: dict[str, str] = {}
        self.in_progress: set[str] = set()
        self.ir: dict[str, Any] = {}
        self.assumed: list[str] = []
        tree = ast.parse(open(os.path.join(repo, REL)).read())
        self.cdef = next((n for n in tree.body if isinstance(n, ast.ClassDef) and n.name == CLASS), None)
        if self.cdef is None:
            raise Untranslatable(CLASS, "class not found in %s" % REL)
        self.ms = {n.name: n for n in self.cdef.body if isinstance(n, ast.FunctionDef)}
        self.sinfo = next((n for n in tree.body if isinstance(n, ast.ClassDef) and n.name == "_StudyInfo"), None)
        btree = ast.parse(open(os.path.join(repo, BASE_REL)).read())
        bdef = next((n for n in btree.body if isinstance(n, ast.ClassDef) and n.name == "BaseStorage"), None)
        self.base = {n.name: n for n in (bdef.body if bdef else []) if isinstance(n, ast.FunctionDef)}

    def find(self, m: str) -> tuple[ast.FunctionDef | None, list[str], str]:
        if m in self.ms:
            params = METHODS.get(m) or HELPERS.get(m) or BASE_METHODS.get(m)
            return self.ms[m], params or [], CLASS
        if m in BASE_METHODS and m in self.base:
            return self.base[m], BASE_METHODS[m], "BaseStorage"
        return None, [], CLASS

    def need(self, m: str, at: ast.AST | None = None) -> str:
        """translate method `m` (once) and return the name of its Lean def"""
        lean = lean_name(m)
        if m in self.done:
            return lean
        if m in self.in_progress:
            raise U(at or self.cdef, "recursive call of %s" % m)
        self.in_progress.add(m)
        fn, params, owner = self.find(m)
        try:
            if fn is None:
                raise Untranslatable(m, "method not found")
            deco = [ast.unparse(d) for d in fn.decorator_list]
            if deco:
                raise U(fn, "decorated")
            a = fn.args
            names = [x.arg for x in a.args]
            if a.vararg or a.kwarg or a.kwonlyargs or a.posonlyargs or names != ["self"] + params:
                raise U(fn, "parameters %s, expected %s" % (names[1:], params))
            ctx = Ctx(self, fn, params)
            ir = ctx.block(fn.body)
            self.assumed += ctx.assumed
            self.ir[m] = ir
            self.defs.append((lean, "%s.%s" % (owner, m), r_block(ir, 2), "lines %d-%d" % (fn.lineno, fn.end_lineno or fn.lineno)))
        except Untranslatable as e:
            self.problems.append({"what": m, "why": str(e)})
            self.ir[m] = None
            self.defs.append((lean, "%s.%s" % (owner, m), "(.ret .lenVal)", "UNTRANSLATABLE: %s" % str(e).replace("-/", "- /")))
        self.in_progress.discard(m)
        self.done[m] = lean
        return lean

    def check_literal(self, m: str, params: list[str], texts: list[str], at: ast.AST, static: bool = False) -> None:
        fn = self.ms.get(m)
        if fn is None:
            raise U(at, "%s not found" % m)
        body = strip_doc(fn.body)
        names = [x.arg for x in fn.args.args]
        deco = [ast.unparse(d) for d in fn.decorator_list]
        ok = (names == ([] if static else ["self"]) + params and deco == (["staticmethod"] if static else []) and len(body) == len(texts)
              and all(is_src(b, t) for b, t in zip(body, texts)))
        if not ok:
            raise U(fn, "%s is not literally the shape the primitive stands for" % m)

    def init_table(self, fn: ast.FunctionDef | None, what: str) -> list[tuple[str, str]]:
        rows: list[tuple[str, str]] = []
        try:
            if fn is None:
                raise Untranslatable(what, "not found")
            for st in strip_doc(fn.body):
                tgt = st.target if isinstance(st, ast.AnnAssign) else st.targets[0] if isinstance(st, ast.Assign) and len(st.targets) == 1 else None
                v = st.value if isinstance(st, (ast.Assign, ast.AnnAssign)) else None
                if not (isinstance(tgt, ast.Attribute) and isinstance(tgt.value, ast.Name) and tgt.value.id == "self" and v is not None):
                    raise U(st, "%s: only `self.<attr> = <initial value>`" % what)
                if isinstance(v, ast.Name) or (isinstance(v, (ast.List, ast.Dict)) and not (getattr(v, "elts", None) or getattr(v, "keys", None))) \
                        or isinstance(v, ast.Constant) or is_src(v, "-1") or is_src(v, "threading.RLock()"):
                    rows.append((tgt.attr, ast.unparse(v)))
                else:
                    raise U(st, "%s: initial value is not whitelisted" % what)
        except Untranslatable as e:
            self.problems.append({"what": what, "why": str(e)})
        return rows


def translate(repo: str) -> tuple[str, dict[str, Any], list[dict[str, str]]]:
    tr = Translator(repo)
    for over in BASE_METHODS:
        if over in tr.ms:
            # an override is translated like any other method (find() prefers the class's own definition)
            pass
    for m in list(METHODS) + ["get_n_trials"]:
        tr.need(m)
    sinit = tr.init_table(None if tr.sinfo is None else next((n for n in tr.sinfo.body if isinstance(n, ast.FunctionDef) and n.name == "__init__"), None),
                          "_StudyInfo.__init__")
    if tr.sinfo is not None:
        init = next((n for n in tr.sinfo.body if isinstance(n, ast.FunctionDef) and n.name == "__init__"), None)
        if init is not None and [a.arg for a in init.args.args] != ["self", "name", "directions"]:
            tr.problems.append({"what": "_StudyInfo.__init__", "why": "parameters %s" % [a.arg for a in init.args.args]})
    oinit = tr.init_table(tr.ms.get("__init__"), "InMemoryStorage.__init__")
    public = list(METHODS) + ["get_n_trials"]
    info = {"methods": {m: tr.ir.get(m) for m in tr.done}, "assumed": sorted(set(tr.assumed)), "studyInfoInit": sinit, "storageInit": oinit,
            "public": public}
    L = ["import OptunaVerif.Model.InMemoryIR",
         "/-! GENERATED by verif/translators/tinmem.py from %s (and %s) on every check run - do not edit. -/" % (REL, BASE_REL),
         "namespace OptunaVerif.Generated.InMemoryMethods",
         "open OptunaVerif OptunaVerif.Storage OptunaVerif.InMemoryIR", ""]
    for lean, pyname, text, comment in tr.defs:
        L.append("/-- `%s` (%s) -/" % (pyname, comment))
        L.append("def %s : Stmt :=\n  %s\n" % (lean, text))
    L.append("def program : Program where")
    L.append("  methods := [%s]" % ",\n    ".join('("%s", %s)' % (m, lean_name(m)) for m in public))
    L.append("  studyInfoInit := [%s]" % ", ".join('("%s", "%s")' % r for r in sinit))
    L.append("  storageInit := [%s]" % ", ".join('("%s", "%s")' % r for r in oinit))
    L.append("")
    L.append("end OptunaVerif.Generated.InMemoryMethods")
    return "\n".join(L) + "\n", info, tr.problems


if __name__ == "__main__":
    import sys

    text, info, problems = translate(sys.argv[1] if len(sys.argv) > 1 else "/repo")
    print(text)
    for p in problems:
        print("-- PROBLEM", p, file=sys.stderr)
