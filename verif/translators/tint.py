"""T-int: restricted Python (pure integer / boolean functions) -> Lean 4 definitions over `Int` / `Bool`.

Whitelisted shapes only; anything else raises `Untranslatable` (the caller reports a broken tie).

  statements   x = e | if c: <stmts> [else: <stmts>] | return e | warnings.warn(...) (dropped: no effect on
               the result) | assert <e> (dropped) | docstring
  expressions  names, `self.<attr>` (becomes the parameter <attr>), int / bool constants,
               + - * // % (binary), unary -, not, and / or, comparisons (chained) < <= > >= == !=
  semantics    `//` -> Int.fdiv, `%` -> Int.fmod (Python floor division / sign-of-divisor modulo),
               `/` is NOT accepted (true division leaves the integers), comparisons are `decide`d to Bool.

Types: every name is `Int` unless listed in `bools`; the result type follows the `-> int|bool` annotation.
An `if` without `return` in its branches is translated as a tuple-valued `if` over the variables that
are (re)assigned in a branch and were already defined before it (a variable first defined inside a
branch is local to it, exactly the uses Python would allow without a NameError).
"""
from __future__ import annotations

import ast
import textwrap
from typing import Iterable


class Untranslatable(Exception):
    pass


BINOPS = {ast.Add: "+", ast.Sub: "-", ast.Mult: "*"}
CMPOPS = {ast.Lt: "<", ast.LtE: "≤", ast.Gt: ">", ast.GtE: "≥", ast.Eq: "=", ast.NotEq: "≠"}


class FnTranslator:
    def __init__(self, fn: ast.FunctionDef, lean_name: str, bools: Iterable[str] = (), drop_self: bool = True,
                 extra_params: Iterable[str] = ()) -> None:
        self.fn = fn
        self.lean_name = lean_name
        self.bools = set(bools)
        self.params: list[str] = []
        for a in fn.args.args:
            if a.arg == "self" and drop_self:
                continue
            self.params.append(a.arg)
        if fn.args.vararg or fn.args.kwarg or fn.args.kwonlyargs or fn.args.defaults:
            raise Untranslatable("%s: only plain positional parameters" % fn.name)
        # attributes of self become parameters, in order of first use (deterministic)
        self.attr_params: list[str] = list(extra_params)
        self.ret = self._ret_type()

    def _ret_type(self) -> str:
        r = self.fn.returns
        if isinstance(r, ast.Name) and r.id == "int":
            return "Int"
        if isinstance(r, ast.Name) and r.id == "bool":
            return "Bool"
        raise Untranslatable("%s: return annotation must be int or bool" % self.fn.name)

    # ---- expressions -------------------------------------------------------------------------
    def ty(self, e: ast.expr) -> str:
        if isinstance(e, ast.Constant):
            if isinstance(e.value, bool):
                return "Bool"
            if isinstance(e.value, int):
                return "Int"
            raise Untranslatable("constant %r" % (e.value,))
        if isinstance(e, ast.Name):
            return "Bool" if e.id in self.bools else "Int"
        if isinstance(e, ast.Attribute):
            return "Bool" if e.attr in self.bools else "Int"
        if isinstance(e, (ast.Compare, ast.BoolOp)):
            return "Bool"
        if isinstance(e, ast.UnaryOp):
            return "Bool" if isinstance(e.op, ast.Not) else "Int"
        if isinstance(e, ast.BinOp):
            return "Int"
        raise Untranslatable("expression %s" % ast.dump(e)[:80])

    def expr(self, e: ast.expr, want: str) -> str:
        got = self.ty(e)
        if got != want:
            raise Untranslatable("%s: expression `%s` has type %s where %s is needed" % (self.fn.name, ast.unparse(e), got, want))
        if isinstance(e, ast.Constant):
            if isinstance(e.value, bool):
                return "true" if e.value else "false"
            return "(%d : Int)" % e.value if e.value >= 0 else "(-%d : Int)" % -e.value
        if isinstance(e, ast.Name):
            return e.id
        if isinstance(e, ast.Attribute):
            if not (isinstance(e.value, ast.Name) and e.value.id == "self"):
                raise Untranslatable("attribute of something other than self: %s" % ast.unparse(e))
            if e.attr not in self.attr_params:
                self.attr_params.append(e.attr)
            return e.attr
        if isinstance(e, ast.UnaryOp):
            if isinstance(e.op, ast.Not):
                return "(!%s)" % self.expr(e.operand, "Bool")
            if isinstance(e.op, ast.USub):
                return "(-%s)" % self.expr(e.operand, "Int")
            raise Untranslatable("unary %s" % type(e.op).__name__)
        if isinstance(e, ast.BinOp):
            a, b = self.expr(e.left, "Int"), self.expr(e.right, "Int")
            if type(e.op) in BINOPS:
                return "(%s %s %s)" % (a, BINOPS[type(e.op)], b)
            if isinstance(e.op, ast.FloorDiv):
                return "(Int.fdiv %s %s)" % (a, b)
            if isinstance(e.op, ast.Mod):
                return "(Int.fmod %s %s)" % (a, b)
            raise Untranslatable("%s: operator %s in `%s` leaves the integers" % (self.fn.name, type(e.op).__name__, ast.unparse(e)))
        if isinstance(e, ast.BoolOp):
            op = "&&" if isinstance(e.op, ast.And) else "||"
            return "(" + (" %s " % op).join(self.expr(v, "Bool") for v in e.values) + ")"
        if isinstance(e, ast.Compare):
            parts = []
            left = e.left
            for op, right in zip(e.ops, e.comparators):
                if type(op) not in CMPOPS:
                    raise Untranslatable("comparison %s" % type(op).__name__)
                t = self.ty(left)
                if t != self.ty(right):
                    raise Untranslatable("comparison between %s and %s in `%s`" % (t, self.ty(right), ast.unparse(e)))
                if t == "Bool" and type(op) not in (ast.Eq, ast.NotEq):
                    raise Untranslatable("ordering of booleans")
                parts.append("decide (%s %s %s)" % (self.expr(left, t), CMPOPS[type(op)], self.expr(right, t)))
                left = right
            return "(" + " && ".join(parts) + ")"
        raise Untranslatable("expression %s" % ast.dump(e)[:80])

    # ---- statements --------------------------------------------------------------------------
    @staticmethod
    def _is_noise(s: ast.stmt) -> bool:
        if isinstance(s, ast.Expr):
            v = s.value
            if isinstance(v, ast.Constant) and isinstance(v.value, str):
                return True  # docstring
            if isinstance(v, ast.Call) and ast.unparse(v.func) in ("warnings.warn", "optuna_warn", "_logger.warning"):
                return True
        return isinstance(s, ast.Assert)

    @staticmethod
    def _returns(stmts: list[ast.stmt]) -> bool:
        return any(isinstance(n, ast.Return) for s in stmts for n in ast.walk(s))

    @staticmethod
    def _assigned(stmts: list[ast.stmt]) -> list[str]:
        out: list[str] = []
        for s in stmts:
            for n in ast.walk(s):
                if isinstance(n, ast.Assign):
                    for t in n.targets:
                        if isinstance(t, ast.Name) and t.id not in out:
                            out.append(t.id)
        return out

    def block(self, stmts: list[ast.stmt], defined: list[str], ind: str, tail: str | None) -> str:
        """Translate `stmts`; `tail` is the Lean term to produce if the block falls through
        (None = falling through is an error: the function must return)."""
        stmts = [s for s in stmts if not self._is_noise(s)]
        if not stmts:
            if tail is None:
                raise Untranslatable("%s: control reaches the end without return" % self.fn.name)
            return ind + tail
        s, rest = stmts[0], stmts[1:]
        if isinstance(s, ast.Return):
            if s.value is None:
                raise Untranslatable("bare return")
            return ind + self.expr(s.value, self.ret)
        if isinstance(s, ast.Assign):
            if len(s.targets) != 1 or not isinstance(s.targets[0], ast.Name):
                raise Untranslatable("assignment target `%s`" % ast.unparse(s.targets[0]))
            x = s.targets[0].id
            t = "Bool" if x in self.bools else "Int"
            line = "%slet %s : %s := %s" % (ind, x, t, self.expr(s.value, t))
            nd = defined if x in defined else defined + [x]
            return line + "\n" + self.block(rest, nd, ind, tail)
        if isinstance(s, ast.If):
            c = self.expr(s.test, "Bool")
            if self._returns(s.body) or self._returns(s.orelse):
                # branches that return: the rest of the block is the continuation of the branches that do not
                cont = None if not rest and tail is None else "__cont"
                if cont is None:
                    th = self.block(s.body, defined, ind + "  ", None)
                    el = self.block(s.orelse, defined, ind + "  ", None)
                    return "%sif %s then\n%s\n%selse\n%s" % (ind, c, th, ind, el)
                # inline the continuation into both branches (no sharing needed for these tiny functions)
                th = self.block(s.body + rest, defined, ind + "  ", tail)
                el = self.block(s.orelse + rest, defined, ind + "  ", tail)
                return "%sif %s then\n%s\n%selse\n%s" % (ind, c, th, ind, el)
            live = [v for v in self._assigned(s.body + s.orelse) if v in defined]
            if not live:
                return self.block(rest, defined, ind, tail)  # the branch only defines locals / noise
            tup = live[0] if len(live) == 1 else "(" + ", ".join(live) + ")"
            tys = " × ".join("Bool" if v in self.bools else "Int" for v in live)
            th = self.block(s.body, defined, ind + "    ", tup)
            el = self.block(s.orelse, defined, ind + "    ", tup)
            head = "%slet %s : %s :=\n%s  if %s then\n%s\n%s  else\n%s" % (ind, tup, tys, ind, c, th, ind, el)
            return head + "\n" + self.block(rest, defined, ind, tail)
        raise Untranslatable("%s: statement `%s`" % (self.fn.name, ast.unparse(s)[:80]))

    def lean(self) -> str:
        body = self.block(list(self.fn.body), list(self.params), "  ", None)
        allp = self.attr_params + self.params
        for p in allp:
            if not p.isidentifier():
                raise Untranslatable("parameter name %r" % p)
        sig = " ".join("(%s : %s)" % (p, "Bool" if p in self.bools else "Int") for p in allp)
        return "def %s %s : %s :=\n%s\n" % (self.lean_name, sig, self.ret, body)


def find_function(tree: ast.Module, qualname: str) -> ast.FunctionDef:
    parts = qualname.split(".")
    body: list[ast.stmt] = tree.body
    node = None
    for p in parts:
        node = None
        for s in body:
            if isinstance(s, (ast.FunctionDef, ast.ClassDef)) and s.name == p:
                node = s
                break
        if node is None:
            raise Untranslatable("%s not found" % qualname)
        body = node.body
    if not isinstance(node, ast.FunctionDef):
        raise Untranslatable("%s is not a function" % qualname)
    return node


def translate(source: str, specs: list[dict], namespace: str, header: str) -> str:
    """specs: [{"py": "Class.method" | "func", "lean": name, "bools": [...], "attr_order": [...]}]."""
    tree = ast.parse(source)
    out = [header.rstrip(), "", "namespace %s" % namespace, ""]
    for sp in specs:
        fn = find_function(tree, sp["py"])
        tr = FnTranslator(fn, sp["lean"], sp.get("bools", ()), extra_params=sp.get("attr_order", ()))
        out.append("/-- `%s` (%s) -/" % (sp["py"], textwrap.shorten(ast.unparse(fn).replace("\n", " ; "), 160).replace("-/", "- /")))
        out.append(tr.lean())
    out.append("end %s" % namespace)
    return "\n".join(out) + "\n"


# ---- the C11 / C10 instance: optuna/distributions.py ------------------------------------------------
DIST_INT_SPECS = [
    {"py": "_adjust_int_uniform_high", "lean": "adjustIntUniformHigh"},
    {"py": "IntDistribution.single", "lean": "intSingle", "bools": ["log"], "attr_order": ["low", "high", "log", "step"]},
    {"py": "IntDistribution._contains", "lean": "intContains", "bools": ["log"], "attr_order": ["low", "high", "step"]},
]

DIST_INT_HEADER = """/-
  GENERATED by verif/translators/tint.py from optuna/distributions.py — do not edit.
  Restricted Python -> Lean over Int/Bool; `//` = Int.fdiv, `%` = Int.fmod.
  (`IntDistribution._contains` is translated for integral arguments: the parameter value is an Int here;
  the rational-valued `contains` of Model/Dist.lean is proved to agree with it on integers.)
-/"""


def generate_dist_int(repo: str) -> str:
    import os

    src = open(os.path.join(repo, "optuna", "distributions.py")).read()
    tree = ast.parse(src)
    # `_contains` binds `value = param_value_in_internal_repr` (typed float in the source); the translation
    # is for integral values, so the annotation is overridden here and only here.
    fn = find_function(tree, "IntDistribution._contains")
    fn.returns = ast.Name(id="bool")
    for a in fn.args.args:
        a.annotation = None
    fn2 = find_function(tree, "IntDistribution.single")
    fn2.returns = ast.Name(id="bool")
    out = [DIST_INT_HEADER.rstrip(), "", "set_option linter.unusedVariables false", "", "namespace OptunaVerif.Generated.DistInt", ""]
    for sp in DIST_INT_SPECS:
        f = find_function(tree, sp["py"])
        tr = FnTranslator(f, sp["lean"], sp.get("bools", ()), extra_params=sp.get("attr_order", ()))
        out.append("/-- `%s` -/" % sp["py"])
        out.append(tr.lean())
    out.append("end OptunaVerif.Generated.DistInt")
    return "\n".join(out) + "\n"


if __name__ == "__main__":
    import sys

    print(generate_dist_int(sys.argv[1] if len(sys.argv) > 1 else "/repo"))
