"""T-journal (C06): `JournalStorageReplayResult` -> Lean DATA (lean/OptunaVerif/Generated/JournalHandlers.lean).

Read from optuna/storages/journal/_storage.py with Python `ast` on every run:

  JournalOperation                          member name -> value                          -> program.opCodes
  JournalStorageReplayResult.apply_logs     `for log in logs:` with `self.log_number_read += 1`, `op = log["op_code"]`
                                            and the chain `if op == JournalOperation.X: self._apply_y(log) elif ... else:
                                            assert False`                                 -> program.dispatch, program.cursorFirst
  .worker_id / ._is_issued_by_this_worker   must be literally `self._worker_id_prefix + str(threading.get_ident())` and
                                            `log["worker_id"] == self.worker_id`         -> the primitive `Cond.issuedByMe`
  ._study_exists / ._trial_exists_and_updatable   bodies -> `Stmt` (return a Bool or raise)
  every ._apply_* named in the dispatch     body -> `Stmt`; calls of the two helpers are `Stmt.ifCall <helper body> ...`

The statement language (`Model/JournalIR.lean`): skip / seq / ite / ifCall / raise / ret / retB / firstDistCheck / act, with
conditions `Cond` and primitive actions `Act`.  Each primitive stands for ONE whitelisted source shape (listed next to the
constructor in JournalIR.lean and in SHAPES below); local variables are tracked by *kind*:

  sid     the local study id   (`log["study_id"]`, `self._next_study_id`, `self._trial_id_to_study_id[<tid>]`)
  tid     the local trial id   (`log["trial_id"]`, `len(self._trial_id_to_study_id)`)
  logval  a pure function of the record (study_name, directions, param_name, param_value_internal, distribution, state and
          the decoded optional fields of a CREATE_TRIAL record) - bound by one of the whitelisted decode statements
  trial   `copy.copy(self._trials[<tid>])`
  study   `self._studies[<sid>]` (alias of the stored FrozenStudy)
  fs      the popped FrozenStudy

Anything outside the whitelist raises `Untranslatable`; the handler is then emitted as the stub `.raise unrepresentable`
(so its equality theorem fails as well) and `regenerate` reports chk.broke("translation", ...).
"""
from __future__ import annotations

import ast
import os
from typing import Any

REL = "optuna/storages/journal/_storage.py"
CLASS = "JournalStorageReplayResult"
HELPERS = {"_study_exists": ("studyExists", "sid"), "_trial_exists_and_updatable": ("trialExistsAndUpdatable", "tid")}
ERR = {"KeyError": "keyError", "DuplicatedStudyError": "duplicated", "UpdateFinishedTrialError": "updateFinished"}
TSTATE = {"RUNNING": "running", "COMPLETE": "complete", "PRUNED": "pruned", "FAIL": "fail", "WAITING": "waiting"}


class Untranslatable(Exception):
    def __init__(self, where: str, why: str) -> None:
        super().__init__("%s: %s" % (where, why))
        self.where = where
        self.why = why


def U(node: ast.AST, why: str) -> Untranslatable:
    try:
        txt = ast.unparse(node)
    except Exception:  # noqa: BLE001
        txt = repr(node)
    return Untranslatable("line %s `%s`" % (getattr(node, "lineno", "?"), " ".join(txt.split())[:140]), why)


def norm(n: "ast.AST | str") -> str:
    """position-free canonical text of an expression / statement"""
    if isinstance(n, str):
        n = ast.parse(n).body[0]
    if isinstance(n, ast.Expr):
        n = n.value
    return ast.dump(n, annotate_fields=False, include_attributes=False)


def is_src(n: ast.AST, text: str) -> bool:
    return norm(n) == norm(text)


# ---- decode statements: locals that are pure functions of the record ----------------------------------------
# (statement list, {local: tag}); matched literally (variable names included), `log` being the record parameter.
DECODE = [
    (['study_name = log["study_name"]'], {"study_name": "studyName"}),
    (['directions = [StudyDirection(d) for d in log["directions"]]'], {"directions": "directions"}),
    (['param_name = log["param_name"]'], {"param_name": "paramName"}),
    (['param_value_internal = log["param_value_internal"]'], {"param_value_internal": "paramValue"}),
    (['distribution = json_to_distribution(log["distribution"])'], {"distribution": "distribution"}),
    (['state = TrialState(log["state"])'], {"state": "state"}),
    (["distributions = {}",
      'if "distributions" in log:\n    distributions = {k: json_to_distribution(v) for k, v in log["distributions"].items()}'],
     {"distributions": "tmplDistributions"}),
    (["params = {}",
      'if "params" in log:\n    params = {k: distributions[k].to_external_repr(p) for k, p in log["params"].items()}'],
     {"params": "tmplParams"}),
    (['if log["datetime_start"] is not None:\n    datetime_start = datetime.datetime.fromisoformat(log["datetime_start"])\n'
      'else:\n    datetime_start = None'], {"datetime_start": "tmplStart"}),
    (['if "datetime_complete" in log:\n    datetime_complete = datetime.datetime.fromisoformat(log["datetime_complete"])\n'
      'else:\n    datetime_complete = None'], {"datetime_complete": "tmplComplete"}),
]
# decode statements need other decoded locals
DECODE_NEEDS = {"tmplParams": ["tmplDistributions"]}

# keyword -> [(source shape, needs logvals, TField taken from the record or None for the constructor's constant)]
NEW_TRIAL_KW: dict[str, list[tuple[str, list[str], str | None]]] = {
    "state": [('TrialState(log.get("state", TrialState.RUNNING.value))', [], "state"), ("TrialState.RUNNING", [], None)],
    "params": [("params", ["tmplParams"], "params"), ("{}", [], None)],
    "distributions": [("distributions", ["tmplDistributions"], "params"), ("{}", [], None)],
    "user_attrs": [('log.get("user_attrs", {})', [], "userAttrs"), ("{}", [], None)],
    "system_attrs": [('log.get("system_attrs", {})', [], "systemAttrs"), ("{}", [], None)],
    "value": [('log.get("value", None)', [], "values"), ("None", [], None)],
    "values": [('log.get("values", None)', [], "values"), ("None", [], None)],
    "intermediate_values": [('{int(k): v for k, v in log.get("intermediate_values", {}).items()}', [], "inter"), ("{}", [], None)],
    "datetime_start": [("datetime_start", ["tmplStart"], "start"), ("None", [], None)],
    "datetime_complete": [("datetime_complete", ["tmplComplete"], "complete"), ("None", [], None)],
}
TFIELDS = ["state", "values", "params", "userAttrs", "systemAttrs", "inter", "start", "complete"]
ASSERTS = ['len(log["user_attr"]) == 1', 'len(log["system_attr"]) == 1']


class Ctx:
    """translation of one method body"""

    def __init__(self, log: str, params: dict[str, str]) -> None:
        self.log = log
        self.kind: dict[str, str] = dict(params)  # local name -> sid | tid | trial | study | fs | logval:<tag>
        self.asserts: list[str] = []

    # -- names --------------------------------------------------------------------------------------------
    def is_kind(self, n: ast.AST, kind: str) -> bool:
        return isinstance(n, ast.Name) and self.kind.get(n.id) == kind

    def logval(self, n: ast.AST, tag: str) -> bool:
        return isinstance(n, ast.Name) and self.kind.get(n.id) == "logval:" + tag

    def bind(self, node: ast.AST, name: str, kind: str) -> None:
        for other, k in self.kind.items():
            if k == kind and other != name and kind in ("sid", "tid", "trial", "study"):
                raise U(node, "a second local of kind %s (`%s` besides `%s`): the IR has one slot per kind" % (kind, name, other))
        old = self.kind.get(name)
        if old is not None and old != kind:
            raise U(node, "local `%s` changes its kind from %s to %s" % (name, old, kind))
        self.kind[name] = kind

    def unlog(self, n: ast.AST) -> ast.AST:
        """rename the record parameter to `log` so that shapes can be compared literally"""
        if self.log == "log":
            return n

        class R(ast.NodeTransformer):
            def visit_Name(s, x: ast.Name) -> ast.AST:  # noqa: N805
                return ast.copy_location(ast.Name("log", x.ctx), x) if x.id == self.log else x
        import copy
        return R().visit(copy.deepcopy(n))

    def same(self, n: ast.AST, text: str) -> bool:
        return norm(self.unlog(n)) == norm(text)

    # -- sub-expressions ------------------------------------------------------------------------------------
    def self_attr(self, n: ast.AST, attr: str) -> bool:
        return isinstance(n, ast.Attribute) and isinstance(n.value, ast.Name) and n.value.id == "self" and n.attr == attr

    def sub(self, n: ast.AST, attr: str, kind: str) -> bool:
        """`self.<attr>[<local of kind>]`"""
        return isinstance(n, ast.Subscript) and self.self_attr(n.value, attr) and self.is_kind(n.slice, kind)

    def log_field(self, n: ast.AST, key: str) -> bool:
        return (isinstance(n, ast.Subscript) and isinstance(n.value, ast.Name) and n.value.id == self.log
                and isinstance(n.slice, ast.Constant) and n.slice.value == key)

    def trial_state(self, n: ast.AST) -> str | None:
        if isinstance(n, ast.Attribute) and isinstance(n.value, ast.Name) and n.value.id == "TrialState" and n.attr in TSTATE:
            return TSTATE[n.attr]
        return None

    def stored_state(self, n: ast.AST) -> bool:
        return isinstance(n, ast.Attribute) and n.attr == "state" and self.sub(n.value, "_trials", "tid")

    def is_worker_id(self, n: ast.AST) -> bool:
        return self.self_attr(n, "worker_id")

    # -- conditions -------------------------------------------------------------------------------------------
    def cond(self, n: ast.AST) -> Any:
        if isinstance(n, ast.Constant) and n.value is True:
            return "tt"
        if isinstance(n, ast.Constant) and n.value is False:
            return "ff"
        if isinstance(n, ast.UnaryOp) and isinstance(n.op, ast.Not):
            return ("not", self.cond(n.operand))
        if isinstance(n, ast.BoolOp):
            op = "and" if isinstance(n.op, ast.And) else "or"
            out = self.cond(n.values[-1])
            for v in reversed(n.values[:-1]):
                out = (op, self.cond(v), out)
            return out
        if isinstance(n, ast.Call):
            f = n.func
            if (isinstance(f, ast.Attribute) and self.self_attr(f, "_is_issued_by_this_worker") and len(n.args) == 1
                    and not n.keywords and isinstance(n.args[0], ast.Name) and n.args[0].id == self.log):
                return "issuedByMe"
            if isinstance(f, ast.Attribute) and f.attr == "is_finished" and not n.args and not n.keywords:
                if self.stored_state(f.value):
                    return "storedFinished"
                if self.logval(f.value, "state"):
                    return "stateFinished"
            raise U(n, "call is not a whitelisted condition")
        if isinstance(n, ast.Compare) and len(n.ops) == 1:
            a, op, b = n.left, n.ops[0], n.comparators[0]
            if isinstance(op, (ast.In, ast.NotIn)):
                c: Any = None
                if self.is_kind(a, "sid") and self.self_attr(b, "_studies"):
                    c = "studyIn"
                elif self.is_kind(a, "tid") and self.self_attr(b, "_trials"):
                    c = "trialIn"
                elif self.logval(a, "studyName") and is_src(b, "[s.study_name for s in self._studies.values()]"):
                    c = "nameTaken"
                if c is None:
                    raise U(n, "membership test is not whitelisted")
                return c if isinstance(op, ast.In) else ("not", c)
            if isinstance(op, (ast.Eq, ast.NotEq)):
                c = None
                for x, y in ((a, b), (b, a)):
                    if self.stored_state(x) and self.trial_state(y) == "running":
                        c = "storedRunning"
                    elif self.logval(x, "state") and self.stored_state(y):
                        c = "stateIsStored"
                    elif self.logval(x, "state") and self.trial_state(y) is not None:
                        c = ("stateIs", self.trial_state(y))
                    if c is not None:
                        break
                if c is None:
                    raise U(n, "comparison is not whitelisted")
                return c if isinstance(op, ast.Eq) else ("not", c)
            if isinstance(op, (ast.Is, ast.IsNot)) and isinstance(b, ast.Constant) and b.value is None and self.log_field(a, "values"):
                return "valuesGiven" if isinstance(op, ast.IsNot) else ("not", "valuesGiven")
        raise U(n, "condition is not whitelisted")

    # -- statements -----------------------------------------------------------------------------------------
    def helper_call(self, n: ast.AST) -> tuple[str, bool] | None:
        """`self._study_exists(<sid>, log)` / `not ...` -> (helper, negated)"""
        neg = False
        if isinstance(n, ast.UnaryOp) and isinstance(n.op, ast.Not):
            n, neg = n.operand, True
        if isinstance(n, ast.Call) and isinstance(n.func, ast.Attribute) and isinstance(n.func.value, ast.Name) \
                and n.func.value.id == "self" and n.func.attr in HELPERS:
            lean, kind = HELPERS[n.func.attr]
            if n.keywords or len(n.args) != 2 or not self.is_kind(n.args[0], kind) or not (
                    isinstance(n.args[1], ast.Name) and n.args[1].id == self.log):
                raise U(n, "helper must be called as self.%s(<local %s>, <record>)" % (n.func.attr, kind))
            return lean, neg
        return None

    def pure_message(self, n: ast.AST) -> bool:
        for x in ast.walk(n):
            if isinstance(x, ast.Call) and not (isinstance(x.func, ast.Attribute) and x.func.attr == "format"):
                return False
            if isinstance(x, (ast.Lambda, ast.NamedExpr, ast.Await, ast.Yield, ast.YieldFrom)):
                return False
        return True

    def block(self, body: list[ast.stmt]) -> list[Any]:
        out: list[Any] = []
        i = 0
        while i < len(body):
            st = body[i]
            # multi-statement decode idioms first
            matched = False
            for texts, binds in DECODE:
                k = len(texts)
                if i + k <= len(body) and all(self.same(body[i + j], texts[j]) for j in range(k)):
                    for tag in binds.values():
                        for need in DECODE_NEEDS.get(tag, []):
                            if "logval:" + need not in self.kind.values():
                                raise U(st, "decoding %s needs %s decoded first" % (tag, need))
                    for name, tag in binds.items():
                        self.bind(st, name, "logval:" + tag)
                    i += k
                    matched = True
                    break
            if matched:
                continue
            # the two-statement parameter update (either order)
            if i + 1 < len(body) and self.is_param_pair(body[i], body[i + 1]):
                out.append(("act", "setParam"))
                i += 2
                continue
            out += self.stmt(st)
            i += 1
        return out

    def is_param_pair(self, a: ast.stmt, b: ast.stmt) -> bool:
        if not any(k == "trial" for k in self.kind.values()):
            return False
        t = next(n for n, k in self.kind.items() if k == "trial")
        if not (self.logval(ast.Name("param_name"), "paramName") and self.logval(ast.Name("distribution"), "distribution")
                and self.logval(ast.Name("param_value_internal"), "paramValue")):
            return False
        ps = ["%s.params = {**copy.copy(%s.params), param_name: distribution.to_external_repr(param_value_internal)}" % (t, t),
              "%s.params = {**%s.params, param_name: distribution.to_external_repr(param_value_internal)}" % (t, t)]
        ds = ["%s.distributions = {**copy.copy(%s.distributions), param_name: distribution}" % (t, t),
              "%s.distributions = {**%s.distributions, param_name: distribution}" % (t, t)]
        for x, y in ((a, b), (b, a)):
            if any(is_src(x, p) for p in ps) and any(is_src(y, d) for d in ds):
                return True
        return False

    def stmt(self, st: ast.stmt) -> list[Any]:
        if isinstance(st, ast.Pass):
            return []
        if isinstance(st, ast.Expr) and isinstance(st.value, ast.Constant) and isinstance(st.value.value, str):
            return []  # docstring
        if isinstance(st, ast.Return):
            if st.value is None or (isinstance(st.value, ast.Constant) and st.value.value is None):
                return ["ret"]
            if isinstance(st.value, ast.Constant) and isinstance(st.value.value, bool):
                return [("retB", st.value.value)]
            raise U(st, "only `return`, `return True`, `return False`")
        if isinstance(st, ast.Raise):
            e = st.exc
            if st.cause is None and isinstance(e, ast.Call) and isinstance(e.func, ast.Name) and e.func.id in ERR \
                    and all(self.pure_message(a) for a in e.args) and not e.keywords:
                return [("raise", ERR[e.func.id])]
            raise U(st, "only `raise KeyError|DuplicatedStudyError|UpdateFinishedTrialError(<message>)`")
        if isinstance(st, ast.Assert):
            txt = ast.unparse(self.unlog(st.test))
            fs = [n for n, k in self.kind.items() if k == "fs"]
            sid = [n for n, k in self.kind.items() if k == "sid"]
            t = self.unlog(st.test)
            ok = any(is_src(t, a) for a in ASSERTS) or (fs and sid and is_src(t, "%s._study_id == %s" % (fs[0], sid[0])))
            if not ok:
                raise U(st, "assertion is not one of the whitelisted (assumed true) ones")
            self.asserts.append(txt)
            return []
        if isinstance(st, ast.If):
            hc = self.helper_call(st.test)
            t = self.block(st.body)
            e = self.block(st.orelse)
            if hc is not None:
                lean, neg = hc
                return [("ifCall", lean, e, t) if neg else ("ifCall", lean, t, e)]
            return [("ite", self.cond(st.test), t, e)]
        if isinstance(st, ast.For):
            return [self.for_loop(st)]
        if isinstance(st, ast.AugAssign):
            if self.self_attr(st.target, "_next_study_id") and isinstance(st.op, ast.Add) and isinstance(st.value, ast.Constant) and st.value.value == 1:
                return [("act", "bumpNextStudyId")]
            raise U(st, "augmented assignment is not whitelisted")
        if isinstance(st, ast.Expr):
            v = st.value
            if isinstance(v, ast.Call) and isinstance(v.func, ast.Attribute):
                f = v.func
                # self._worker_id_to_owned_trial_id.pop(self.worker_id, None)
                if f.attr == "pop" and self.self_attr(f.value, "_worker_id_to_owned_trial_id") and len(v.args) == 2 and not v.keywords \
                        and self.is_worker_id(v.args[0]) and isinstance(v.args[1], ast.Constant) and v.args[1].value is None:
                    return [("act", "ownedPop")]
                # self._studies.pop(<sid>)
                if f.attr == "pop" and self.self_attr(f.value, "_studies") and len(v.args) == 1 and not v.keywords and self.is_kind(v.args[0], "sid"):
                    return [("act", "popStudy")]
                # self._study_id_to_trial_ids[<sid>].append(<tid>)
                if f.attr == "append" and self.sub(f.value, "_study_id_to_trial_ids", "sid") and len(v.args) == 1 and not v.keywords \
                        and self.is_kind(v.args[0], "tid"):
                    return [("act", ("ghost", "appendStudyTrialId"))]
            raise U(st, "expression statement is not whitelisted")
        if isinstance(st, ast.Delete):
            if len(st.targets) == 1 and self.sub(st.targets[0], "_studies", "sid"):
                return [("act", "popStudy")]
            raise U(st, "del is not whitelisted")
        if isinstance(st, ast.Assign) and len(st.targets) == 1:
            return self.assign(st, st.targets[0], st.value)
        if isinstance(st, ast.AnnAssign) and st.value is not None and st.simple:
            return self.assign(st, st.target, st.value)
        raise U(st, "statement shape is not whitelisted")

    def assign(self, st: ast.stmt, tgt: ast.AST, v: ast.AST) -> list[Any]:
        # ---- locals
        if isinstance(tgt, ast.Name):
            name = tgt.id
            if self.log_field(v, "study_id"):
                self.bind(st, name, "sid")
                return [("act", ("setSid", "log"))]
            if self.self_attr(v, "_next_study_id"):
                self.bind(st, name, "sid")
                return [("act", ("setSid", "next"))]
            if self.sub(v, "_trial_id_to_study_id", "tid"):
                self.bind(st, name, "sid")
                return [("act", ("setSid", "ofTrial"))]
            if self.log_field(v, "trial_id"):
                self.bind(st, name, "tid")
                return [("act", ("setTid", "log"))]
            if is_src(v, "len(self._trial_id_to_study_id)"):
                self.bind(st, name, "tid")
                return [("act", ("setTid", "fresh"))]
            if isinstance(v, ast.Call) and is_src(v.func, "copy.copy") and len(v.args) == 1 and not v.keywords and self.sub(v.args[0], "_trials", "tid"):
                self.bind(st, name, "trial")
                return [("act", "loadTrial")]
            if self.sub(v, "_studies", "sid"):
                self.bind(st, name, "study")
                return []          # an alias; the read happens in mergeStudyAttr
            if isinstance(v, ast.Call) and isinstance(v.func, ast.Attribute) and v.func.attr == "pop" and self.self_attr(v.func.value, "_studies") \
                    and len(v.args) == 1 and not v.keywords and self.is_kind(v.args[0], "sid"):
                self.bind(st, name, "fs")
                return [("act", "popStudy")]
            raise U(st, "assignment to a local is not one of the whitelisted bindings")
        # ---- self.<scalar>
        if self.self_attr(tgt, "_last_created_trial_id_by_this_process") and self.is_kind(v, "tid"):
            return [("act", "setLastCreated")]
        # ---- self.<dict>[key] = ...
        if isinstance(tgt, ast.Subscript):
            if self.self_attr(tgt.value, "_worker_id_to_owned_trial_id") and self.is_worker_id(tgt.slice) and self.is_kind(v, "tid"):
                return [("act", "ownedSet")]
            if self.sub(tgt, "_study_id_to_trial_ids", "sid") and isinstance(v, ast.List) and not v.elts:
                return [("act", ("ghost", "initStudyTrialIds"))]
            if self.sub(tgt, "_trial_id_to_study_id", "tid") and self.is_kind(v, "sid"):
                return [("act", ("ghost", "mapTrialToStudy"))]
            if self.sub(tgt, "_studies", "sid"):
                sid = self.one("sid", st)
                if self.logval(ast.Name("study_name"), "studyName") and self.logval(ast.Name("directions"), "directions") and is_src(
                        v, "FrozenStudy(study_name=study_name, direction=None, user_attrs={}, system_attrs={}, study_id=%s, directions=directions)" % sid):
                    return [("act", "storeNewStudy")]
                raise U(st, "a stored FrozenStudy must be built exactly as FrozenStudy(study_name=study_name, direction=None, user_attrs={}, "
                            "system_attrs={}, study_id=<sid>, directions=directions)")
            if self.sub(tgt, "_trials", "tid"):
                if self.is_kind(v, "trial"):
                    return [("act", "storeTrial")]
                if isinstance(v, ast.Call) and isinstance(v.func, ast.Name) and v.func.id == "FrozenTrial":
                    return [self.new_trial(st, v)]
                raise U(st, "only a FrozenTrial(...) or the local trial copy may be stored")
            raise U(st, "subscript assignment is not whitelisted")
        # ---- <local>.<field> = ...
        if isinstance(tgt, ast.Attribute) and isinstance(tgt.value, ast.Name):
            obj, fld = tgt.value.id, tgt.attr
            k = self.kind.get(obj)
            vv = self.unlog(v)
            if k == "study" and fld in ("user_attrs", "system_attrs"):
                for src in ("user", "system"):
                    if is_src(vv, '{**%s.%s, **log["%s_attr"]}' % (obj, fld, src)) or is_src(vv, '{**copy.copy(%s.%s), **log["%s_attr"]}' % (obj, fld, src)):
                        return [("act", ("mergeStudyAttr", fld == "user_attrs", src == "user"))]
            if k == "trial":
                if fld in ("user_attrs", "system_attrs"):
                    for src in ("user", "system"):
                        if is_src(vv, '{**copy.copy(%s.%s), **log["%s_attr"]}' % (obj, fld, src)) or is_src(vv, '{**%s.%s, **log["%s_attr"]}' % (obj, fld, src)):
                            return [("act", ("mergeTrialAttr", fld == "user_attrs", src == "user"))]
                if fld == "intermediate_values" and (
                        is_src(vv, '{**copy.copy(%s.intermediate_values), log["step"]: log["intermediate_value"]}' % obj)
                        or is_src(vv, '{**%s.intermediate_values, log["step"]: log["intermediate_value"]}' % obj)):
                    return [("act", "setInter")]
                if fld == "state" and self.logval(v, "state"):
                    return [("act", "setState")]
                if fld == "values" and self.log_field(v, "values"):
                    return [("act", "setValues")]
                if fld == "datetime_start" and is_src(vv, 'datetime.datetime.fromisoformat(log["datetime_start"])'):
                    return [("act", "setStart")]
                if fld == "datetime_complete" and is_src(vv, 'datetime.datetime.fromisoformat(log["datetime_complete"])'):
                    return [("act", "setComplete")]
            raise U(st, "field update is not whitelisted")
        raise U(st, "assignment target is not whitelisted")

    def one(self, kind: str, node: ast.AST) -> str:
        ns = [n for n, k in self.kind.items() if k == kind]
        if len(ns) != 1:
            raise U(node, "no local of kind %s is bound here" % kind)
        return ns[0]

    def new_trial(self, st: ast.stmt, call: ast.Call) -> Any:
        if call.args:
            raise U(st, "FrozenTrial(...) must use keywords only")
        kws = {k.arg: k.value for k in call.keywords}
        if None in kws or len(kws) != len(call.keywords):
            raise U(st, "FrozenTrial(...) with ** or repeated keywords")
        expect = {"trial_id", "number"} | set(NEW_TRIAL_KW)
        if set(kws) != expect:
            raise U(st, "FrozenTrial(...) keywords %s != %s" % (sorted(kws), sorted(expect)))
        if not self.is_kind(kws["trial_id"], "tid"):
            raise U(st, "trial_id= must be the local trial id")
        sid = self.one("sid", st)
        num = kws["number"]
        if is_src(num, "len(self._study_id_to_trial_ids[%s])" % sid):
            numsrc = "lenStudyTrialIds"
        elif is_src(num, "len(self._trials)"):
            numsrc = "lenTrials"
        elif self.is_kind(num, "tid"):
            numsrc = "trialId"
        else:
            raise U(st, "number= is not whitelisted")
        taken: dict[str, list[bool]] = {}
        for kw, alts in NEW_TRIAL_KW.items():
            v = self.unlog(kws[kw])
            for text, needs, fld in alts:
                if is_src(v, text) and all("logval:" + n in self.kind.values() for n in needs):
                    if fld is not None:
                        taken.setdefault(fld, []).append(True)
                    else:
                        # the Lean field this keyword feeds gets the constant
                        tf = alts[0][2]
                        assert tf is not None
                        taken.setdefault(tf, []).append(False)
                    break
            else:
                raise U(st, "FrozenTrial(%s=...) is not whitelisted" % kw)
        # a Lean field fed by two keywords (params+distributions, value+values) is "from the record" only if both are
        from_log = [f for f in TFIELDS if taken.get(f) and all(taken[f])]
        mixed = [f for f in TFIELDS if taken.get(f) and any(taken[f]) and not all(taken[f])]
        if mixed:
            raise U(st, "keywords feeding %s disagree (one from the record, one constant)" % mixed)
        return ("act", ("newTrial", numsrc, from_log))

    def for_loop(self, st: ast.For) -> Any:
        # (1) deletion of a study's trials
        if isinstance(st.target, ast.Name) and not st.orelse and len(st.body) == 1 and isinstance(st.iter, ast.Call) \
                and isinstance(st.iter.func, ast.Attribute) and st.iter.func.attr == "pop" \
                and self.self_attr(st.iter.func.value, "_study_id_to_trial_ids") and len(st.iter.args) == 1 and not st.iter.keywords \
                and self.is_kind(st.iter.args[0], "sid") and is_src(st.body[0], "del self._trials[%s]" % st.target.id):
            return ("act", ("ghost", "popStudyTrialIds"))
        # (2) the compatibility check of _apply_set_trial_param
        sid = self.one("sid", st)
        ok = (isinstance(st.target, ast.Name) and not st.orelse and is_src(st.iter, "self._study_id_to_trial_ids[%s]" % sid)
              and len(st.body) == 2 and self.logval(ast.Name("param_name"), "paramName") and self.logval(ast.Name("distribution"), "distribution"))
        if ok:
            v = st.target.id
            b0, b1 = st.body
            ok = isinstance(b0, ast.Assign) and len(b0.targets) == 1 and isinstance(b0.targets[0], ast.Name) and is_src(b0.value, "self._trials[%s]" % v)
            if ok:
                p = b0.targets[0].id
                ok = (isinstance(b1, ast.If) and not b1.orelse and (is_src(b1.test, "param_name in %s.params.keys()" % p) or is_src(b1.test, "param_name in %s.params" % p))
                      and len(b1.body) == 2 and isinstance(b1.body[1], ast.Break) and isinstance(b1.body[0], ast.Try))
                if ok:
                    tr = b1.body[0]
                    ok = (len(tr.body) == 1 and not tr.orelse and not tr.finalbody and len(tr.handlers) == 1
                          and is_src(tr.body[0], "check_distribution_compatibility(%s.distributions[param_name], distribution)" % p)
                          and tr.handlers[0].name is None and isinstance(tr.handlers[0].type, ast.Name) and tr.handlers[0].type.id == "Exception")
                    if ok:
                        on_fail = self.except_body(tr.handlers[0].body)
                        return ("firstDistCheck", on_fail)
        raise U(st, "for loop is neither the deletion of a study's trials nor the first-trial compatibility check")

    def except_body(self, body: list[ast.stmt]) -> list[Any]:
        """body of `except Exception:` around check_distribution_compatibility: a bare `raise` re-raises its ValueError"""
        class R(ast.NodeTransformer):
            def visit_Raise(s, x: ast.Raise) -> ast.AST:  # noqa: N805
                if x.exc is None:
                    return ast.copy_location(ast.Expr(ast.Name("__reraise__")), x)
                return x
        import copy
        body = [R().visit(copy.deepcopy(b)) for b in body]
        return self._block_reraise(body)

    def _block_reraise(self, body: list[ast.stmt]) -> list[Any]:
        out: list[Any] = []
        for st in body:
            if isinstance(st, ast.Expr) and isinstance(st.value, ast.Name) and st.value.id == "__reraise__":
                out.append(("raise", "valueError"))
            elif isinstance(st, ast.If):
                if self.helper_call(st.test) is not None:
                    raise U(st, "helper call inside the except body")
                out.append(("ite", self.cond(st.test), self._block_reraise(st.body), self._block_reraise(st.orelse)))
            elif isinstance(st, (ast.Return, ast.Pass)):
                out += self.stmt(st)
            else:
                raise U(st, "only if / raise / return inside the except body")
        return out


# ---- rendering ----------------------------------------------------------------------------------------------
def r_cond(c: Any) -> str:
    if isinstance(c, str):
        return "." + c
    if c[0] == "stateIs":
        return "(.stateIs .%s)" % c[1]
    if c[0] == "not":
        return "(.not %s)" % r_cond(c[1])
    return "(.%s %s %s)" % (c[0], r_cond(c[1]), r_cond(c[2]))


def r_bool(b: bool) -> str:
    return "true" if b else "false"


def r_act(a: Any) -> str:
    if isinstance(a, str):
        return "." + a
    if a[0] in ("setSid", "setTid", "ghost"):
        return "(.%s .%s)" % (a[0], a[1])
    if a[0] in ("mergeStudyAttr", "mergeTrialAttr"):
        return "(.%s %s %s)" % (a[0], r_bool(a[1]), r_bool(a[2]))
    if a[0] == "newTrial":
        return "(.newTrial .%s [%s])" % (a[1], ", ".join("." + f for f in a[2]))
    raise AssertionError(a)


def r_block(b: list[Any], ind: int) -> str:
    if not b:
        return ".skip"
    if len(b) == 1:
        return r_stmt(b[0], ind)
    pad = " " * (ind + 2)
    return "(block [\n" + ",\n".join(pad + r_stmt(s, ind + 2) for s in b) + "])"


def r_stmt(s: Any, ind: int) -> str:
    if s == "ret":
        return ".ret"
    k = s[0]
    if k == "retB":
        return "(.retB %s)" % r_bool(s[1])
    if k == "raise":
        return "(.raise .%s)" % s[1]
    if k == "act":
        return "(.act %s)" % r_act(s[1])
    if k == "ite":
        return "(.ite %s %s %s)" % (r_cond(s[1]), r_block(s[2], ind + 2), r_block(s[3], ind + 2))
    if k == "ifCall":
        return "(.ifCall %s %s %s)" % (s[1], r_block(s[2], ind + 2), r_block(s[3], ind + 2))
    if k == "firstDistCheck":
        return "(.firstDistCheck %s)" % r_block(s[1], ind + 2)
    raise AssertionError(s)


def lean_name(method: str) -> str:
    parts = method.strip("_").split("_")
    return parts[0] + "".join(p.capitalize() for p in parts[1:])


# ---- whole file --------------------------------------------------------------------------------------------
def _methods(cdef: ast.ClassDef) -> dict[str, ast.FunctionDef]:
    return {n.name: n for n in cdef.body if isinstance(n, ast.FunctionDef)}


def _args(fn: ast.FunctionDef) -> list[str]:
    a = fn.args
    if a.vararg or a.kwarg or a.kwonlyargs or a.defaults or a.posonlyargs:
        raise U(fn, "unexpected parameter list")
    return [x.arg for x in a.args]


def read_opcodes(tree: ast.Module) -> list[tuple[str, int]]:
    c = next((n for n in tree.body if isinstance(n, ast.ClassDef) and n.name == "JournalOperation"), None)
    if c is None:
        raise Untranslatable("JournalOperation", "class not found")
    out = []
    for st in c.body:
        if isinstance(st, ast.Expr) and isinstance(st.value, ast.Constant) and isinstance(st.value.value, str):
            continue
        if isinstance(st, ast.Assign) and len(st.targets) == 1 and isinstance(st.targets[0], ast.Name) and isinstance(st.value, ast.Constant) \
                and type(st.value.value) is int and st.value.value >= 0:
            out.append((st.targets[0].id, st.value.value))
        else:
            raise U(st, "JournalOperation member is not `NAME = <int>`")
    return out


def read_apply_logs(fn: ast.FunctionDef) -> tuple[list[tuple[str, str]], bool]:
    args = _args(fn)
    if len(args) != 2:
        raise U(fn, "apply_logs(self, logs)")
    body = [s for s in fn.body if not (isinstance(s, ast.Expr) and isinstance(s.value, ast.Constant))]
    if len(body) != 1 or not isinstance(body[0], ast.For) or body[0].orelse or not isinstance(body[0].target, ast.Name) \
            or not (isinstance(body[0].iter, ast.Name) and body[0].iter.id == args[1]):
        raise U(fn, "apply_logs must be a single `for <log> in <logs>:` loop")
    loop = body[0]
    log = loop.target.id
    bump_at: list[int] = []
    chain_at: list[int] = []
    opvar = None
    chain: ast.If | None = None
    for i, st in enumerate(loop.body):
        if is_src(st, "self.log_number_read += 1"):
            bump_at.append(i)
        elif isinstance(st, ast.Assign) and len(st.targets) == 1 and isinstance(st.targets[0], ast.Name) and is_src(st.value, '%s["op_code"]' % log):
            opvar = st.targets[0].id
        elif isinstance(st, ast.If):
            chain_at.append(i)
            chain = st
        else:
            raise U(st, "statement in the apply_logs loop is not whitelisted")
    if len(bump_at) != 1 or len(chain_at) != 1 or opvar is None or chain is None:
        raise U(loop, "the loop must advance log_number_read exactly once, read op_code and dispatch once")
    dispatch: list[tuple[str, str]] = []
    cur: Any = chain
    while True:
        t = cur.test
        if not (isinstance(t, ast.Compare) and len(t.ops) == 1 and isinstance(t.ops[0], ast.Eq) and isinstance(t.left, ast.Name) and t.left.id == opvar
                and isinstance(t.comparators[0], ast.Attribute) and isinstance(t.comparators[0].value, ast.Name)
                and t.comparators[0].value.id == "JournalOperation"):
            raise U(cur, "dispatch test must be `%s == JournalOperation.<X>`" % opvar)
        member = t.comparators[0].attr
        if len(cur.body) != 1 or not isinstance(cur.body[0], ast.Expr) or not isinstance(cur.body[0].value, ast.Call):
            raise U(cur, "dispatch arm must be a single call self._apply_x(<log>)")
        c = cur.body[0].value
        if not (isinstance(c.func, ast.Attribute) and isinstance(c.func.value, ast.Name) and c.func.value.id == "self" and len(c.args) == 1
                and not c.keywords and isinstance(c.args[0], ast.Name) and c.args[0].id == log):
            raise U(cur, "dispatch arm must be a single call self._apply_x(<log>)")
        dispatch.append((member, c.func.attr))
        if len(cur.orelse) == 1 and isinstance(cur.orelse[0], ast.If):
            cur = cur.orelse[0]
            continue
        if len(cur.orelse) == 1 and isinstance(cur.orelse[0], ast.Assert) and isinstance(cur.orelse[0].test, ast.Constant) and cur.orelse[0].test.value is False:
            break
        if not cur.orelse:
            raise U(cur, "the dispatch chain must end in `else: assert False`")
        raise U(cur.orelse[0], "the dispatch chain must end in `else: assert False`")
    return dispatch, bump_at[0] < chain_at[0]


def translate(repo: str) -> tuple[str, dict[str, Any], list[dict[str, str]]]:
    """-> (Lean text, info, problems)"""
    path = os.path.join(repo, REL)
    problems: list[dict[str, str]] = []
    info: dict[str, Any] = {"handlers": {}, "asserts": []}

    def problem(what: str, e: Exception) -> None:
        problems.append({"what": what, "why": str(e)})

    tree = ast.parse(open(path).read())
    cdef = next((n for n in tree.body if isinstance(n, ast.ClassDef) and n.name == CLASS), None)
    if cdef is None:
        raise Untranslatable(CLASS, "class not found in %s" % REL)
    ms = _methods(cdef)
    # --- enum, dispatch
    try:
        opcodes = read_opcodes(tree)
    except Untranslatable as e:
        problem("JournalOperation", e)
        opcodes = []
    try:
        if "apply_logs" not in ms:
            raise Untranslatable("apply_logs", "method not found")
        dispatch, cursor_first = read_apply_logs(ms["apply_logs"])
    except Untranslatable as e:
        problem("apply_logs", e)
        dispatch, cursor_first = [], True
    # --- the issuer test
    try:
        w = ms.get("worker_id")
        if w is None or [ast.unparse(d) for d in w.decorator_list] != ["property"] or len(w.body) != 1 or not is_src(
                w.body[0], "return self._worker_id_prefix + str(threading.get_ident())"):
            raise Untranslatable("worker_id", "must be the property `return self._worker_id_prefix + str(threading.get_ident())`")
        f = ms.get("_is_issued_by_this_worker")
        if f is None or _args(f) != ["self", "log"] or len(f.body) != 1 or not is_src(f.body[0], 'return log["worker_id"] == self.worker_id'):
            raise Untranslatable("_is_issued_by_this_worker", 'must be `return log["worker_id"] == self.worker_id`')
    except Untranslatable as e:
        problem("issuer test", e)
    # --- helpers and handlers
    defs: list[tuple[str, str, str, str]] = []   # (lean name, python name, rendered, comment)

    def one(pyname: str, params_kind: str | None) -> None:
        lean = HELPERS[pyname][0] if pyname in HELPERS else lean_name(pyname)
        fn = ms.get(pyname)
        try:
            if fn is None:
                raise Untranslatable(pyname, "method not found")
            if fn.decorator_list:
                raise U(fn, "decorated")
            args = _args(fn)
            if params_kind is None:
                if len(args) != 2:
                    raise U(fn, "handler must be (self, log)")
                ctx = Ctx(args[1], {})
            else:
                if len(args) != 3:
                    raise U(fn, "helper must be (self, <id>, log)")
                ctx = Ctx(args[2], {args[1]: params_kind})
            ir = ctx.block(fn.body)
            info["asserts"] += ["%s: assert %s" % (pyname, a) for a in ctx.asserts]
            info["handlers"][pyname] = ir
            defs.append((lean, pyname, r_block(ir, 2), "lines %d-%d" % (fn.lineno, fn.end_lineno or fn.lineno)))
        except Untranslatable as e:
            problem(pyname, e)
            info["handlers"][pyname] = None
            defs.append((lean, pyname, "(.raise unrepresentable)", "UNTRANSLATABLE: %s" % str(e).replace("-/", "- /")))

    for h, (_, kind) in HELPERS.items():
        one(h, kind)
    seen = []
    for _, meth in dispatch:
        if meth not in seen:
            seen.append(meth)
            one(meth, None)
    info.update(opcodes=opcodes, dispatch=dispatch, cursorFirst=cursor_first)
    # --- text
    L = ["import OptunaVerif.Model.JournalIR",
         "/-! GENERATED by verif/translators/tjournal.py from %s on every check run - do not edit. -/" % REL,
         "namespace OptunaVerif.Generated.JournalHandlers",
         "open OptunaVerif OptunaVerif.Storage OptunaVerif.JournalIR", ""]
    for lean, pyname, text, comment in defs:
        L.append("/-- `%s.%s` (%s) -/" % (CLASS, pyname, comment))
        L.append("def %s : Stmt :=\n  %s\n" % (lean, text))
    L.append("/-- `JournalOperation`, the dispatch of `apply_logs`, and the handlers it names -/")
    L.append("def program : Program where")
    L.append("  opCodes := [%s]" % ", ".join('("%s", %d)' % oc for oc in opcodes))
    L.append("  dispatch := [%s]" % ",\n    ".join('("%s", "%s")' % d for d in dispatch))
    L.append("  cursorFirst := %s" % r_bool(cursor_first))
    L.append("  handlers := [%s]" % ",\n    ".join('("%s", %s)' % (m, lean_name(m)) for m in seen))
    L.append("")
    L.append("end OptunaVerif.Generated.JournalHandlers")
    return "\n".join(L) + "\n", info, problems


if __name__ == "__main__":
    import sys

    text, info, problems = translate(sys.argv[1] if len(sys.argv) > 1 else "/repo")
    print(text)
    for p in problems:
        print("-- PROBLEM", p, file=sys.stderr)
