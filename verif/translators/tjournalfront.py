"""T-journalfront (C06): the PUBLIC methods of `JournalStorage` -> Lean DATA (lean/OptunaVerif/Generated/JournalFront.lean).

Read from optuna/storages/journal/_storage.py with Python `ast` on every run:

  every writer   the statements that build the record (dict displays, `log[key] = e`, the `if template_trial:` / `if state == ...` blocks)
                 as `FStmt`s over whitelisted field expressions (`FieldE`) and conditions (`FCond`); the `JournalOperation` member
                 passed to `_write_log`; the step sequences before / inside / after `with self._thread_lock:` (write, sync, reads of
                 `self._replay_result`, the snapshot trigger, the return)
  every getter   the same step sequences (sync, one read of the replay result, return)
  __getstate__ / __setstate__ / restore_replay_result / _write_log / _sync_with_backend   as tables
  JournalStorageReplayResult.get_study / get_all_studies / get_trial / get_all_trials / owned_trial_id   compared literally with the
                 shape the read primitives (`ReadE` in Model/JournalFrontIR.lean) stand for

Anything outside the whitelist raises `Untranslatable`: the method is emitted with `locked := []` (its obligations fail) and
`regenerate` (verif/props/c06_front.py) reports chk.broke("translation", ...).
"""
from __future__ import annotations

import ast
import os
from typing import Any

from verif.translators.tjournal import U, Untranslatable, is_src

REL = "optuna/storages/journal/_storage.py"
CLASS = "JournalStorage"
WRITERS = {
    "create_new_study": ["directions", "study_name"], "delete_study": ["study_id"],
    "set_study_user_attr": ["study_id", "key", "value"], "set_study_system_attr": ["study_id", "key", "value"],
    "create_new_trial": ["study_id", "template_trial"],
    "set_trial_param": ["trial_id", "param_name", "param_value_internal", "distribution"],
    "set_trial_state_values": ["trial_id", "state", "values"],
    "set_trial_intermediate_value": ["trial_id", "step", "intermediate_value"],
    "set_trial_user_attr": ["trial_id", "key", "value"], "set_trial_system_attr": ["trial_id", "key", "value"],
}
GETTERS = {
    "get_study_id_from_name": ["study_name"], "get_study_name_from_id": ["study_id"], "get_study_directions": ["study_id"],
    "get_study_user_attrs": ["study_id"], "get_study_system_attrs": ["study_id"], "get_all_studies": [],
    "get_trial_id_from_study_id_trial_number": ["study_id", "trial_number"], "get_trial": ["trial_id"],
    "get_all_trials": ["study_id", "deepcopy", "states"],
}
NOW = 'datetime.datetime.now().isoformat(timespec="microseconds")'
# value expression (literal source) -> FieldE
FIELD_SRC = {
    "study_name": "studyName", "directions": "directions", "study_id": "studyId", "trial_id": "trialId", "{key: value}": "attrKV",
    NOW: "nowIso", "state": "state", "values": "values", "param_name": "paramName", "param_value_internal": "paramInternal",
    "distribution_to_json(distribution)": "paramDist", "step": "step", "intermediate_value": "interValue", "None": "none",
    "template_trial.state": "tmplState", "template_trial.value": "tmplValue", "template_trial.values": "tmplValues",
    'template_trial.datetime_start.isoformat(timespec="microseconds")': "tmplStartIso",
    'template_trial.datetime_complete.isoformat(timespec="microseconds")': "tmplCompleteIso",
    "{k: distribution_to_json(dist) for k, dist in template_trial.distributions.items()}": "tmplDists",
    "{k: template_trial.distributions[k].to_internal_repr(param) for k, param in template_trial.params.items()}": "tmplInternals",
    "template_trial.user_attrs": "tmplUserAttrs", "template_trial.system_attrs": "tmplSystemAttrs",
    "template_trial.intermediate_values": "tmplInter",
}
COND_SRC = {
    "template_trial": "hasTemplate", "template_trial is not None": "hasTemplate",
    "template_trial.values is not None and len(template_trial.values) > 1": "tmplMultiValues",
    "template_trial.datetime_start": "tmplHasStart", "template_trial.datetime_start is not None": "tmplHasStart",
    "template_trial.datetime_complete": "tmplHasComplete", "template_trial.datetime_complete is not None": "tmplHasComplete",
    "state == TrialState.RUNNING": "stateIsRunning", "state.is_finished()": "stateFinished",
}
REPLAY_LITERAL = {
    "get_study": ["if study_id not in self._studies:\n    raise KeyError(NOT_FOUND_MSG)", "return self._studies[study_id]"],
    "get_all_studies": ["return list(self._studies.values())"],
    "get_trial": ["if trial_id not in self._trials:\n    raise KeyError(NOT_FOUND_MSG)", "return self._trials[trial_id]"],
    "get_all_trials": ["if study_id not in self._studies:\n    raise KeyError(NOT_FOUND_MSG)", "frozen_trials: list[FrozenTrial] = []",
                       "for trial_id in self._study_id_to_trial_ids[study_id]:\n    trial = self._trials[trial_id]\n"
                       "    if states is None or trial.state in states:\n        frozen_trials.append(trial)", "return frozen_trials"],
    "owned_trial_id": ["return self._worker_id_to_owned_trial_id.get(self.worker_id)"],
}


def strip_doc(body: list[ast.stmt]) -> list[ast.stmt]:
    if body and isinstance(body[0], ast.Expr) and isinstance(body[0].value, ast.Constant) and isinstance(body[0].value.value, str):
        return body[1:]
    return body


def is_lock_with(st: ast.stmt) -> bool:
    return isinstance(st, ast.With) and len(st.items) == 1 and st.items[0].optional_vars is None and is_src(st.items[0].context_expr, "self._thread_lock")


def is_logger(st: ast.stmt) -> bool:
    return isinstance(st, ast.Expr) and isinstance(st.value, ast.Call) and isinstance(st.value.func, ast.Attribute) \
        and isinstance(st.value.func.value, ast.Name) and st.value.func.value.id == "_logger"


class M:
    """one public method"""

    def __init__(self, fn: ast.FunctionDef, writer: bool) -> None:
        self.fn = fn
        self.writer = writer
        self.log: list[Any] = []
        self.logvar: str | None = None
        self.before: list[Any] = []
        self.locked: list[Any] = []
        self.after: list[Any] = []
        self.idlocal: dict[str, bool] = {}   # local bound by a read -> is it a study id

    # ---- record building ----
    def field(self, n: ast.AST) -> str:
        for text, f in FIELD_SRC.items():
            if is_src(n, text):
                return f
        raise U(n, "record field expression is not whitelisted")

    def fcond(self, n: ast.AST) -> str:
        for text, c in COND_SRC.items():
            if is_src(n, text):
                return c
        raise U(n, "condition on the record is not whitelisted")

    def dict_display(self, d: ast.Dict) -> list[Any]:
        out = []
        for k, v in zip(d.keys, d.values):
            if not (isinstance(k, ast.Constant) and isinstance(k.value, str)):
                raise U(d, "record keys must be string constants")
            out.append(("set", k.value, self.field(v)))
        return out

    def log_stmt(self, st: ast.stmt) -> list[Any] | None:
        """a statement that fills the record -> FStmts (None: it is not one)"""
        tgt = st.target if isinstance(st, ast.AnnAssign) else st.targets[0] if isinstance(st, ast.Assign) and len(st.targets) == 1 else None
        v = st.value if isinstance(st, (ast.Assign, ast.AnnAssign)) else None
        if isinstance(tgt, ast.Name) and isinstance(v, ast.Dict) and (self.logvar in (None, tgt.id)):
            if self.logvar is not None:
                raise U(st, "the record is built twice")
            self.logvar = tgt.id
            return self.dict_display(v)
        if isinstance(tgt, ast.Subscript) and isinstance(tgt.value, ast.Name) and tgt.value.id == self.logvar and isinstance(tgt.slice, ast.Constant) \
                and isinstance(tgt.slice.value, str) and v is not None:
            return [("set", tgt.slice.value, self.field(v))]
        if isinstance(st, ast.If) and self.logvar is not None:
            try:
                c = self.fcond(st.test)
            except Untranslatable:
                return None
            t = self.log_block(st.body)
            e = self.log_block(st.orelse)
            return [("ite", c, t, e)]
        return None

    def log_block(self, body: list[ast.stmt]) -> list[Any]:
        out: list[Any] = []
        for st in body:
            r = self.log_stmt(st)
            if r is None:
                raise U(st, "only assignments to the record inside a record-building block")
            out += r
        return out

    # ---- steps ----
    def snapshot_if(self, st: ast.stmt) -> tuple[bool, bool] | None:
        """the snapshot trigger -> (onStudy, nested lock)"""
        if not isinstance(st, ast.If) or st.orelse or len(st.body) != 1:
            return None
        for name, on_study in self.idlocal.items():
            if is_src(st.test, "isinstance(self._backend, BaseJournalSnapshot) and %s != 0 and %s %% SNAPSHOT_INTERVAL == 0" % (name, name)):
                b = st.body[0]
                save = "self._backend.save_snapshot(pickle.dumps(self._replay_result))"
                if is_src(b, save):
                    return on_study, False
                if is_lock_with(b) and len(b.body) == 1 and is_src(b.body[0], save):
                    return on_study, True
        return None

    def steps(self, body: list[ast.stmt], where: str) -> list[Any]:
        out: list[Any] = []
        i = 0
        while i < len(body):
            st = body[i]
            nxt = body[i + 1] if i + 1 < len(body) else None
            if is_logger(st) or isinstance(st, ast.Pass):
                i += 1
                continue
            # --- record building (writers, before the lock)
            if self.writer and where == "before":
                if is_src(st, "study_name = study_name or DEFAULT_STUDY_NAME_PREFIX + str(uuid.uuid4())"):
                    out.append("normaliseName")
                    i += 1
                    continue
                r = self.log_stmt(st)
                if r is not None:
                    self.log += r
                    if "buildLog" not in out:
                        out.append("buildLog")
                    i += 1
                    continue
            # --- self._write_log(JournalOperation.X, <log | dict display>)
            if isinstance(st, ast.Expr) and isinstance(st.value, ast.Call) and is_src(st.value.func, "self._write_log") and len(st.value.args) == 2 \
                    and not st.value.keywords:
                a0, a1 = st.value.args
                if not (isinstance(a0, ast.Attribute) and isinstance(a0.value, ast.Name) and a0.value.id == "JournalOperation"):
                    raise U(st, "_write_log must be given a JournalOperation member")
                if isinstance(a1, ast.Dict):
                    if self.logvar is not None:
                        raise U(st, "the record is built twice")
                    self.log += self.dict_display(a1)
                    self.logvar = "<inline>"
                elif not (isinstance(a1, ast.Name) and a1.id == self.logvar):
                    raise U(st, "_write_log must be given the record built above")
                out.append(("writeLog", a0.attr))
                i += 1
                continue
            if is_src(st, "self._sync_with_backend()"):
                out.append("sync")
                i += 1
                continue
            # --- reads of the replay result
            if isinstance(st, ast.Assign) and len(st.targets) == 1 and isinstance(st.targets[0], ast.Name):
                name = st.targets[0].id
                if is_src(st.value, "self._replay_result._last_created_trial_id_by_this_process"):
                    self.idlocal[name] = False
                    out.append(("read", "lastCreated"))
                    i += 1
                    continue
                if is_src(st.value, "self._replay_result.get_all_trials(study_id, states)") and nxt is not None \
                        and is_src(nxt, "if deepcopy:\n    return copy.deepcopy(%s)" % name) and i + 2 < len(body) and is_src(body[i + 2], "return %s" % name):
                    out += [("read", "allTrials"), "retLocal"]
                    i += 3
                    continue
            sn = self.snapshot_if(st)
            if sn is not None:
                out.append(("lockedSnapshot" if sn[1] else "snapshot", sn[0]))
                i += 1
                continue
            if is_src(st, "if state == TrialState.RUNNING and trial_id != self._replay_result.owned_trial_id:\n    return False\nelse:\n    return True"):
                out += [("read", "claimAnswer"), "retLocal"]
                i += 1
                continue
            # create_new_study: the loop that finds the id of the study just created
            if isinstance(st, ast.For) and is_src(st.iter, "self._replay_result.get_all_studies()") and isinstance(st.target, ast.Name) and not st.orelse:
                v = st.target.id
                b = [x for x in st.body if not is_logger(x)]
                if len(b) >= 3 and is_src(b[0], "if %s.study_name != study_name:\n    continue" % v) and isinstance(b[1], ast.Assign) \
                        and len(b[1].targets) == 1 and isinstance(b[1].targets[0], ast.Name) and is_src(b[1].value, "%s._study_id" % v) \
                        and nxt is not None and is_src(nxt, 'assert False, "Should not reach."'):
                    sid = b[1].targets[0].id
                    self.idlocal[sid] = True
                    seq: list[Any] = [("read", ("studyIdByName", True))]
                    rest = b[2:]
                    if len(rest) == 2:
                        sn = self.snapshot_if(rest[0])
                        if sn is None:
                            raise U(rest[0], "only the snapshot trigger between finding the study and returning its id")
                        seq.append(("lockedSnapshot" if sn[1] else "snapshot", sn[0]))
                        rest = rest[1:]
                    if len(rest) == 1 and is_src(rest[0], "return %s" % sid):
                        out += seq + ["retLocal"]
                        i += 2
                        continue
                if len(b) == 1 and is_src(b[0], "if %s.study_name == study_name:\n    return %s._study_id" % (v, v)) and nxt is not None \
                        and is_src(nxt, "raise KeyError(NOT_FOUND_MSG)"):
                    out += [("read", ("studyIdByName", False)), "retLocal"]
                    i += 2
                    continue
                raise U(st, "loop over get_all_studies() is not one of the two whitelisted searches by name")
            if isinstance(st, ast.Return):
                v = st.value
                if v is None:
                    out.append("retNone")
                    i += 1
                    continue
                if isinstance(v, ast.Name) and v.id in self.idlocal:
                    out.append("retLocal")
                    i += 1
                    continue
                for f, r in (("study_name", "studyName"), ("directions", "studyDirections"), ("user_attrs", "studyUserAttrs"),
                             ("system_attrs", "studySystemAttrs")):
                    if is_src(v, "self._replay_result.get_study(study_id).%s" % f):
                        out += [("read", r), "retLocal"]
                        break
                else:
                    if is_src(v, "copy.deepcopy(self._replay_result.get_all_studies())"):
                        out += [("read", "allStudies"), "retLocal"]
                    elif is_src(v, "self._replay_result.get_trial(trial_id)"):
                        out += [("read", "trial"), "retLocal"]
                    elif is_src(v, "self._replay_result._study_id_to_trial_ids[study_id][trial_number]") and out and out[-1] == ("read", "trialIdByNumber"):
                        out.append("retLocal")
                    else:
                        raise U(st, "returned expression is not whitelisted")
                i += 1
                continue
            if isinstance(st, ast.If) and isinstance(st.test, ast.Compare) and is_src(
                    st.test, "len(self._replay_result._study_id_to_trial_ids[study_id]) <= trial_number") and not st.orelse and len(st.body) == 1 \
                    and isinstance(st.body[0], ast.Raise) and isinstance(st.body[0].exc, ast.Call) and is_src(st.body[0].exc.func, "KeyError"):
                out.append(("read", "trialIdByNumber"))
                i += 1
                continue
            raise U(st, "statement is not whitelisted (%s the lock)" % where)
        return out

    def translate(self) -> None:
        body = strip_doc(self.fn.body)
        idx = [k for k, st in enumerate(body) if is_lock_with(st)]
        if len(idx) != 1:
            raise U(self.fn, "exactly one top-level `with self._thread_lock:` expected")
        k = idx[0]
        self.before = self.steps(body[:k], "before")
        self.locked = self.steps(body[k].body, "inside")  # type: ignore[attr-defined]
        self.after = self.steps(body[k + 1:], "after")


# ---- rendering --------------------------------------------------------------------------------------------------
def r_bool(b: bool) -> str:
    return "true" if b else "false"


def r_fstmts(l: list[Any]) -> str:
    return "[" + ", ".join(r_fstmt(s) for s in l) + "]"


def r_fstmt(s: Any) -> str:
    if s[0] == "set":
        return '.set "%s" .%s' % (s[1], s[2])
    return ".ite .%s %s %s" % (s[1], r_fstmts(s[2]), r_fstmts(s[3]))


def r_step(s: Any) -> str:
    if isinstance(s, str):
        return "." + s
    if s[0] == "writeLog":
        return '.writeLog "%s"' % s[1]
    if s[0] == "read":
        r = s[1]
        return ".read .%s" % r if isinstance(r, str) else ".read (.%s %s)" % (r[0], r_bool(r[1]))
    return ".%s %s" % (s[0], r_bool(s[1]))


def r_steps(l: list[Any]) -> str:
    return "[" + ", ".join(r_step(s) for s in l) + "]"


def translate(repo: str) -> tuple[str, dict[str, Any], list[dict[str, str]]]:
    problems: list[dict[str, str]] = []
    tree = ast.parse(open(os.path.join(repo, REL)).read())
    cdef = next((n for n in tree.body if isinstance(n, ast.ClassDef) and n.name == CLASS), None)
    rdef = next((n for n in tree.body if isinstance(n, ast.ClassDef) and n.name == "JournalStorageReplayResult"), None)
    if cdef is None or rdef is None:
        raise Untranslatable(CLASS, "class not found in %s" % REL)
    ms = {n.name: n for n in cdef.body if isinstance(n, ast.FunctionDef)}
    rs = {n.name: n for n in rdef.body if isinstance(n, ast.FunctionDef)}

    def problem(what: str, e: Exception) -> None:
        problems.append({"what": what, "why": str(e)})

    # --- the replay result's getters must be what the read primitives stand for
    for name, texts in REPLAY_LITERAL.items():
        fn = rs.get(name)
        body = strip_doc(fn.body) if fn is not None else []
        if fn is None or len(body) != len(texts) or not all(is_src(b, t) for b, t in zip(body, texts)):
            problems.append({"what": "JournalStorageReplayResult.%s" % name, "why": "is not literally the shape the read primitives stand for"})
    methods: list[tuple[str, M | None, str]] = []
    for name, params in list(WRITERS.items()) + list(GETTERS.items()):
        fn = ms.get(name)
        try:
            if fn is None:
                raise Untranslatable(name, "method not found")
            a = fn.args
            if fn.decorator_list or a.vararg or a.kwarg or a.kwonlyargs or a.posonlyargs or [x.arg for x in a.args] != ["self"] + params:
                raise U(fn, "parameters %s, expected %s" % ([x.arg for x in a.args][1:], params))
            m = M(fn, name in WRITERS)
            m.translate()
            methods.append((name, m, "lines %d-%d" % (fn.lineno, fn.end_lineno or fn.lineno)))
        except Untranslatable as e:
            problem(name, e)
            methods.append((name, None, "UNTRANSLATABLE: %s" % str(e).replace("-/", "- /")))
    # --- tables
    drops: list[str] = []
    sets: list[tuple[str, str]] = []
    restore: list[tuple[str, str]] = []
    wkeys: list[tuple[str, str]] = []
    sync: list[str] = []
    try:
        g = ms.get("__getstate__")
        body = strip_doc(g.body) if g is not None else []
        if g is None or not body or not is_src(body[0], "state = self.__dict__.copy()") or not is_src(body[-1], "return state"):
            raise Untranslatable("__getstate__", "must be `state = self.__dict__.copy(); del state[...]...; return state`")
        for st in body[1:-1]:
            if isinstance(st, ast.Delete) and len(st.targets) == 1 and isinstance(st.targets[0], ast.Subscript) and is_src(st.targets[0].value, "state") \
                    and isinstance(st.targets[0].slice, ast.Constant) and isinstance(st.targets[0].slice.value, str):
                drops.append(st.targets[0].slice.value)
            else:
                raise U(st, "__getstate__: only `del state[\"<attr>\"]`")
    except Untranslatable as e:
        problem("__getstate__", e)
    try:
        s = ms.get("__setstate__")
        body = strip_doc(s.body) if s is not None else []
        if s is None or not body or not is_src(body[0], "self.__dict__.update(state)"):
            raise Untranslatable("__setstate__", "must start with `self.__dict__.update(state)`")
        for st in body[1:]:
            if isinstance(st, ast.Assign) and len(st.targets) == 1 and isinstance(st.targets[0], ast.Attribute) and is_src(st.targets[0].value, "self"):
                sets.append((st.targets[0].attr, ast.unparse(st.value).replace('"', "'")))
            else:
                raise U(st, "__setstate__: only `self.<attr> = <expr>`")
    except Untranslatable as e:
        problem("__setstate__", e)
    try:
        r = ms.get("restore_replay_result")
        if r is None or [x.arg for x in r.args.args] != ["self", "snapshot"]:
            raise Untranslatable("restore_replay_result", "method (self, snapshot) not found")
        seen_assign = False
        for st in strip_doc(r.body):
            if isinstance(st, ast.Assign) and len(st.targets) == 1 and isinstance(st.targets[0], ast.Attribute) and isinstance(st.targets[0].value, ast.Name) \
                    and st.targets[0].value.id in ("r", "self"):
                seen_assign = True
                restore.append(("%s.%s" % (st.targets[0].value.id, st.targets[0].attr), ast.unparse(st.value).replace('"', "'")))
            elif isinstance(st, (ast.Try, ast.If)) and not seen_assign:
                for x in ast.walk(st):
                    if isinstance(x, (ast.Assign, ast.AugAssign)) and not (isinstance(x, ast.Assign) and is_src(x.targets[0], "r")):
                        raise U(x, "restore_replay_result: assignment inside the loading / checking part")
            else:
                raise U(st, "restore_replay_result: only the loading try, the checks, then attribute assignments")
    except Untranslatable as e:
        problem("restore_replay_result", e)
    try:
        wl = ms.get("_write_log")
        body = strip_doc(wl.body) if wl is not None else []
        if wl is None or [x.arg for x in wl.args.args] != ["self", "op_code", "extra_fields"] or len(body) != 2 or not is_src(
                body[0], "worker_id = self._replay_result.worker_id") or not is_src(
                body[1], 'self._backend.append_logs([{"op_code": op_code, "worker_id": worker_id, **extra_fields}])'):
            raise Untranslatable("_write_log", "is not `append_logs([{op_code, worker_id, **extra_fields}])` with worker_id = self._replay_result.worker_id")
        wkeys = [("op_code", "op_code"), ("worker_id", "self._replay_result.worker_id")]
        sy = ms.get("_sync_with_backend")
        body = strip_doc(sy.body) if sy is not None else []
        if sy is None or len(body) != 2 or not is_src(body[0], "logs = self._backend.read_logs(self._replay_result.log_number_read)") or not is_src(
                body[1], "self._replay_result.apply_logs(logs)"):
            raise Untranslatable("_sync_with_backend", "is not read_logs(log_number_read) + apply_logs(logs)")
        sync = ["self._backend.read_logs(self._replay_result.log_number_read)", "self._replay_result.apply_logs(logs)"]
    except Untranslatable as e:
        problem("_write_log/_sync_with_backend", e)

    info = {"methods": {n: (None if m is None else {"log": m.log, "before": m.before, "locked": m.locked, "after": m.after}) for n, m, _ in methods},
            "getstateDrops": drops, "setstateSets": sets, "restoreSets": restore}
    L = ["import OptunaVerif.Model.JournalFrontIR",
         "/-! GENERATED by verif/translators/tjournalfront.py from %s on every check run - do not edit. -/" % REL,
         "namespace OptunaVerif.Generated.JournalFront", "open OptunaVerif OptunaVerif.JournalFrontIR", ""]
    names = []
    for name, m, comment in methods:
        lean = "m_" + name
        names.append(lean)
        L.append("/-- `JournalStorage.%s` (%s) -/" % (name, comment))
        L.append("def %s : Method where" % lean)
        L.append('  name := "%s"' % name)
        if m is None:
            L += ["  log := []", "  before := []", "  locked := []", "  after := []", ""]
        else:
            L += ["  log := %s" % r_fstmts(m.log), "  before := %s" % r_steps(m.before), "  locked := %s" % r_steps(m.locked),
                  "  after := %s" % r_steps(m.after), ""]
    L.append("def program : Program where")
    L.append("  methods := [%s]" % ", ".join(names))
    L.append("  getstateDrops := [%s]" % ", ".join('"%s"' % d for d in drops))
    L.append("  setstateSets := [%s]" % ", ".join('("%s", "%s")' % x for x in sets))
    L.append("  restoreSets := [%s]" % ", ".join('("%s", "%s")' % x for x in restore))
    L.append("  writeLogKeys := [%s]" % ", ".join('("%s", "%s")' % x for x in wkeys))
    L.append("  syncCalls := [%s]" % ", ".join('"%s"' % x for x in sync))
    L += ["", "end OptunaVerif.Generated.JournalFront"]
    return "\n".join(L) + "\n", info, problems


if __name__ == "__main__":
    import sys

    text, info, problems = translate(sys.argv[1] if len(sys.argv) > 1 else "/repo")
    print(text)
    for p in problems:
        print("-- PROBLEM", p, file=sys.stderr)
