"""T-int for TPE's split arithmetic (optuna/samplers/_tpe/sampler.py) -> lean/OptunaVerif/Generated/TpeInt.lean.

Regenerated from `core.REPO` with `ast` on every run; Props/C13TpeGen.lean proves every generated definition equal to
the hand model (Model/TpeSplit.lean), so an edit of the source that changes one of them breaks a proof.

  default_gamma            `min(int(np.ceil(C * x)), K)`           -> defaultGamma  x := min ⌈C·x⌉ K      (C the decimal literal as written)
  hyperopt_default_gamma   `min(int(np.ceil(C * np.sqrt(x))), K)`  -> hyperoptGamma x := min ⌈C·√x⌉ K     (⌈(p/q)·√x⌉ = ⌈⌈√(p²x)⌉/q⌉)
  default_weights          the if / elif / else over `np.asarray([])`, `np.ones(n)`, `np.linspace(a, b, num=n)`,
                           `np.concatenate([..], axis=0)`           -> defaultWeights (numpy primitives = the model's)
  _split_trials            the classification if-chain (tests and target lists, verbatim, in order), the two quota updates
                           `n_below = max(0, n_below - len(below_X))` -> quota, the two concatenations (operands in order),
                           the two `sort(key=lambda trial: trial.number)`
  _split_complete_trials / _split_pruned_trials / _split_infeasible_trials
                           `n_below = min(n_below, len(trials))` -> clip, the slices `sorted_trials[:n_below], sorted_trials[n_below:]`,
                           the `sorted(...)` calls (key and `reverse`) verbatim
  _get_pruned_trial_score  the returned tuples, verbatim, in order
  TPESampler._sample       the two `states` lists, `n = sum(trial.state != TrialState.RUNNING for trial in trials)`, the call
                           `_split_trials(study, trials, self._gamma(n), self._constraints_func is not None)`
Whitelisted shapes only; anything else raises Untranslatable -> chk.broke("translation").
"""
from __future__ import annotations

import ast
import os
from fractions import Fraction
from typing import Any

from verif import core

GEN_PATH = os.path.join(core.LEAN_DIR, "OptunaVerif", "Generated", "TpeInt.lean")


class Untranslatable(Exception):
    pass


def norm(node: ast.AST) -> str:
    return " ".join(ast.unparse(node).split())


def lean_str(s: str) -> str:
    return '"' + s.replace("\\", "\\\\").replace('"', '\\"') + '"'


def find(mod: ast.Module, name: str, cls: str | None = None) -> ast.FunctionDef:
    body = mod.body
    if cls:
        for n in mod.body:
            if isinstance(n, ast.ClassDef) and n.name == cls:
                body = n.body
                break
        else:
            raise Untranslatable("class %s not found" % cls)
    for n in body:
        if isinstance(n, ast.FunctionDef) and n.name == name:
            return n
    raise Untranslatable("function %s not found" % name)


def stmts(fn: ast.FunctionDef) -> list[ast.stmt]:
    return [s for s in fn.body if not (isinstance(s, ast.Expr) and isinstance(s.value, ast.Constant) and isinstance(s.value.value, str))]


def dec_literal(node: ast.AST, src: str) -> Fraction:
    """a float literal as the decimal the source spells (0.1 -> 1/10), not the double"""
    if not (isinstance(node, ast.Constant) and isinstance(node.value, (int, float)) and not isinstance(node.value, bool)):
        raise Untranslatable("numeric literal expected, got `%s`" % norm(node))
    text = ast.get_source_segment(src, node)
    try:
        return Fraction(text)
    except (ValueError, TypeError):
        raise Untranslatable("literal `%s`" % text)


def rat(fr: Fraction) -> str:
    return "((%d : Rat) / %d)" % (fr.numerator, fr.denominator)


def gen_gamma(fn: ast.FunctionDef, src: str, lean_name: str) -> str:
    body = stmts(fn)
    if [a.arg for a in fn.args.args] != ["x"] or len(body) != 1 or not isinstance(body[0], ast.Return):
        raise Untranslatable("%s: shape" % fn.name)
    e = body[0].value
    # min(int(np.ceil(C * ARG)), K)
    if not (isinstance(e, ast.Call) and norm(e.func) == "min" and len(e.args) == 2 and not e.keywords):
        raise Untranslatable("%s: min(..., K) expected: %s" % (fn.name, norm(e)))
    inner, cap = e.args
    if not (isinstance(cap, ast.Constant) and isinstance(cap.value, int) and cap.value >= 0):
        raise Untranslatable("%s: cap `%s`" % (fn.name, norm(cap)))
    if not (isinstance(inner, ast.Call) and norm(inner.func) == "int" and len(inner.args) == 1
            and isinstance(inner.args[0], ast.Call) and norm(inner.args[0].func) == "np.ceil" and len(inner.args[0].args) == 1):
        raise Untranslatable("%s: int(np.ceil(...)) expected: %s" % (fn.name, norm(inner)))
    prod = inner.args[0].args[0]
    if not (isinstance(prod, ast.BinOp) and isinstance(prod.op, ast.Mult)):
        raise Untranslatable("%s: product expected: %s" % (fn.name, norm(prod)))
    c = dec_literal(prod.left, src)
    if c < 0:
        raise Untranslatable("negative coefficient")
    arg = norm(prod.right)
    if arg == "x":
        val = "(Rat.ceil (%s * (x : Rat))).toNat" % rat(c)
    elif arg == "np.sqrt(x)":
        # ⌈(p/q)·√x⌉ = ⌈⌈√(p²x)⌉ / q⌉
        val = "((ceilSqrt (%d * %d * x) + (%d - 1)) / %d)" % (c.numerator, c.numerator, c.denominator, c.denominator)
    else:
        raise Untranslatable("%s: argument `%s`" % (fn.name, arg))
    return "/-- `%s`: `%s` -/\ndef %s (x : Nat) : Nat := min %s %d\n" % (fn.name, norm(body[0]), lean_name, val, cap.value)


def nat_expr(node: ast.AST) -> str:
    if isinstance(node, ast.Name) and node.id == "x":
        return "x"
    if isinstance(node, ast.Constant) and isinstance(node.value, int) and not isinstance(node.value, bool) and node.value >= 0:
        return "%d" % node.value
    if isinstance(node, ast.BinOp) and isinstance(node.op, (ast.Sub, ast.Add)):
        return "(%s %s %s)" % (nat_expr(node.left), "-" if isinstance(node.op, ast.Sub) else "+", nat_expr(node.right))
    raise Untranslatable("natural-number expression `%s`" % norm(node))


def rat_expr(node: ast.AST, src: str) -> str:
    if isinstance(node, ast.Constant):
        return rat(dec_literal(node, src))
    if isinstance(node, ast.Name) and node.id == "x":
        return "(x : Rat)"
    if isinstance(node, ast.BinOp) and isinstance(node.op, ast.Div):
        return "(%s / %s)" % (rat_expr(node.left, src), rat_expr(node.right, src))
    raise Untranslatable("rational expression `%s`" % norm(node))


def arr_expr(node: ast.AST, src: str, env: dict[str, str]) -> str:
    if isinstance(node, ast.Name) and node.id in env:
        return node.id
    if isinstance(node, ast.Call):
        f = norm(node.func)
        if f == "np.asarray" and len(node.args) == 1 and norm(node.args[0]) == "[]" and not node.keywords:
            return "([] : List Rat)"
        if f == "np.ones" and len(node.args) == 1 and not node.keywords:
            return "(List.replicate %s (1 : Rat))" % nat_expr(node.args[0])
        if f == "np.linspace" and len(node.args) == 2 and [k.arg for k in node.keywords] == ["num"]:
            return "(linspace %s %s %s)" % (rat_expr(node.args[0], src), rat_expr(node.args[1], src), nat_expr(node.keywords[0].value))
        if f == "np.concatenate" and len(node.args) == 1 and isinstance(node.args[0], ast.List) \
                and [(k.arg, norm(k.value)) for k in node.keywords] == [("axis", "0")]:
            return "(" + " ++ ".join(arr_expr(e, src, env) for e in node.args[0].elts) + ")"
    raise Untranslatable("array expression `%s`" % norm(node))


def cond_expr(node: ast.AST) -> str:
    if isinstance(node, ast.Compare) and len(node.ops) == 1:
        op = {ast.Eq: "=", ast.Lt: "<", ast.LtE: "≤", ast.Gt: ">", ast.GtE: "≥"}.get(type(node.ops[0]))
        if op:
            return "%s %s %s" % (nat_expr(node.left), op, nat_expr(node.comparators[0]))
    raise Untranslatable("condition `%s`" % norm(node))


def weights_block(body: list[ast.stmt], src: str, env: dict[str, str], ind: str) -> str:
    if not body:
        raise Untranslatable("default_weights: falls off the end")
    s, rest = body[0], body[1:]
    if isinstance(s, ast.Return):
        return ind + arr_expr(s.value, src, env)
    if isinstance(s, ast.Assign) and len(s.targets) == 1 and isinstance(s.targets[0], ast.Name):
        name = s.targets[0].id
        line = "%slet %s : List Rat := %s" % (ind, name, arr_expr(s.value, src, env))
        return line + "\n" + weights_block(rest, src, dict(env, **{name: name}), ind)
    if isinstance(s, ast.If) and not rest:
        return "%sif %s then\n%s\n%selse\n%s" % (ind, cond_expr(s.test), weights_block(s.body, src, env, ind + "  "), ind,
                                                   weights_block(s.orelse, src, env, ind + "  "))
    raise Untranslatable("default_weights: statement `%s`" % norm(s)[:80])


def gen_weights(fn: ast.FunctionDef, src: str) -> str:
    if [a.arg for a in fn.args.args] != ["x"]:
        raise Untranslatable("default_weights parameters")
    return ("/-- `default_weights` (numpy primitives are the model's: `np.ones(n)` = n ones, `np.linspace` = `TpeSplit.linspace`) -/\n"
            "def defaultWeights (x : Nat) : List Rat :=\n%s\n" % weights_block(stmts(fn), src, {}, "  "))


def int_expr(node: ast.AST, names: dict[str, str]) -> str:
    key = norm(node)
    if key in names:
        return names[key]
    if isinstance(node, ast.Constant) and isinstance(node.value, int) and not isinstance(node.value, bool):
        return "(%d : Int)" % node.value
    if isinstance(node, ast.BinOp) and isinstance(node.op, (ast.Sub, ast.Add)):
        return "(%s %s %s)" % (int_expr(node.left, names), "-" if isinstance(node.op, ast.Sub) else "+", int_expr(node.right, names))
    if isinstance(node, ast.Call) and norm(node.func) in ("max", "min") and len(node.args) == 2 and not node.keywords:
        return "(%s %s %s)" % (norm(node.func), int_expr(node.args[0], names), int_expr(node.args[1], names))
    raise Untranslatable("integer expression `%s`" % key)


def gen_split(mod: ast.Module) -> tuple[str, list[str]]:
    out: list[str] = []
    pinned: list[str] = []
    fn = find(mod, "_split_trials")
    body = stmts(fn)
    # classification chain
    loop = next((s for s in body if isinstance(s, ast.For)), None)
    if loop is None or norm(loop.target) != "trial" or norm(loop.iter) != "trials" or len(loop.body) != 1 or not isinstance(loop.body[0], ast.If):
        raise Untranslatable("_split_trials: classification loop")
    chain: list[tuple[str, str]] = []
    node: Any = loop.body[0]
    while True:
        acts = [s for s in node.body if not (isinstance(s, ast.Expr) and isinstance(s.value, ast.Constant))]
        if len(acts) != 1 or not (isinstance(acts[0], ast.Expr) and isinstance(acts[0].value, ast.Call)
                                  and isinstance(acts[0].value.func, ast.Attribute) and acts[0].value.func.attr == "append"
                                  and norm(acts[0].value.args[0]) == "trial"):
            raise Untranslatable("_split_trials: branch body `%s`" % norm(node.body[-1])[:80])
        chain.append((norm(node.test), norm(acts[0].value.func.value)))
        if len(node.orelse) == 1 and isinstance(node.orelse[0], ast.If):
            node = node.orelse[0]
            continue
        if [norm(s) for s in node.orelse] != ["assert False"]:
            raise Untranslatable("_split_trials: final else `%s`" % [norm(s) for s in node.orelse])
        break
    out.append("/-- the classification if-chain of `_split_trials`: (test, list the trial is appended to); the final `else` is `assert False` -/\n"
               "def classifyChain : List (String × String) := [\n%s\n]\n" % ",\n".join("  (%s, %s)" % (lean_str(a), lean_str(b)) for a, b in chain))
    # the rest, in order
    quotas = 0
    for s in body:
        if isinstance(s, ast.Assign) and norm(s.targets[0]) == "n_below":
            v = s.value
            lenarg = None
            for n in ast.walk(v):
                if isinstance(n, ast.Call) and norm(n.func) == "len":
                    lenarg = norm(n)
            if lenarg is None:
                raise Untranslatable("_split_trials: n_below update `%s`" % norm(s))
            e = int_expr(v, {"n_below": "n_below", lenarg: "len_below"})
            if quotas == 0:
                out.append("/-- `%s` (and the same with the pruned half) -/\ndef quota (n_below len_below : Int) : Int := %s\n" % (norm(s), e))
                first = e
            elif e != first:
                raise Untranslatable("_split_trials: the two quota updates differ: `%s`" % norm(s))
            quotas += 1
            pinned.append(norm(s))
        elif isinstance(s, (ast.Assign, ast.Expr, ast.Return)) and not isinstance(s, ast.For):
            if isinstance(s, ast.Assign) and isinstance(s.value, ast.List) and not s.value.elts:
                continue  # the four `xs = []`
            pinned.append(norm(s))
    if quotas != 2:
        raise Untranslatable("_split_trials: %d quota updates" % quotas)
    # clip + slices of the three sub-splits
    clips = []
    for name in ("_split_complete_trials", "_split_pruned_trials", "_split_infeasible_trials"):
        f = find(mod, name)
        b = stmts(f)
        if not (isinstance(b[0], ast.Assign) and norm(b[0].targets[0]) == "n_below"):
            raise Untranslatable("%s: first statement `%s`" % (name, norm(b[0])))
        clips.append(int_expr(b[0].value, {"n_below": "n_below", "len(trials)": "len_trials"}))
        pinned += ["%s: %s" % (name, norm(x)) for x in b[1:]]
    if len(set(clips)) != 1:
        raise Untranslatable("the three clips differ: %s" % clips)
    out.append("/-- `n_below = min(n_below, len(trials))` of `_split_complete_trials`, `_split_pruned_trials`, `_split_infeasible_trials` -/\n"
               "def clip (n_below len_trials : Int) : Int := %s\n" % clips[0])
    f = find(mod, "_split_complete_trials_single_objective")
    pinned += ["_split_complete_trials_single_objective: %s" % norm(x) for x in stmts(f)]
    f = find(mod, "_get_pruned_trial_score")
    pinned += ["_get_pruned_trial_score: %s" % norm(x) for x in stmts(f)]
    f = find(mod, "_get_infeasible_trial_score")
    pinned += ["_get_infeasible_trial_score: %s" % norm(n) for n in ast.walk(f) if isinstance(n, ast.Return)]
    f = find(mod, "_split_complete_trials_multi_objective")
    keep = ("n_below == 0", "n_below == len(trials)", "lvals *=", "last_rank_before_tiebreak =", "indices_below =", "need_tiebreak =",
            "subset_size =", "selected_indices =", "below_trials =", "above_trials =", "nondomination_ranks =", "if indices_below.size < n_below")
    for n in ast.walk(f):
        if isinstance(n, (ast.Assign, ast.AugAssign, ast.If)):
            t = norm(n.test) if isinstance(n, ast.If) else norm(n)
            t = "if " + t if isinstance(n, ast.If) else t
            if any(k in t for k in keep):
                pinned.append("_split_complete_trials_multi_objective: %s" % t)
    # _sample
    f = find(mod, "_sample", "TPESampler")
    for s in stmts(f):
        t = norm(s)
        if t.startswith("if self._constant_liar") or t.startswith("n = sum(") or "_split_trials(" in t or t.startswith("trials = study._get_trials"):
            pinned.append("_sample: %s" % t)
    return "\n".join(out), pinned


def generate() -> str:
    path = os.path.join(core.REPO, "optuna", "samplers", "_tpe", "sampler.py")
    with open(path) as f:
        src = f.read()
    mod = ast.parse(src, filename=path)
    split_text, pinned = gen_split(mod)
    parts = [
        "-- generated by verif/translators/tpe_int.py from optuna/samplers/_tpe/sampler.py; do not edit",
        "import OptunaVerif.Model.TpeSplit",
        "/-! Integer / structural kernels of TPE's trial split and weighting, regenerated from the Python source on every run (C13 / C09). -/",
        "set_option linter.unusedVariables false",
        "namespace OptunaVerif.Generated.TpeInt",
        "open OptunaVerif.TpeSplit (ceilSqrt linspace)",
        "",
        gen_gamma(find(mod, "default_gamma"), src, "defaultGamma"),
        gen_gamma(find(mod, "hyperopt_default_gamma"), src, "hyperoptGamma"),
        gen_weights(find(mod, "default_weights"), src),
        split_text,
        "/-- the statements of the split pipeline whose TEXT is pinned (their meaning is the hand model's, tied by the correspondence) -/",
        "def pinned : List String := [\n%s\n]" % ",\n".join("  " + lean_str(p) for p in pinned),
        "",
        "end OptunaVerif.Generated.TpeInt",
        "",
    ]
    return "\n".join(parts)


def regenerate(chk: Any) -> None:
    try:
        text = generate()
    except Untranslatable as e:
        chk.broke("translation", {"translator": "tpe_int", "why": str(e)})
        return
    except (OSError, SyntaxError) as e:
        chk.broke("translation", {"translator": "tpe_int", "why": "%s: %s" % (type(e).__name__, e)})
        return
    changed = core.write_if_changed(GEN_PATH, text)
    chk.translated += ["optuna/samplers/_tpe/sampler.py::default_gamma, hyperopt_default_gamma, default_weights, _split_trials (classification chain, "
                       "quota arithmetic, concatenation order), clips and slices of the three sub-splits, pinned statements of the score / sort / _sample code"]
    chk.extra["tpe_int_changed_this_run"] = bool(changed)


if __name__ == "__main__":
    print(generate())
