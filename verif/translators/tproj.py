"""T-proj (C10): the projections at the end of the TPE / GP / QMC / Random sampler paths  ->  Generated/ProjGen.lean

Regenerated from the working tree of the repo on every run (Python `ast`, whitelisted shapes only), as DATA of the IR of
lean/OptunaVerif/Model/ProjIR.lean:

  optuna/samplers/_tpe/parzen_estimator.py
      _is_log                          -> tpeIsLog : G
      _transform                       -> tpeTransform : X          (np.log of log parameters)
      _untransform                     -> tpeUntransform : X        (np.exp of log parameters; ints: low + round((x-low)/step)*step, clip)
      _calculate_distributions         -> calcLow, calcHigh : X, calcStepNone : G   (log of the bounds, low -/+ step/2 widening for log ints)
      _calculate_numerical_distributions -> numEndLo, numEndHi : X (endpoints low -/+ step_or_0/2), numContG : G (which batched distribution)
  optuna/samplers/_tpe/probability_distributions.py :: _MixtureOfProductDistribution.sample
      continuous arm                   -> mixContA, mixContB, mixCont : X   (truncation bounds; the clip of fix 56cb744)
      discrete arm                     -> mixDiscA, mixDiscB, mixDisc : X   (bounds widened by step/2; discretisation + clip)
      categorical arm                  -> mixCat : CatIR                    (cum_probs[:, -1] = 1; np.sum(cum_probs < q))
  optuna/samplers/_tpe/sampler.py :: _sample       -> shape "tpe_sample_handoff"
  optuna/_gp/search_space.py
      unnormalize_one_param, normalize_one_param, round_one_normalized_param -> gp : GpProg
      sample_normalized_params (loop body)         -> gpSampleCat : X, gpSampleRoundG : G
      get_unnormalized_param                       -> gpGet : X (numerical arm), shape "gp_get_cat_arm"
  optuna/samplers/_qmc.py :: sample_relative, optuna/samplers/_random.py :: sample_independent -> shapes "qmc_handoff", "random_handoff"

Straight-line assignments are inlined by symbolic execution; `if` without `return` merges the assigned names into
conditional expressions.  Anything outside the whitelist raises `Untranslatable`.
"""
from __future__ import annotations

import ast
import hashlib
import os
from fractions import Fraction
from typing import Any

OUT_REL = os.path.join("OptunaVerif", "Generated", "ProjGen.lean")
SOURCES = {
    "parzen": os.path.join("optuna", "samplers", "_tpe", "parzen_estimator.py"),
    "probdist": os.path.join("optuna", "samplers", "_tpe", "probability_distributions.py"),
    "tpe": os.path.join("optuna", "samplers", "_tpe", "sampler.py"),
    "gp": os.path.join("optuna", "_gp", "search_space.py"),
    "qmc": os.path.join("optuna", "samplers", "_qmc.py"),
    "random": os.path.join("optuna", "samplers", "_random.py"),
}


class Untranslatable(Exception):
    pass


def need(cond: Any, msg: str) -> None:
    if not cond:
        raise Untranslatable(msg)


def dotted(n: ast.AST) -> str | None:
    if isinstance(n, ast.Name):
        return n.id
    if isinstance(n, ast.Attribute):
        b = dotted(n.value)
        return None if b is None else b + "." + n.attr
    return None


def src(n: ast.AST) -> str:
    try:
        return ast.unparse(n)[:200]
    except Exception:  # noqa: BLE001
        return ast.dump(n)[:200]


def rat(v: Any) -> str:
    fr = Fraction(v)
    if fr.denominator == 1:
        return "(.num (%d : Rat))" % fr.numerator
    return "(.num ((%d : Rat) / %d))" % (fr.numerator, fr.denominator)


def strip_doc(body: list[ast.stmt]) -> list[ast.stmt]:
    if body and isinstance(body[0], ast.Expr) and isinstance(body[0].value, ast.Constant) and isinstance(body[0].value.value, str):
        return body[1:]
    return body


def find(tree: ast.AST, qual: str) -> ast.FunctionDef:
    body = tree.body  # type: ignore[attr-defined]
    node: Any = None
    for name in qual.split("."):
        node = next((n for n in body if isinstance(n, (ast.FunctionDef, ast.ClassDef)) and n.name == name), None)
        need(node is not None, "function %s not found" % qual)
        body = node.body
    need(isinstance(node, ast.FunctionDef), "%s is not a function" % qual)
    return node


DIST_CLS = {"IntDistribution": ".isInt", "FloatDistribution": ".isFloat", "CategoricalDistribution": ".isCat"}
ST_NAMES = {"ScaleType.LINEAR": ".linear", "ScaleType.LOG": ".log", "ScaleType.CATEGORICAL": ".cat"}
ST_PARAM = "(.param)"


class Tr:
    """expression / guard converter under an environment: python source text of a name / attribute / subscript -> IR text;
    env["$dist"] = set of python names that denote the distribution; env["$st:<name>"] = STX text of a scale-type variable;
    env["$tuple:<name>"] = (text0, text1) of a 2-tuple variable; env["$islog"] = G text of `self._is_log(dist)`"""

    def __init__(self, env: dict[str, Any]) -> None:
        self.env = env

    def is_dist(self, n: ast.AST) -> bool:
        return src(n) in self.env.get("$dist", set())

    def X(self, n: ast.AST) -> str:
        key = src(n)
        if key in self.env and not key.startswith("$"):
            return self.env[key]
        if isinstance(n, ast.Constant) and isinstance(n.value, (int, float)) and not isinstance(n.value, bool):
            return rat(n.value)
        if isinstance(n, ast.Attribute) and self.is_dist(n.value) and n.attr in ("low", "high", "step"):
            return "(.var .%s)" % n.attr
        if isinstance(n, ast.Subscript) and isinstance(n.value, ast.Name) and ("$tuple:" + n.value.id) in self.env \
                and isinstance(n.slice, ast.Constant) and n.slice.value in (0, 1):
            return self.env["$tuple:" + n.value.id][n.slice.value]
        if isinstance(n, ast.UnaryOp) and isinstance(n.op, ast.USub):
            return "(.neg %s)" % self.X(n.operand)
        if isinstance(n, ast.BinOp):
            ops = {ast.Add: "add", ast.Sub: "sub", ast.Mult: "mul", ast.Div: "div", ast.FloorDiv: "floordiv"}
            need(type(n.op) in ops, "operator in %s" % src(n))
            return "(.%s %s %s)" % (ops[type(n.op)], self.X(n.left), self.X(n.right))
        if isinstance(n, ast.IfExp):
            return "(.ite %s %s %s)" % (self.G(n.test), self.X(n.body), self.X(n.orelse))
        if isinstance(n, ast.Call):
            f = dotted(n.func)
            a = n.args
            need(not n.keywords, "keyword arguments in %s" % src(n))
            one = {"np.round": "round", "round": "pyround", "np.exp": "ex", "math.exp": "ex", "np.log": "lg", "math.log": "lg",
                   "np.floor": "floor", "float": "toFloat", "int": "toInt", "np.abs": "abs", "abs": "abs", "np.sign": "sign", "np.trunc": "toInt"}
            if f in one and len(a) == 1:
                return "(.%s %s)" % (one[f], self.X(a[0]))
            if f == "np.clip" and len(a) == 3:
                return "(.clip %s %s %s)" % (self.X(a[0]), self.X(a[1]), self.X(a[2]))
            if f == "np.full_like" and len(a) == 2:
                return self.X(a[1])
            if f in ("unnormalize_one_param", "normalize_one_param") and len(a) == 4:
                need(isinstance(a[2], ast.Name) and ("$tuple:" + a[2].id) in self.env or isinstance(a[2], ast.Tuple), "bounds argument of %s" % src(n))
                b = self.env["$tuple:" + a[2].id] if isinstance(a[2], ast.Name) else (self.X(a[2].elts[0]), self.X(a[2].elts[1]))
                return "(.call .%s %s %s %s %s %s)" % ("un" if f.startswith("un") else "no", self.X(a[0]), self.STX(a[1]), b[0], b[1], self.X(a[3]))
        raise Untranslatable("expression %s" % key)

    def STX(self, n: ast.AST) -> str:
        d = dotted(n)
        if d in ST_NAMES:
            return "(.const %s)" % ST_NAMES[d]
        if isinstance(n, ast.Name) and ("$st:" + n.id) in self.env:
            return self.env["$st:" + n.id]
        if isinstance(n, ast.IfExp):
            return "(.ite %s %s %s)" % (self.G(n.test), self.STX(n.body), self.STX(n.orelse))
        raise Untranslatable("scale type %s" % src(n))

    def G(self, n: ast.AST) -> str:
        if isinstance(n, ast.BoolOp) and isinstance(n.op, ast.And) and len(n.values) == 2:
            return "(.and %s %s)" % (self.G(n.values[0]), self.G(n.values[1]))
        if isinstance(n, ast.UnaryOp) and isinstance(n.op, ast.Not):
            return "(.not %s)" % self.G(n.operand)
        if isinstance(n, ast.Call) and dotted(n.func) == "isinstance" and len(n.args) == 2 and self.is_dist(n.args[0]):
            c = n.args[1]
            if isinstance(c, ast.Name) and c.id in DIST_CLS:
                return "(%s)" % DIST_CLS[c.id]
            if isinstance(c, ast.Tuple) and sorted(dotted(e) or "" for e in c.elts) == ["FloatDistribution", "IntDistribution"]:
                return "(.isNum)"
        if isinstance(n, ast.Call) and dotted(n.func) == "self._is_log" and len(n.args) == 1 and "$islog" in self.env:
            return self.env["$islog"]
        if isinstance(n, ast.Attribute) and n.attr == "log" and self.is_dist(n.value):
            return "(.dLog)"
        if isinstance(n, ast.Compare) and len(n.ops) == 1:
            l, op, r = n.left, n.ops[0], n.comparators[0]
            if isinstance(r, ast.Constant) and r.value is None and isinstance(op, (ast.Is, ast.IsNot)):
                key = src(l)
                need(key in self.env.get("$stepvars", set()) or (isinstance(l, ast.Attribute) and l.attr == "step" and self.is_dist(l.value)),
                     "`is None` on %s" % key)
                g = self.env.get("$none:" + key, "(.stepNone)")
                return g if isinstance(op, ast.Is) else "(.not %s)" % g
            if isinstance(op, (ast.Eq, ast.NotEq)):
                if dotted(r) in ST_NAMES and isinstance(l, ast.Name) and self.env.get("$st:" + l.id) == ST_PARAM:
                    g = "(.stIs %s)" % ST_NAMES[dotted(r)]
                else:
                    g = "(.eq %s %s)" % (self.X(l), self.X(r))
                return g if isinstance(op, ast.Eq) else "(.not %s)" % g
        raise Untranslatable("guard %s" % src(n))


def execute(stmts: list[ast.stmt], env: dict[str, Any], result: str | None = None) -> str:
    """symbolic execution of a straight-line / if body; returns the IR text of the returned value (or of the variable
    `result` after the last statement when the block does not return)"""
    tr = Tr(env)
    for k, st in enumerate(stmts):
        rest = stmts[k + 1:]
        if isinstance(st, ast.Return):
            need(st.value is not None, "bare return")
            return tr.X(st.value)
        if isinstance(st, ast.Assert):
            continue
        if isinstance(st, ast.Assign) and len(st.targets) == 1:
            t, v = st.targets[0], st.value
            if isinstance(t, ast.Name):
                if isinstance(v, ast.Tuple) and len(v.elts) == 2:
                    env["$tuple:" + t.id] = (tr.X(v.elts[0]), tr.X(v.elts[1]))
                elif isinstance(v, ast.IfExp) and (dotted(v.body) in ST_NAMES or dotted(v.orelse) in ST_NAMES):
                    env["$st:" + t.id] = tr.STX(v)
                elif isinstance(v, ast.Constant) and v.value is None:
                    env["$none:" + t.id] = "(.not (.stepNone))" if False else "TRUE"
                    env["$stepvars"] = set(env.get("$stepvars", set())) | {t.id}
                else:
                    env[t.id] = tr.X(v)
                    if isinstance(v, ast.Attribute) and v.attr == "step":
                        env["$stepvars"] = set(env.get("$stepvars", set())) | {t.id}
                continue
            if isinstance(t, ast.Tuple) and isinstance(v, ast.Tuple) and len(t.elts) == len(v.elts) and all(isinstance(e, ast.Name) for e in t.elts):
                vals = [tr.X(e) for e in v.elts]
                for e, val in zip(t.elts, vals):
                    env[e.id] = val  # type: ignore[attr-defined]
                continue
            if isinstance(t, ast.Subscript) and result is not None and src(t) == result:
                return tr.X(v)
        if isinstance(st, ast.If):
            g = tr.G(st.test)
            returns = bool(st.body) and isinstance(st.body[-1], ast.Return)
            if returns:
                a = execute(list(st.body), dict(env), result)
                b = execute(list(st.orelse) + rest, dict(env), result)
                return "(.ite %s %s %s)" % (g, a, b)
            e1, e2 = dict(env), dict(env)
            need(execute_noreturn(list(st.body), e1) and execute_noreturn(list(st.orelse), e2), "if-branch of %s" % src(st.test))
            for key in set(e1) | set(e2):
                v1, v2 = e1.get(key), e2.get(key)
                if v1 == v2:
                    env[key] = v1
                elif key.startswith("$none:"):
                    # a step variable set to None in one branch: `step is None` afterwards = g ∨ before, rendered as a guard
                    before = "(.stepNone)"
                    new1 = "TRUE" if v1 == "TRUE" else before
                    new2 = "TRUE" if v2 == "TRUE" else before
                    need(new2 == before and new1 == "TRUE", "step = None in an else branch")
                    env[key] = "(.not (.and (.not %s) (.not %s)))" % (g, before)
                elif key.startswith("$tuple:"):
                    need(v1 is not None and v2 is not None, "tuple %s assigned in one branch only" % key)
                    env[key] = ("(.ite %s %s %s)" % (g, v1[0], v2[0]), "(.ite %s %s %s)" % (g, v1[1], v2[1]))
                elif key.startswith("$"):
                    need(False, "cannot merge %s" % key)
                else:
                    need(v1 is not None and v2 is not None, "name %s assigned in one branch only" % key)
                    env[key] = "(.ite %s %s %s)" % (g, v1, v2)
            continue
        raise Untranslatable("statement %s" % src(st))
    need(result is not None and result in env, "no return value")
    return env[result]  # type: ignore[index]


def execute_noreturn(stmts: list[ast.stmt], env: dict[str, Any]) -> bool:
    try:
        execute(stmts + [ast.parse("__END__ = 0").body[0]], env, "__END__")
    except Untranslatable:
        raise
    env.pop("__END__", None)
    return True


# ---------------------------------------------------------------------------------------------------------------
def translate(repo: str) -> tuple[str, dict[str, Any]]:
    trees: dict[str, ast.Module] = {}
    sha = hashlib.sha1()
    for k, rel in SOURCES.items():
        text = open(os.path.join(repo, rel)).read()
        sha.update(text.encode())
        trees[k] = ast.parse(text)
    D: dict[str, str] = {}
    shapes: dict[str, str] = {}

    # ---- parzen_estimator.py ------------------------------------------------------------------------------------
    f = find(trees["parzen"], "_ParzenEstimator._is_log")
    body = strip_doc(f.body)
    need(len(body) == 1 and isinstance(body[0], ast.Return), "_is_log: one return expected")
    D["tpeIsLog"] = Tr({"$dist": {"dist"}}).G(body[0].value)

    def dictcomp_value(fn: ast.FunctionDef, idx: int) -> tuple[ast.DictComp, ast.stmt]:
        stmts = [s for s in strip_doc(fn.body)]
        st = stmts[idx]
        v = st.value if isinstance(st, (ast.Assign, ast.Return)) else None
        need(isinstance(v, ast.DictComp) and len(v.generators) == 1 and not v.generators[0].ifs, "%s: dict comprehension expected" % fn.name)
        return v, st

    f = find(trees["parzen"], "_ParzenEstimator._transform")
    body = strip_doc(f.body)
    need(len(body) == 1 and isinstance(body[0], ast.Return), "_transform: one return expected")
    v = body[0].value
    need(isinstance(v, ast.Attribute) and v.attr == "T" and isinstance(v.value, ast.Call) and dotted(v.value.func) == "np.array"
         and len(v.value.args) == 1 and isinstance(v.value.args[0], ast.ListComp), "_transform: np.array([...]).T expected")
    lc = v.value.args[0]
    need(len(lc.generators) == 1 and src(lc.generators[0].iter) == "self._search_space" and src(lc.generators[0].target) == "param", "_transform: loop header")
    D["tpeTransform"] = Tr({"$dist": {"self._search_space[param]"}, "$islog": D["tpeIsLog"], "samples_dict[param]": "(.var .x)"}).X(lc.elt)

    f = find(trees["parzen"], "_ParzenEstimator._untransform")
    body = strip_doc(f.body)
    need(len(body) == 2, "_untransform: two statements expected")
    dc1, st1 = dictcomp_value(f, 0)
    need(isinstance(st1, ast.Assign) and src(st1.targets[0]) == "res" and src(dc1.key) == "param"
         and src(dc1.generators[0].iter) == "enumerate(self._search_space)" and src(dc1.generators[0].target) == "(i, param)", "_untransform: first comprehension")
    res = Tr({"$dist": {"self._search_space[param]"}, "$islog": D["tpeIsLog"], "samples_array[:, i]": "(.var .x)"}).X(dc1.value)
    dc2, st2 = dictcomp_value(f, 1)
    need(isinstance(st2, ast.Return) and src(dc2.key) == "param" and src(dc2.generators[0].iter) == "self._search_space.items()"
         and src(dc2.generators[0].target) == "(param, dist)", "_untransform: second comprehension")
    D["tpeUntransform"] = Tr({"$dist": {"dist"}, "res[param]": res}).X(dc2.value)

    f = find(trees["parzen"], "_ParzenEstimator._calculate_distributions")
    body = strip_doc(f.body)
    need(len(body) == 1 and isinstance(body[0], ast.If) and src(body[0].test) == "isinstance(search_space, CategoricalDistribution)", "_calculate_distributions: if/else")
    arm = [s for s in body[0].orelse]
    need(isinstance(arm[-1], ast.Return) and isinstance(arm[-1].value, ast.Call) and dotted(arm[-1].value.func) == "self._calculate_numerical_distributions"
         and [src(a) for a in arm[-1].value.args] == ["transformed_observations", "low", "high", "step", "parameters"], "_calculate_distributions: final call")
    env: dict[str, Any] = {"$dist": {"search_space"}, "$stepvars": {"step"}}
    execute_noreturn(arm[:-1], env)
    D["calcLow"], D["calcHigh"] = env["low"], env["high"]
    D["calcStepNone"] = env.get("$none:step", "(.stepNone)")

    f = find(trees["parzen"], "_ParzenEstimator._calculate_numerical_distributions")
    body = strip_doc(f.body)
    need(isinstance(body[0], ast.Assign) and src(body[0]) == "step_or_0 = step or 0", "_calculate_numerical_distributions: step_or_0")
    env = {"low": "(.var .low)", "high": "(.var .high)", "step_or_0": "(.ite (.stepNone) (.num (0 : Rat)) (.var .step))"}
    ends: dict[str, str] = {}
    for n in ast.walk(f):
        if isinstance(n, ast.Assign) and isinstance(n.targets[0], ast.Subscript) and src(n.targets[0].value) == "sorted_mus_with_endpoints" \
                and src(n.targets[0].slice) in ("0", "-1"):
            ends[src(n.targets[0].slice)] = Tr(env).X(n.value)
    need(set(ends) == {"0", "-1"}, "_calculate_numerical_distributions: endpoints")
    D["numEndLo"], D["numEndHi"] = ends["0"], ends["-1"]
    last = body[-1]
    need(isinstance(last, ast.If) and isinstance(last.body[0], ast.Return) and isinstance(last.orelse[0], ast.Return), "_calculate_numerical_distributions: final if")
    need(src(last.body[0].value) == "_BatchedTruncNormDistributions(mus, sigmas, low, high)"
         and src(last.orelse[0].value) == "_BatchedDiscreteTruncNormDistributions(mus, sigmas, low, high, step)", "_calculate_numerical_distributions: constructors")
    D["numContG"] = Tr({"$stepvars": {"step"}}).G(last.test)

    # ---- probability_distributions.py ------------------------------------------------------------------------------
    f = find(trees["probdist"], "_MixtureOfProductDistribution.sample")
    loop = next((s for s in strip_doc(f.body) if isinstance(s, ast.For)), None)
    need(loop is not None and src(loop.iter) == "enumerate(self.distributions)" and len(loop.body) == 1 and isinstance(loop.body[0], ast.If), "sample: loop")
    arms: dict[str, list[ast.stmt]] = {}
    node: Any = loop.body[0]
    while isinstance(node, ast.If):
        t = node.test
        need(isinstance(t, ast.Call) and dotted(t.func) == "isinstance" and src(t.args[0]) == "d", "sample: arm guard %s" % src(t))
        arms[src(t.args[1])] = node.body
        nxt = node.orelse
        if len(nxt) == 1 and isinstance(nxt[0], ast.If):
            node = nxt[0]
        else:
            need(len(nxt) == 1 and isinstance(nxt[0], ast.Assert), "sample: final else")
            break
    need(set(arms) == {"_BatchedCategoricalDistributions", "_BatchedTruncNormDistributions", "_BatchedDiscreteTruncNormDistributions"}, "sample: arms %s" % sorted(arms))

    def trunc_arm(stmts: list[ast.stmt]) -> tuple[str, str, str]:
        env = {"$dist": {"d"}, "active_mus": "(.var .mu)", "active_sigmas": "(.var .sigma)"}
        lastst = stmts[-1]
        need(isinstance(lastst, ast.Assign) and src(lastst.targets[0]) == "ret[:, i]", "sample: write to ret[:, i]")
        call = next((s for s in stmts if isinstance(s, ast.Assign) and src(s.targets[0]) == "samples"), None)
        direct = call is None and isinstance(lastst.value, ast.Call) and dotted(lastst.value.func) == "_truncnorm.rvs"
        if direct:  # `ret[:, i] = _truncnorm.rvs(...)`: the raw sample is written as it is
            call = lastst
        need(call is not None and isinstance(call.value, ast.Call) and dotted(call.value.func) == "_truncnorm.rvs", "sample: _truncnorm.rvs")
        kw = {k.arg: k.value for k in call.value.keywords}
        need(set(kw) == {"a", "b", "loc", "scale", "random_state"} and src(kw["loc"]) == "active_mus" and src(kw["scale"]) == "active_sigmas", "sample: rvs keywords")
        need(src(stmts[0]) == "active_mus = d.mu[active_indices]" and src(stmts[1]) == "active_sigmas = d.sigma[active_indices]", "sample: mus/sigmas")
        tr = Tr(env)
        a, b = tr.X(kw["a"]), tr.X(kw["b"])
        if direct:
            return a, b, "(.var .x)"
        env["samples"] = "(.var .x)"
        return a, b, Tr(env).X(lastst.value)

    D["mixContA"], D["mixContB"], D["mixCont"] = trunc_arm(arms["_BatchedTruncNormDistributions"])
    D["mixDiscA"], D["mixDiscB"], D["mixDisc"] = trunc_arm(arms["_BatchedDiscreteTruncNormDistributions"])
    cat = arms["_BatchedCategoricalDistributions"]
    texts = [src(s) for s in cat]
    need(texts[0] == "active_weights = d.weights[active_indices, :]" and texts[1] == "rnd_quantile = rng.rand(batch_size)"
         and texts[2] == "cum_probs = np.cumsum(active_weights, axis=-1)", "sample: categorical arm head %s" % texts[:3])
    last_to = None
    final = cat[-1]
    for s in cat[3:-1]:
        if isinstance(s, ast.Assert):
            continue
        need(isinstance(s, ast.Assign) and src(s.targets[0]) == "cum_probs[:, -1]" and isinstance(s.value, ast.Constant), "sample: categorical arm statement %s" % src(s))
        last_to = Fraction(s.value.value)
    need(isinstance(final, ast.Assign) and src(final.targets[0]) == "ret[:, i]" and isinstance(final.value, ast.Call) and dotted(final.value.func) == "np.sum"
         and len(final.value.args) == 1 and isinstance(final.value.args[0], ast.Compare) and [k.arg for k in final.value.keywords] == ["axis"], "sample: categorical index")
    cmp_ = final.value.args[0]
    need(src(cmp_.left) == "cum_probs" and src(cmp_.comparators[0]) == "rnd_quantile[:, None]" and isinstance(cmp_.ops[0], (ast.Lt, ast.LtE)), "sample: categorical comparison %s" % src(cmp_))
    D["mixCat"] = "{ strict := %s, lastTo := %s }" % ("true" if isinstance(cmp_.ops[0], ast.Lt) else "false",
                                                     "none" if last_to is None else "some %s" % rat(last_to)[6:-1])

    # ---- sampler.py :: _sample hand-off ----------------------------------------------------------------------------
    f = find(trees["tpe"], "TPESampler._sample")
    loops = [s for s in strip_doc(f.body) if isinstance(s, ast.For)]
    need(len(loops) == 1, "_sample: one loop expected")
    shapes["tpe_sample_handoff"] = src(loops[0]).replace("\n", " ; ")
    need(src(strip_doc(f.body)[-1]) == "return ret", "_sample: return ret")
    shapes["tpe_sample_source"] = next((src(s) for s in strip_doc(f.body) if isinstance(s, ast.Assign) and src(s.targets[0]) == "samples_below"), "?")

    # ---- _gp/search_space.py ---------------------------------------------------------------------------------------
    def gp_fn(name: str) -> str:
        fn = find(trees["gp"], name)
        need([a.arg for a in fn.args.args] == ["param_value", "scale_type", "bounds", "step"], "%s: parameters" % name)
        env = {"param_value": "(.var .x)", "step": "(.var .step)", "$st:scale_type": ST_PARAM, "$tuple:bounds": ("(.var .b0)", "(.var .b1)")}
        return execute(strip_doc(fn.body), env)

    D["gpUnnormalize"], D["gpNormalize"], D["gpRound"] = gp_fn("unnormalize_one_param"), gp_fn("normalize_one_param"), gp_fn("round_one_normalized_param")
    f = find(trees["gp"], "sample_normalized_params")
    loop = next((s for s in strip_doc(f.body) if isinstance(s, ast.For)), None)
    need(loop is not None and src(loop.iter) == "range(dim)" and len(loop.body) == 1 and isinstance(loop.body[0], ast.If), "sample_normalized_params: loop")
    iff = loop.body[0]
    need(src(iff.test) == "scale_types[i] == ScaleType.CATEGORICAL" and len(iff.body) == 1 and len(iff.orelse) == 1 and isinstance(iff.orelse[0], ast.If)
         and not iff.orelse[0].orelse, "sample_normalized_params: arms")
    st0 = iff.body[0]
    need(isinstance(st0, ast.Assign) and src(st0.targets[0]) == "param_values[:, i]", "sample_normalized_params: categorical write")
    D["gpSampleCat"] = Tr({"param_values[:, i]": "(.var .x)", "bounds[i, 1]": "(.var .b1)", "bounds[i, 0]": "(.var .b0)"}).X(st0.value)
    el = iff.orelse[0]
    D["gpSampleRoundG"] = Tr({"steps[i]": "(.var .step)"}).G(el.test)
    shapes["gp_sample_round_call"] = src(el.body[0]).replace("\n", " ")

    f = find(trees["gp"], "get_unnormalized_param")
    loop = next((s for s in strip_doc(f.body) if isinstance(s, ast.For)), None)
    need(loop is not None and src(loop.iter) == "enumerate(optuna_search_space.items())" and len(loop.body) == 1 and isinstance(loop.body[0], ast.If), "get_unnormalized_param: loop")
    iff = loop.body[0]
    need(src(iff.test) == "isinstance(distribution, CategoricalDistribution)", "get_unnormalized_param: guard")
    shapes["gp_get_cat_arm"] = " ; ".join(src(s) for s in iff.body)
    env = {"$dist": {"distribution"}, "normalized_param[i]": "(.var .x)", "$stepvars": set()}
    arm = list(iff.orelse)
    # `param_value = round(param_value)` under `if isinstance(distribution, IntDistribution)` merges into a conditional expression
    D["gpGet"] = execute(arm, env, "ret[param]")
    need(src(strip_doc(f.body)[-1]) == "return ret", "get_unnormalized_param: return ret")

    # ---- QMC / Random hand-off to _SearchSpaceTransform ----------------------------------------------------------------
    f = find(trees["qmc"], "QMCSampler.sample_relative")
    shapes["qmc_handoff"] = " ; ".join(src(s) for s in strip_doc(f.body)[-3:])
    f = find(trees["random"], "RandomSampler.sample_independent")
    shapes["random_handoff"] = " ; ".join(src(s) for s in strip_doc(f.body)[-3:])

    # ---- emit --------------------------------------------------------------------------------------------------------
    def esc(s: str) -> str:
        return s.replace("\\", "\\\\").replace('"', '\\"')

    out = ["import OptunaVerif.Model.ProjIR",
           "/-! GENERATED by verif/translators/tproj.py from the repo's working tree — do not edit.",
           "sha1 of the six sources: %s -/" % sha.hexdigest(),
           "namespace OptunaVerif.Generated.ProjGen", "open OptunaVerif.ProjIR", ""]
    kinds = {"tpeIsLog": "G", "calcStepNone": "G", "numContG": "G", "gpSampleRoundG": "G", "mixCat": "CatIR"}
    order = ["tpeIsLog", "tpeTransform", "tpeUntransform", "calcLow", "calcHigh", "calcStepNone", "numEndLo", "numEndHi", "numContG",
             "mixContA", "mixContB", "mixCont", "mixDiscA", "mixDiscB", "mixDisc", "mixCat",
             "gpUnnormalize", "gpNormalize", "gpRound", "gpSampleCat", "gpSampleRoundG", "gpGet"]
    for k in order:
        out.append("def %s : %s := %s" % (k, kinds.get(k, "X"), D[k] if D[k] != "TRUE" else "(.not (.and (.stepNone) (.not (.stepNone))))"))
        out.append("")
    out.append("def gp : GpProg := ⟨gpUnnormalize, gpNormalize, gpRound⟩")
    out.append("")
    out.append("/-- call shapes that are pinned as text -/")
    out.append("def shapes : List (String × String) := [")
    out.append(",\n".join('  ("%s", "%s")' % (k, esc(v)) for k, v in sorted(shapes.items())))
    out.append("]")
    out += ["", "end OptunaVerif.Generated.ProjGen", ""]
    info = {"sha1_of_sources": sha.hexdigest(), "fields": {k: D[k] for k in order}, "shapes": shapes}
    return "\n".join(out), info


if __name__ == "__main__":
    import sys

    text, info = translate(sys.argv[1] if len(sys.argv) > 1 else "/repo")
    print(text)
