"""T-report (C16): the glue between the objective's `trial.report` / `trial.should_prune` and the pruner -> Lean DATA
(lean/OptunaVerif/Generated/ReportMethods.lean).

Read with Python `ast` on every run:
  optuna/trial/_trial.py       Trial.report (multi-objective guard, float(value) / int(step) conversions with their TypeError, the `step < 0`
                               ValueError, the duplicate-step branch that warns and returns, the storage write, the cache update),
                               Trial.should_prune (guard, `trial = self._get_latest_trial()`, the pruner call), and the fact that
                               `_get_latest_trial` builds `copy.copy(self._cached_frozen_trial)`
  optuna/trial/_fixed.py       FixedTrial.report / should_prune
  optuna/trial/_frozen.py      FrozenTrial.report / should_prune
  optuna/pruners/__init__.py   _filter_study
(NopPruner.prune, PatientPruner.prune, HyperbandPruner.prune / _get_bracket_id / _BracketStudy.get_trials are pinned by
verif/translators/pruners_skel.py -> Generated/PrunersSkel.lean; Props/C16ReportGen.lean states the delegation facts over that data.)

Bodies become terms of the statement language of `Model/ReportIR.lean`; each primitive stands for ONE whitelisted source shape.
Anything else raises `Untranslatable`: the method is emitted as the stub `.raise .unrepresentable` (its equality theorem then fails)
and `regenerate` reports chk.broke("translation", ...).
"""
from __future__ import annotations

import ast
import os
from typing import Any

from verif.translators.tbrute import Block, Lit, U, Untranslatable, count_nodes, is_doc, is_src, pure_message, r

TRIAL_REL = "optuna/trial/_trial.py"
FIXED_REL = "optuna/trial/_fixed.py"
FROZEN_REL = "optuna/trial/_frozen.py"
PRUNERS_REL = "optuna/pruners/__init__.py"
STUB = "(.raise .unrepresentable)"
ERRS = {"NotImplementedError": "notImplemented", "ValueError": "valueError", "TypeError": "typeError"}


def int_lit(n: ast.AST) -> "int | None":
    if isinstance(n, ast.Constant) and type(n.value) is int:
        return n.value
    if isinstance(n, ast.UnaryOp) and isinstance(n.op, ast.USub) and isinstance(n.operand, ast.Constant) and type(n.operand.value) is int:
        return -n.operand.value
    return None


def conversion(st: ast.stmt, var: str, fn: str) -> bool:
    """try: <var> = <fn>(<var>)  except (TypeError, ValueError): message = <pure>; raise TypeError(message) from None"""
    if not (isinstance(st, ast.Try) and not st.orelse and not st.finalbody and len(st.handlers) == 1):
        return False
    body = [s for s in st.body if not is_doc(s)]
    if len(body) != 1 or not is_src(body[0], "%s = %s(%s)" % (var, fn, var)):
        return False
    h = st.handlers[0]
    if h.name is not None or h.type is None or not (is_src(h.type, "(TypeError, ValueError)") or is_src(h.type, "(ValueError, TypeError)")):
        return False
    hb = [s for s in h.body if not is_doc(s)]
    if len(hb) == 2 and isinstance(hb[0], ast.Assign) and is_src(hb[0].targets[0], "message") and pure_message(hb[0].value) \
            and isinstance(hb[1], ast.Raise) and is_src(hb[1].exc, "TypeError(message)"):
        return True
    if len(hb) == 1 and isinstance(hb[0], ast.Raise) and isinstance(hb[0].exc, ast.Call) and is_src(hb[0].exc.func, "TypeError") \
            and all(pure_message(a) for a in hb[0].exc.args):
        return True
    return False


class RepCtx:
    def __init__(self, method: str) -> None:
        self.method = method
        self.locals: set[str] = set()

    def block(self, body: list[ast.stmt]) -> Block:
        out = Block()
        for st in body:
            out += self.stmt(st)
        return out

    def cond(self, n: ast.AST) -> Any:
        if isinstance(n, ast.UnaryOp) and isinstance(n.op, ast.Not):
            return ("not", self.cond(n.operand))
        if isinstance(n, ast.BoolOp):
            op = "and" if isinstance(n.op, ast.And) else "or"
            out = self.cond(n.values[-1])
            for v in reversed(n.values[:-1]):
                out = (op, self.cond(v), out)
            return out
        m = self.method
        if m in ("report", "should_prune") and (is_src(n, "len(self.study.directions) > 1") or is_src(n, "self.study._is_multi_objective()")):
            return "multiObjective"
        if m == "report" and "step" in self.locals and isinstance(n, ast.Compare) and len(n.ops) == 1 and is_src(n.left, "step") \
                and int_lit(n.comparators[0]) is not None:
            k = int_lit(n.comparators[0])
            if isinstance(n.ops[0], ast.Lt):
                return ("stepLt", Lit(k))
            if isinstance(n.ops[0], ast.LtE):
                return ("stepLt", Lit(k + 1))
            if isinstance(n.ops[0], ast.GtE):
                return ("not", ("stepLt", Lit(k)))
        if m == "report" and "step" in self.locals:
            if is_src(n, "step in self._cached_frozen_trial.intermediate_values"):
                return "stepInCached"
            if is_src(n, "step not in self._cached_frozen_trial.intermediate_values"):
                return ("not", "stepInCached")
        if m == "report" and "value" in self.locals and (is_src(n, "math.isnan(value)") or is_src(n, "value != value") or is_src(n, "np.isnan(value)")):
            return "valueIsNan"
        if m == "_filter_study" and is_src(n, "isinstance(study.pruner, HyperbandPruner)"):
            return "prunerIsHyperband"
        raise U(n, "condition is not whitelisted")

    def stmt(self, st: ast.stmt) -> list[Any]:
        m = self.method
        if isinstance(st, ast.Pass) or is_doc(st):
            return []
        if isinstance(st, ast.If):
            return [("ite", self.cond(st.test), self.block(st.body), self.block(st.orelse))]
        if isinstance(st, ast.Raise):
            e = st.exc
            if isinstance(e, ast.Call) and isinstance(e.func, ast.Name) and e.func.id in ERRS and all(pure_message(a) for a in e.args) and not e.keywords:
                return [("raise", ERRS[e.func.id])]
            raise U(st, "only raise NotImplementedError|ValueError|TypeError(<message>)")
        if isinstance(st, ast.Return):
            return [("ret", self.ret(st, st.value))]
        if m == "report":
            if conversion(st, "value", "float") and not self.locals & {"value"}:
                self.locals.add("value")
                return [("act", "valueToFloat")]
            if conversion(st, "step", "int") and "step" not in self.locals:
                self.locals.add("step")
                return [("act", "stepToInt")]
            if isinstance(st, ast.Expr) and isinstance(st.value, ast.Call) and is_src(st.value.func, "warnings.warn") and "step" in self.locals \
                    and all(pure_message(a) for a in st.value.args):
                return [("act", "warnDuplicate")]
            if is_src(st, "self.storage.set_trial_intermediate_value(self._trial_id, step, value)") and {"step", "value"} <= self.locals:
                return [("act", "storageWrite")]
            if is_src(st, "self._cached_frozen_trial.intermediate_values[step] = value") and {"step", "value"} <= self.locals:
                return [("act", "cacheSet")]
        if m == "should_prune":
            if is_src(st, "trial = self._get_latest_trial()"):
                self.locals.add("trial")
                return [("act", ("setTrial", "latestCopy"))]
            if is_src(st, "trial = self._cached_frozen_trial"):
                self.locals.add("trial")
                return [("act", ("setTrial", "liveCached"))]
        if m == "_filter_study":
            if isinstance(st, (ast.AnnAssign, ast.Assign)) and is_src(st.value, "study.pruner") and is_src(
                    st.target if isinstance(st, ast.AnnAssign) else st.targets[0], "pruner"):
                self.locals.add("pruner")
                return [("act", "bindHyperband")]
        raise U(st, "statement shape is not whitelisted")

    def ret(self, st: ast.Return, v: "ast.AST | None") -> Any:
        m = self.method
        if v is None or (isinstance(v, ast.Constant) and v.value is None):
            return "none"
        if isinstance(v, ast.Constant) and isinstance(v.value, bool) and m in ("should_prune", "const_prune"):
            return ("bool", Lit(v.value))
        if m == "should_prune" and is_src(v, "self.study.pruner.prune(self.study, trial)") and "trial" in self.locals:
            return "prunerCall"
        if m == "_filter_study":
            if is_src(v, "study"):
                return "study"
            if is_src(v, "pruner._create_bracket_study(study, pruner._get_bracket_id(study, trial))") and "pruner" in self.locals:
                return "bracketStudy"
        raise U(st, "return value is not whitelisted")


def _cls(tree: ast.Module, name: str, rel: str) -> ast.ClassDef:
    c = next((n for n in tree.body if isinstance(n, ast.ClassDef) and n.name == name), None)
    if c is None:
        raise Untranslatable(name, "class not found in %s" % rel)
    return c


def _fn(body: list[ast.stmt], name: str) -> "ast.FunctionDef | None":
    return next((n for n in body if isinstance(n, ast.FunctionDef) and n.name == name), None)


def translate(repo: str) -> tuple[str, dict[str, Any], list[dict[str, str]]]:
    problems: list[dict[str, str]] = []
    info: dict[str, Any] = {"methods": {}}
    trees = {rel: ast.parse(open(os.path.join(repo, rel)).read()) for rel in (TRIAL_REL, FIXED_REL, FROZEN_REL, PRUNERS_REL)}
    defs: list[tuple[str, str, str, str]] = []

    def one(fn: "ast.FunctionDef | None", pyname: str, lean: str, tag: str, want: list[str]) -> None:
        try:
            if fn is None:
                raise Untranslatable(pyname, "not found")
            a = fn.args
            if a.vararg or a.kwarg or a.kwonlyargs or a.posonlyargs or a.defaults or [x.arg for x in a.args] != want or fn.decorator_list:
                raise U(fn, "parameters / decorators changed (expected %s)" % want)
            ir = RepCtx(tag).block(fn.body)
            info["methods"][pyname] = count_nodes(ir)
            defs.append((lean, pyname, r(ir), "lines %d-%d" % (fn.lineno, fn.end_lineno or fn.lineno)))
        except Untranslatable as e:
            problems.append({"what": pyname, "why": str(e)})
            info["methods"][pyname] = None
            defs.append((lean, pyname, STUB, "UNTRANSLATABLE: %s" % str(e).replace("-/", "- /")))

    trial = _cls(trees[TRIAL_REL], "Trial", TRIAL_REL)
    one(_fn(trial.body, "report"), "Trial.report", "report", "report", ["self", "value", "step"])
    one(_fn(trial.body, "should_prune"), "Trial.should_prune", "shouldPrune", "should_prune", ["self"])
    # _get_latest_trial: latest_trial = copy.copy(self._cached_frozen_trial) ; <attribute of the copy> ; return latest_trial
    glt = _fn(trial.body, "_get_latest_trial")
    latest_copy = False
    if glt is not None:
        b = [s for s in glt.body if not is_doc(s)]
        latest_copy = (len(b) >= 2 and is_src(b[0], "latest_trial = copy.copy(self._cached_frozen_trial)") and is_src(b[-1], "return latest_trial")
                       and all(isinstance(s, ast.Assign) and len(s.targets) == 1 and isinstance(s.targets[0], ast.Attribute)
                               and is_src(s.targets[0].value, "latest_trial") and s.targets[0].attr != "intermediate_values" for s in b[1:-1]))
    if not latest_copy:
        problems.append({"what": "Trial._get_latest_trial", "why": "must build `latest_trial = copy.copy(self._cached_frozen_trial)`, set attributes of the copy "
                                                                   "(not intermediate_values) and return it"})
    info["latestIsCopy"] = latest_copy
    fixed = _cls(trees[FIXED_REL], "FixedTrial", FIXED_REL)
    frozen = _cls(trees[FROZEN_REL], "FrozenTrial", FROZEN_REL)
    one(_fn(fixed.body, "report"), "FixedTrial.report", "fixedReport", "report", ["self", "value", "step"])
    one(_fn(fixed.body, "should_prune"), "FixedTrial.should_prune", "fixedShouldPrune", "const_prune", ["self"])
    one(_fn(frozen.body, "report"), "FrozenTrial.report", "frozenReport", "report", ["self", "value", "step"])
    one(_fn(frozen.body, "should_prune"), "FrozenTrial.should_prune", "frozenShouldPrune", "const_prune", ["self"])
    one(_fn(trees[PRUNERS_REL].body, "_filter_study"), "pruners._filter_study", "filterStudy", "_filter_study", ["study", "trial"])
    L = ["import OptunaVerif.Model.ReportIR",
         "/-! GENERATED by verif/translators/treport.py from %s, %s, %s and %s on every check run - do not edit. -/" % (TRIAL_REL, FIXED_REL, FROZEN_REL, PRUNERS_REL),
         "namespace OptunaVerif.Generated.ReportMethods",
         "open OptunaVerif OptunaVerif.ReportIR", ""]
    for lean, py, text, comment in defs:
        L.append("/-- `%s` (%s) -/" % (py, comment))
        L.append("def %s : RStmt :=\n  %s\n" % (lean, text))
    L.append("def reportProg : ReportProg :=\n  { report := report, shouldPrune := shouldPrune, latestIsCopy := %s, fixedReport := fixedReport,\n"
             "    fixedShouldPrune := fixedShouldPrune, frozenReport := frozenReport, frozenShouldPrune := frozenShouldPrune, filterStudy := filterStudy }\n"
             % r(Lit(latest_copy)))
    L.append("end OptunaVerif.Generated.ReportMethods")
    return "\n".join(L) + "\n", info, problems


if __name__ == "__main__":
    import sys

    text, info, problems = translate(sys.argv[1] if len(sys.argv) > 1 else "/repo")
    print(text)
    for p in problems:
        print("-- PROBLEM", p, file=sys.stderr)
