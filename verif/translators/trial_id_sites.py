"""T-sites (C09): inventory of every place where sampler / pruner code touches a storage trial id.

Walks optuna/samplers/** and optuna/pruners/** of the tree under test with `ast`, finds every
`<expr>._trial_id` attribute read and every use of a local name `trial_id` / `*_trial_id(s)`, and
classifies each occurrence purely syntactically:

  storageArg         the id is passed (positionally or by keyword) to a storage method
                     (`study._storage.<BaseStorage method>(...)`): the only thing the loop model allows
  storedInStudyAttr  ids are put into the *payload* of a set_*_attr call (the F7 write)
  usedAsIndex        the id is the index of a subscript `xs[id]` (the F7 read)
  memoryKey          the id keys sampler-side memory: dict key / `.get(id)` / `in` test / set element
  compare            the id is an operand of a comparison
  other              anything else (formatted into a string, arithmetic, returned, ...)

It also reads the literal `reseed_sampler_rng=<bool>` that `_optimize` passes to
`_optimize_sequential` on the `n_jobs == 1` path (the split theorem needs it to be False).

Output: lean/OptunaVerif/Generated/TrialIdSites.lean; Props/C09 `decide`s that every site is
`storageArg` except the two listed F7 sites.  No line numbers are emitted (a comment added above a
site must not break the proof); the enclosing function and the source text of the statement are.
"""
from __future__ import annotations

import ast
import os
import re
from typing import Any

from verif import core

STORAGE_METHODS = {
    "set_trial_system_attr", "set_trial_user_attr", "set_trial_param", "set_trial_state_values",
    "set_trial_intermediate_value", "get_trial", "get_trial_system_attrs", "get_trial_user_attrs",
    "get_trial_params", "get_trial_param", "get_trial_number_from_id", "set_study_system_attr", "set_study_user_attr",
}
ATTR_SETTERS = {"set_study_system_attr", "set_study_user_attr", "set_trial_system_attr", "set_trial_user_attr"}
NAME_RE = re.compile(r"(^|_)trial_ids?$")
KINDS = ["storageArg", "compare", "usedAsIndex", "memoryKey", "storedInStudyAttr", "other"]
OUT = os.path.join(core.LEAN_DIR, "OptunaVerif", "Generated", "TrialIdSites.lean")


def _is_storage_call(call: ast.Call) -> str | None:
    f = call.func
    if isinstance(f, ast.Attribute) and f.attr in STORAGE_METHODS:
        src = ast.unparse(f.value)
        if "storage" in src:
            return f.attr
    return None


def _classify(node: ast.AST, parents: list[ast.AST]) -> str:
    child: ast.AST = node
    for p in reversed(parents):
        if isinstance(p, ast.Call):
            m = _is_storage_call(p)
            direct = child in p.args or any(child is k.value for k in p.keywords)
            if m is not None and direct and child is node:
                # the id itself is an argument: fine if it is the trial-id position (first argument)
                if p.args and p.args[0] is node:
                    return "storageArg"
                if any(k.value is node and k.arg in ("trial_id",) for k in p.keywords):
                    return "storageArg"
                return "storedInStudyAttr" if m in ATTR_SETTERS else "other"
            if m in ATTR_SETTERS and direct:
                return "storedInStudyAttr"  # the id is somewhere inside the payload expression
            if isinstance(p.func, ast.Attribute) and p.func.attr in ("get", "pop", "setdefault", "add", "index", "__getitem__") and direct:
                return "memoryKey"
            if m is None and direct and child is node:
                return "other"
        if isinstance(p, ast.Subscript) and p.slice is child:
            return "usedAsIndex"
        if isinstance(p, ast.Dict) and child in p.keys:
            return "memoryKey"
        if isinstance(p, ast.Compare):
            if any(isinstance(o, (ast.In, ast.NotIn)) for o in p.ops):
                return "memoryKey"
            return "compare"
        if isinstance(p, (ast.FunctionDef, ast.AsyncFunctionDef, ast.ClassDef, ast.Module)):
            break
        if isinstance(p, ast.stmt):
            # reached the statement without meeting an allowed context
            if isinstance(p, (ast.Assign, ast.AnnAssign, ast.Return, ast.Expr, ast.AugAssign)):
                return "other"
            break
        child = p
    return "other"


def _stmt_text(parents: list[ast.AST], node: ast.AST) -> str:
    for p in reversed(parents):
        if isinstance(p, ast.stmt):
            t = ast.unparse(p)
            return re.sub(r"\s+", " ", t)[:160]
    return ast.unparse(node)


def inventory(repo: str) -> tuple[list[dict[str, str]], list[str]]:
    sites: list[dict[str, str]] = []
    problems: list[str] = []
    for sub in ("optuna/samplers", "optuna/pruners"):
        for dp, _, fs in sorted(os.walk(os.path.join(repo, sub))):
            for fn in sorted(fs):
                if not fn.endswith(".py"):
                    continue
                path = os.path.join(dp, fn)
                rel = os.path.relpath(path, repo)
                try:
                    tree = ast.parse(open(path).read())
                except SyntaxError as e:
                    problems.append("%s: %s" % (rel, e))
                    continue

                def visit(n: ast.AST, parents: list[ast.AST], qual: list[str]) -> None:
                    if isinstance(n, (ast.FunctionDef, ast.AsyncFunctionDef, ast.ClassDef)):
                        qual = qual + [n.name]
                    hit = False
                    if isinstance(n, ast.Attribute) and n.attr == "_trial_id" and isinstance(n.ctx, ast.Load):
                        hit = True
                    elif isinstance(n, ast.Name) and NAME_RE.search(n.id) and isinstance(n.ctx, ast.Load):
                        hit = True
                    if hit:
                        sites.append({"file": rel, "func": ".".join(qual) or "<module>", "kind": _classify(n, parents),
                                      "expr": _stmt_text(parents, n), "line": str(getattr(n, "lineno", 0))})
                    for c in ast.iter_child_nodes(n):
                        visit(c, parents + [n], qual)

                visit(tree, [], [])
    sites.sort(key=lambda s: (s["file"], int(s["line"])))
    return sites, problems


def reseed_flag(repo: str) -> bool | None:
    """The constant passed as `reseed_sampler_rng` by `_optimize` when `n_jobs == 1`."""
    path = os.path.join(repo, "optuna/study/_optimize.py")
    tree = ast.parse(open(path).read())
    for fn in ast.walk(tree):
        if isinstance(fn, ast.FunctionDef) and fn.name == "_optimize":
            for node in ast.walk(fn):
                if isinstance(node, ast.If) and ast.unparse(node.test) == "n_jobs == 1":
                    for c in ast.walk(ast.Module(body=node.body, type_ignores=[])):
                        if isinstance(c, ast.Call) and ast.unparse(c.func) == "_optimize_sequential":
                            for k in c.keywords:
                                if k.arg == "reseed_sampler_rng" and isinstance(k.value, ast.Constant) and isinstance(k.value.value, bool):
                                    return k.value.value
    return None


def _lean_str(s: str) -> str:
    return '"' + s.replace("\\", "\\\\").replace('"', '\\"') + '"'


def render(sites: list[dict[str, str]], reseed: bool) -> str:
    lines = [
        "-- generated by verif/translators/trial_id_sites.py from the tree under test; do not edit",
        "namespace OptunaVerif.Generated.TrialIdSites",
        "",
        "inductive Kind where",
        "  | " + " | ".join(KINDS),
        "deriving DecidableEq, Repr",
        "",
        "structure Site where",
        "  file : String",
        "  func : String",
        "  kind : Kind",
        "  stmt : String",
        "deriving DecidableEq, Repr",
        "",
        "/-- every read of `._trial_id` and every use of a local `trial_id` under optuna/samplers and optuna/pruners -/",
        "def sites : List Site := [",
    ]
    for i, s in enumerate(sites):
        lines.append("  ⟨%s, %s, .%s, %s⟩%s" % (_lean_str(s["file"]), _lean_str(s["func"]), s["kind"], _lean_str(s["expr"]),
                                               "," if i + 1 < len(sites) else ""))
    lines += [
        "]",
        "",
        "/-- `reseed_sampler_rng` as passed by `_optimize` to `_optimize_sequential` when `n_jobs == 1` -/",
        "def reseedSequential : Bool := %s" % ("true" if reseed else "false"),
        "",
        "end OptunaVerif.Generated.TrialIdSites",
        "",
    ]
    return "\n".join(lines)


def regenerate(chk: Any | None = None, repo: str | None = None, out: str = OUT) -> dict[str, Any]:
    repo = repo or core.REPO
    sites, problems = inventory(repo)
    flag = reseed_flag(repo)
    if flag is None:
        problems.append("optuna/study/_optimize.py: cannot find `_optimize_sequential(..., reseed_sampler_rng=<bool>)` under `if n_jobs == 1`")
    changed = core.write_if_changed(out, render(sites, bool(flag)))
    if chk is not None:
        for p in problems:
            chk.broke("translation", {"translator": "trial_id_sites", "problem": p})
        chk.translated.append("lean/OptunaVerif/Generated/TrialIdSites.lean (%d sites from optuna/samplers, optuna/pruners; reseed flag from optuna/study/_optimize.py)" % len(sites))
    return {"sites": sites, "reseed": flag, "problems": problems, "changed": changed}


if __name__ == "__main__":
    import json
    import sys

    r = regenerate(None, repo=sys.argv[1] if len(sys.argv) > 1 else None)
    print(json.dumps({"n": len(r["sites"]), "kinds": {k: sum(1 for s in r["sites"] if s["kind"] == k) for k in KINDS},
                      "reseed": r["reseed"], "problems": r["problems"], "changed": r["changed"]}, indent=1))
    for s in r["sites"]:
        if s["kind"] != "storageArg":
            print(s)
