"""C18 translator: optuna/samplers/_tpe/{_truncnorm,_erf,probability_distributions}.py  ->
lean/OptunaVerif/Generated/TruncNormGen.lean

What is regenerated from the working tree of the repo on every run (Python `ast`, whitelisted shapes only):
  * the formula bodies of `_log_sum`, `_log_diff`, `_ndtr`, `_ndtr_single` (3 arms), `_log_ndtr_single` (its
    two closed-form arms), `_norm_logpdf`, `mass_case_left/right/central`, `ppf_left/right`, the `logpdf`
    standardisation and formula, `rvs` -- as terms of the expression IR `TruncNormIR.E`;
  * every branch condition `name <op> literal` (`b <= 0`, `a > 0`, `a < 0`, `a > 6`, `a > -20`,
    `x < -1/2**0.5`, ...), literals evaluated in Python float arithmetic and emitted as exact rationals;
  * the order in which `_log_gauss_mass` writes its three cases and `ppf`/`logpdf` apply their overrides;
  * `_bisect`: iteration count, and a flag that the rest of its body has exactly the modelled shape;
    `_ndtri_exp_single`: the bracket;
  * `_erf.py`: the five cut points of `|x|`, all polynomial coefficient tables, `erx`, `efx`, and a flag that
    each `calc_case_*` body has exactly the modelled shape;
  * `_MixtureOfProductDistribution.log_pdf`: whether the `max_[np.isneginf(max_)] = 0` guard is there and the
    log-sum-exp has the modelled shape.
Anything else (an unknown call, a new statement, a changed loop) raises `Untranslatable`; the harness turns
that into chk.broke("translation", ...).
"""
from __future__ import annotations

import ast
import hashlib
import os
from fractions import Fraction
from typing import Any

from verif import core

OUT = os.path.join(core.LEAN_DIR, "OptunaVerif", "Generated", "TruncNormGen.lean")


class Untranslatable(Exception):
    pass


def need(cond: bool, msg: str) -> None:
    if not cond:
        raise Untranslatable(msg)


FN1 = {
    "np.log": "log", "math.log": "log", "np.log1p": "log1p", "math.log1p": "log1p", "np.exp": "exp", "math.exp": "exp",
    "math.sqrt": "sqrt", "np.sqrt": "sqrt", "math.erf": "erf", "math.erfc": "erfc", "erf": "erf",
    "_ndtr": "ndtr", "_ndtr_single": "ndtrSingle", "_log_ndtr": "logNdtr", "_log_ndtr_single": "logNdtr",
    "_ndtri_exp": "ndtriExp", "_norm_logpdf": "normLogpdf",
}
FN2 = {
    "np.logaddexp": "logaddexp", "_log_sum": "logSum", "_log_diff": "logDiff", "mass_case_left": "massLeft",
    "_log_gauss_mass": "logGaussMass",
}
CMP = {ast.Lt: "lt", ast.LtE: "le", ast.Gt: "gt", ast.GtE: "ge"}


def dotted(n: ast.AST) -> str | None:
    if isinstance(n, ast.Name):
        return n.id
    if isinstance(n, ast.Attribute):
        b = dotted(n.value)
        return None if b is None else b + "." + n.attr
    return None


def rat(fr: Fraction) -> str:
    if fr.denominator == 1:
        return "(%d : Rat)" % fr.numerator
    return "((%d : Rat) / %d)" % (fr.numerator, fr.denominator)


def const_value(n: ast.AST) -> Fraction:
    """A literal arithmetic expression, evaluated as Python evaluates it (float arithmetic), exact."""
    for sub in ast.walk(n):
        need(isinstance(sub, (ast.Constant, ast.BinOp, ast.UnaryOp, ast.operator, ast.unaryop, ast.Load)),
             "non-literal in constant expression: " + ast.dump(n))
        if isinstance(sub, ast.Constant):
            need(isinstance(sub.value, (int, float)) and not isinstance(sub.value, bool), "bad literal")
    v = eval(compile(ast.Expression(body=n), "<const>", "eval"), {"__builtins__": {}})  # literals only, checked above
    need(isinstance(v, (int, float)) and v == v and abs(v) != float("inf"), "constant is not a finite number")
    return Fraction(v)


class ToE:
    def __init__(self, inline: dict[str, str]) -> None:
        self.inline = dict(inline)

    def e(self, n: ast.AST) -> str:
        if isinstance(n, ast.Name):
            if n.id in self.inline:
                return self.inline[n.id]
            return '(.var "%s")' % n.id
        if isinstance(n, ast.Constant):
            need(isinstance(n.value, (int, float)) and not isinstance(n.value, bool), "literal %r" % (n.value,))
            return "(.num %s)" % rat(Fraction(n.value))
        if isinstance(n, ast.Attribute):
            d = dotted(n)
            need(d in ("math.pi", "np.pi"), "attribute %s" % d)
            return ".pi"
        if isinstance(n, ast.UnaryOp):
            if isinstance(n.op, ast.USub):
                return "(.neg %s)" % self.e(n.operand)
            if isinstance(n.op, ast.UAdd):
                return self.e(n.operand)
            raise Untranslatable("unary op " + ast.dump(n.op))
        if isinstance(n, ast.BinOp):
            if isinstance(n.op, ast.Pow):
                if isinstance(n.right, ast.Constant) and n.right.value == 2 and isinstance(n.right.value, int):
                    return "(.sq %s)" % self.e(n.left)
                if isinstance(n.right, ast.Constant) and n.right.value == 0.5 and isinstance(n.left, ast.Constant) \
                        and isinstance(n.left.value, int):
                    return "(.call1 .sqrt (.num %s))" % rat(Fraction(n.left.value))
                raise Untranslatable("power " + ast.dump(n))
            ops = {ast.Add: "add", ast.Sub: "sub", ast.Mult: "mul", ast.Div: "div"}
            need(type(n.op) in ops, "binary op " + ast.dump(n.op))
            return "(.%s %s %s)" % (ops[type(n.op)], self.e(n.left), self.e(n.right))
        if isinstance(n, ast.Call):
            need(not n.keywords, "keyword call")
            d = dotted(n.func)
            if d in FN1 and len(n.args) == 1:
                return "(.call1 .%s %s)" % (FN1[d], self.e(n.args[0]))
            if d in FN2 and len(n.args) == 2:
                return "(.call2 .%s %s %s)" % (FN2[d], self.e(n.args[0]), self.e(n.args[1]))
            raise Untranslatable("call of %s/%d" % (d, len(n.args)))
        raise Untranslatable("expression " + ast.dump(n)[:200])


def cond_of(n: ast.AST) -> str:
    need(isinstance(n, ast.Compare) and len(n.ops) == 1 and isinstance(n.left, ast.Name) and type(n.ops[0]) in CMP,
         "condition shape " + ast.dump(n)[:200])
    return '⟨"%s", .%s, %s⟩' % (n.left.id, CMP[type(n.ops[0])], rat(const_value(n.comparators[0])))


def fn(mod: ast.Module | ast.FunctionDef, name: str) -> ast.FunctionDef:
    for n in mod.body:
        if isinstance(n, ast.FunctionDef) and n.name == name:
            return n
    raise Untranslatable("function %s not found" % name)


def strip_doc(body: list[ast.stmt]) -> list[ast.stmt]:
    if body and isinstance(body[0], ast.Expr) and isinstance(body[0].value, ast.Constant) and isinstance(body[0].value.value, str):
        return body[1:]
    return body


def single_return(f: ast.FunctionDef, inline: dict[str, str]) -> str:
    """body = (name = expr)* ; return expr  -> one inlined E."""
    t = ToE(inline)
    body = strip_doc(f.body)
    for st in body[:-1]:
        need(isinstance(st, ast.Assign) and len(st.targets) == 1 and isinstance(st.targets[0], ast.Name),
             "%s: statement %s" % (f.name, ast.dump(st)[:120]))
        t.inline[st.targets[0].id] = t.e(st.value)
    need(isinstance(body[-1], ast.Return) and body[-1].value is not None, "%s: no final return" % f.name)
    return t.e(body[-1].value)


def dump_hash(nodes: list[ast.AST]) -> str:
    return hashlib.sha1("\n".join(ast.dump(n) for n in nodes).encode()).hexdigest()[:16]


def translate(repo: str | None = None) -> tuple[str, dict[str, Any]]:
    repo = repo or core.REPO
    base = os.path.join(repo, "optuna", "samplers", "_tpe")
    tn = ast.parse(open(os.path.join(base, "_truncnorm.py")).read())
    ef = ast.parse(open(os.path.join(base, "_erf.py")).read())
    pd = ast.parse(open(os.path.join(base, "probability_distributions.py")).read())
    info: dict[str, Any] = {"shapes": {}}
    L: list[str] = []

    def emit(name: str, ty: str, val: str) -> None:
        L.append("def %s : %s := %s" % (name, ty, val))

    def shape(key: str, nodes: list[ast.AST]) -> None:
        info["shapes"][key] = dump_hash(nodes)

    # ---- module constants of _truncnorm.py --------------------------------------------------------------
    glob: dict[str, str] = {}
    for st in tn.body:
        if isinstance(st, ast.Assign) and len(st.targets) == 1 and isinstance(st.targets[0], ast.Name) \
                and st.targets[0].id in ("_norm_pdf_C", "_norm_pdf_logC"):
            glob[st.targets[0].id] = ToE(glob).e(st.value)
    need("_norm_pdf_logC" in glob, "_norm_pdf_logC not found")

    emit("logSumBody", "E", single_return(fn(tn, "_log_sum"), {}))
    emit("logDiffBody", "E", single_return(fn(tn, "_log_diff"), {}))
    emit("ndtrBody", "E", single_return(fn(tn, "_ndtr"), {}))
    emit("normLogpdfBody", "E", single_return(fn(tn, "_norm_logpdf"), glob))

    # ---- _ndtr_single: x = a / 2**0.5 ; if/elif/else with y = ... ; return y ------------------------------
    f = fn(tn, "_ndtr_single")
    b = strip_doc(f.body)
    need(len(b) == 3 and isinstance(b[0], ast.Assign) and isinstance(b[1], ast.If) and isinstance(b[2], ast.Return)
         and isinstance(b[2].value, ast.Name), "_ndtr_single shape")
    xname = b[0].targets[0].id  # type: ignore[attr-defined]
    emit("ndtrSingleArg", "E", ToE({}).e(b[0].value))
    conds, arms = [], []
    node: Any = b[1]
    while True:
        conds.append(cond_of(node.test))
        need(len(node.body) == 1 and isinstance(node.body[0], ast.Assign) and node.body[0].targets[0].id == b[2].value.id,
             "_ndtr_single arm")
        arms.append(ToE({}).e(node.body[0].value))
        if len(node.orelse) == 1 and isinstance(node.orelse[0], ast.If):
            node = node.orelse[0]
            continue
        need(len(node.orelse) == 1 and isinstance(node.orelse[0], ast.Assign), "_ndtr_single else")
        arms.append(ToE({}).e(node.orelse[0].value))
        break
    need(all('"%s"' % xname in c for c in conds), "_ndtr_single conditions must test %s" % xname)
    arm_lines = []
    node = b[1]
    while True:
        arm_lines.append(node.body[0].lineno)
        if len(node.orelse) == 1 and isinstance(node.orelse[0], ast.If):
            node = node.orelse[0]
            continue
        arm_lines.append(node.orelse[0].lineno)
        break
    info.setdefault("lines", {})["_ndtr_single"] = arm_lines
    emit("ndtrSingleConds", "List Cond", "[" + ", ".join(conds) + "]")
    emit("ndtrSingleArms", "List E", "[" + ", ".join(arms) + "]")

    # ---- _log_ndtr_single: two guarded returns, then the asymptotic series --------------------------------
    f = fn(tn, "_log_ndtr_single")
    b = strip_doc(f.body)
    need(len(b) >= 3 and all(isinstance(s, ast.If) and not s.orelse and len(s.body) == 1 and isinstance(s.body[0], ast.Return)
                             for s in b[:2]), "_log_ndtr_single: two `if …: return …` expected")
    emit("logNdtrConds", "List Cond", "[" + ", ".join(cond_of(s.test) for s in b[:2]) + "]")  # type: ignore[attr-defined]
    emit("logNdtrArms", "List E", "[" + ", ".join(ToE({}).e(s.body[0].value) for s in b[:2]) + "]")  # type: ignore[attr-defined]
    shape("log_ndtr_series", b[2:])
    info.setdefault("lines", {})["_log_ndtr_single"] = [b[0].body[0].lineno, b[1].body[0].lineno, b[2].lineno]  # type: ignore[attr-defined]

    # ---- _log_gauss_mass -----------------------------------------------------------------------------------
    f = fn(tn, "_log_gauss_mass")
    b = strip_doc(f.body)
    cases: dict[str, ast.AST] = {}
    order: list[str] = []
    glue: list[ast.AST] = []
    for st in b:
        if isinstance(st, ast.Assign) and isinstance(st.targets[0], ast.Name) and st.targets[0].id.startswith("case_"):
            cases[st.targets[0].id] = st.value
        elif isinstance(st, ast.FunctionDef):
            pass
        else:
            if isinstance(st, ast.If) and isinstance(st.body[0], ast.Assign) and isinstance(st.body[0].targets[0], ast.Subscript):
                tgt = st.body[0].targets[0]
                need(isinstance(tgt.slice, ast.Name) and isinstance(st.body[0].value, ast.Call), "mass assignment shape")
                order.append(tgt.slice.id.replace("case_", "") + ":" + dotted(st.body[0].value.func).replace("mass_case_", ""))
            glue.append(st)
    need(set(cases) == {"case_left", "case_right", "case_central"}, "_log_gauss_mass cases %s" % sorted(cases))
    emit("massCaseLeft", "Cond", cond_of(cases["case_left"]))
    emit("massCaseRight", "Cond", cond_of(cases["case_right"]))
    need(ast.dump(cases["case_central"]) == ast.dump(ast.parse("~(case_left | case_right)", mode="eval").body),
         "case_central is not ~(case_left | case_right)")
    emit("massAssignOrder", "List String", "[" + ", ".join('"%s"' % o for o in order) + "]")
    emit("massLeftBody", "E", single_return(fn(f, "mass_case_left"), {}))
    emit("massRightBody", "E", single_return(fn(f, "mass_case_right"), {}))
    emit("massCentralBody", "E", single_return(fn(f, "mass_case_central"), {}))
    shape("mass_glue", glue)

    # ---- _bisect / _ndtri_exp_single -------------------------------------------------------------------------
    f = fn(tn, "_bisect")
    loops = [s for s in ast.walk(f) if isinstance(s, ast.For)]
    need(len(loops) == 1 and isinstance(loops[0].iter, ast.Call) and dotted(loops[0].iter.func) == "range"
         and len(loops[0].iter.args) == 1 and isinstance(loops[0].iter.args[0], ast.Constant)
         and isinstance(loops[0].iter.args[0].value, int), "_bisect: `for _ in range(<int>)` expected")
    emit("bisectIters", "Nat", str(loops[0].iter.args[0].value))
    loops[0].iter.args[0].value = 0
    shape("bisect", strip_doc(f.body))
    f = fn(tn, "_ndtri_exp_single")
    b = strip_doc(f.body)
    need(len(b) == 1 and isinstance(b[0], ast.Return) and isinstance(b[0].value, ast.Call) and dotted(b[0].value.func) == "_bisect"
         and len(b[0].value.args) == 4 and dotted(b[0].value.args[0]) == "_log_ndtr_single" and dotted(b[0].value.args[3]) == "y",
         "_ndtri_exp_single shape")
    emit("bracketLo", "Rat", rat(const_value(b[0].value.args[1])))
    emit("bracketHi", "Rat", rat(const_value(b[0].value.args[2])))

    # ---- ppf ---------------------------------------------------------------------------------------------------
    f = fn(tn, "ppf")
    b = strip_doc(f.body)
    cl = [s for s in b if isinstance(s, ast.Assign) and isinstance(s.targets[0], ast.Name) and s.targets[0].id == "case_left"]
    cr = [s for s in b if isinstance(s, ast.Assign) and isinstance(s.targets[0], ast.Name) and s.targets[0].id == "case_right"]
    need(len(cl) == 1 and len(cr) == 1 and ast.dump(cr[0].value) == ast.dump(ast.parse("~case_left", mode="eval").body),
         "ppf case split")
    emit("ppfCaseLeft", "Cond", cond_of(cl[0].value))
    emit("ppfLeftBody", "E", single_return(fn(f, "ppf_left"), {}))
    emit("ppfRightBody", "E", single_return(fn(f, "ppf_right"), {}))
    overrides = []
    glue = []
    for st in b:
        if isinstance(st, ast.Assign) and isinstance(st.targets[0], ast.Subscript) and isinstance(st.targets[0].slice, ast.Compare):
            c = st.targets[0].slice
            lhs, rhs = ast.unparse(c.left), ast.unparse(c.comparators[0])
            need(isinstance(c.ops[0], ast.Eq), "ppf override comparison")
            val = ast.unparse(st.value)
            overrides.append("%s==%s:%s" % (lhs, rhs, val.split("[")[0]))
        elif not isinstance(st, ast.FunctionDef) and st not in cl:
            glue.append(st)
    emit("ppfOverrides", "List String", "[" + ", ".join('"%s"' % o for o in overrides) + "]")
    shape("ppf_glue", glue)

    # ---- rvs ---------------------------------------------------------------------------------------------------
    f = fn(tn, "rvs")
    b = strip_doc(f.body)
    need(isinstance(b[-1], ast.Return), "rvs return")
    r = b[-1].value
    need(ast.dump(r) == ast.dump(ast.parse("ppf(percentiles, a, b) * scale + loc", mode="eval").body), "rvs: return ppf(percentiles, a, b) * scale + loc")
    shape("rvs_glue", b[:-1])

    # ---- logpdf ------------------------------------------------------------------------------------------------
    f = fn(tn, "logpdf")
    b = strip_doc(f.body)
    need(isinstance(b[0], ast.Assign) and isinstance(b[0].targets[0], ast.Name) and b[0].targets[0].id == "x", "logpdf: x = (x - loc) / scale first")
    emit("logpdfStdBody", "E", ToE({}).e(b[0].value))
    outs = [s for s in b if isinstance(s, ast.Assign) and isinstance(s.targets[0], ast.Name) and s.targets[0].id == "out"]
    need(len(outs) == 1, "logpdf: one `out = …`")
    emit("logpdfBody", "E", ToE({}).e(outs[0].value))
    overrides = []
    for st in b:
        if isinstance(st, ast.Assign) and isinstance(st.targets[0], ast.Subscript):
            overrides.append(ast.unparse(st.targets[0].slice) + ":" + ast.unparse(st.value))
    emit("logpdfOverrides", "List String", "[" + ", ".join('"%s"' % o for o in overrides) + "]")
    shape("logpdf_glue", [s for s in b[1:] if s is not outs[0]])

    # ---- _erf.py -----------------------------------------------------------------------------------------------
    consts: dict[str, Fraction] = {}
    polys: dict[str, list[Fraction]] = {}
    for st in ef.body:
        if isinstance(st, ast.Assign) and len(st.targets) == 1 and isinstance(st.targets[0], ast.Name):
            nm = st.targets[0].id
            if isinstance(st.value, ast.Call) and dotted(st.value.func) == "Polynomial":
                need(len(st.value.args) == 1 and isinstance(st.value.args[0], ast.List), "Polynomial([...])")
                cs = []
                for el in st.value.args[0].elts:
                    need(isinstance(el, ast.Name) and el.id in consts, "Polynomial coefficient %s" % ast.dump(el))
                    cs.append(consts[el.id])
                polys[nm] = cs
            else:
                consts[nm] = const_value(st.value)
    for nm in ("pp", "qq", "pa", "qa", "ra", "sa", "rb", "sb"):
        need(nm in polys, "polynomial %s missing" % nm)
        emit("erf_" + nm, "List Rat", "[" + ", ".join(rat(c) for c in polys[nm]) + "]")
    for nm in ("erx", "efx", "one", "half"):
        need(nm in consts, "constant %s missing" % nm)
        emit("erf_" + nm, "Rat", rat(consts[nm]))
    f = fn(ef, "erf")
    b = strip_doc(f.body)
    need(ast.dump(b[0]) == ast.dump(ast.parse("a = np.abs(x)").body[0]), "erf: a = np.abs(x)")
    bounds = []
    names = []
    for st in b:
        if isinstance(st, ast.Assign) and isinstance(st.targets[0], ast.Name) and st.targets[0].id.startswith("case_"):
            nm = st.targets[0].id[5:]
            v = st.value
            if nm in ("nan", "posinf", "neginf"):
                need(ast.unparse(v) == {"nan": "np.isnan(x)", "posinf": "np.isposinf(x)", "neginf": "np.isneginf(x)"}[nm], "erf case_" + nm)
                continue
            lo = hi = None
            parts = [v.left, v.right] if isinstance(v, ast.BinOp) and isinstance(v.op, ast.BitAnd) else [v]
            for p in parts:
                need(isinstance(p, ast.Compare) and len(p.ops) == 1, "erf case_%s shape" % nm)
                if isinstance(p.left, ast.Name) and p.left.id == "a" and isinstance(p.ops[0], ast.Lt):
                    hi = const_value(p.comparators[0])
                elif isinstance(p.left, ast.Name) and p.left.id == "a" and isinstance(p.ops[0], ast.GtE):
                    lo = const_value(p.comparators[0])
                elif isinstance(p.comparators[0], ast.Name) and p.comparators[0].id == "a" and isinstance(p.ops[0], ast.LtE):
                    lo = const_value(p.left)
                else:
                    raise Untranslatable("erf case_%s comparison %s" % (nm, ast.unparse(p)))
            names.append(nm)
            bounds.append("(%s, %s)" % ("none" if lo is None else "some " + rat(lo), "none" if hi is None else "some " + rat(hi)))
    emit("erfCaseNames", "List String", "[" + ", ".join('"%s"' % n for n in names) + "]")
    emit("erfCaseBounds", "List (Option Rat × Option Rat)", "[" + ", ".join(bounds) + "]")
    for nm in ("tiny", "small1", "small2", "med1", "med2", "big"):
        shape("erf_" + nm, strip_doc(fn(f, "calc_case_" + nm).body))
    shape("erf_glue", [s for s in b if not isinstance(s, ast.FunctionDef)
                       and not (isinstance(s, ast.Assign) and isinstance(s.targets[0], ast.Name) and s.targets[0].id.startswith("case_"))])

    # ---- mixture log_pdf tail ------------------------------------------------------------------------------------
    cls = [n for n in pd.body if isinstance(n, ast.ClassDef) and n.name == "_MixtureOfProductDistribution"]
    need(len(cls) == 1, "_MixtureOfProductDistribution not found")
    lp = fn(cls[0], "log_pdf")  # type: ignore[arg-type]
    b = strip_doc(lp.body)
    tail = []
    seen = False
    for st in b:
        if isinstance(st, ast.Assign) and isinstance(st.targets[0], ast.Name) and st.targets[0].id == "weighted_log_pdf":
            seen = True
        if seen:
            tail.append(st)
    need(seen, "log_pdf: weighted_log_pdf not found")
    guard_stmt = ast.dump(ast.parse("max_[np.isneginf(max_)] = 0").body[0])
    has_guard = any(ast.dump(s) == guard_stmt for s in tail)
    emit("mixtureGuard", "Bool", "true" if has_guard else "false")
    shape("mixture_tail", [s for s in tail if ast.dump(s) != guard_stmt])
    shape("mixture_head", [s for s in b if s not in tail])
    smp = fn(cls[0], "sample")  # type: ignore[arg-type]
    shape("mixture_sample", strip_doc(smp.body))

    shapes_ok = []
    for k in sorted(info["shapes"]):
        shapes_ok.append('("%s", "%s")' % (k, info["shapes"][k]))
    emit("shapeHashes", "List (String × String)", "[" + ",\n  ".join(shapes_ok) + "]")

    head = [
        "-- generated by verif/translators/truncnorm.py from optuna/samplers/_tpe/{_truncnorm,_erf,probability_distributions}.py; do not edit",
        "import OptunaVerif.Model.TruncNormIR",
        "namespace OptunaVerif.Generated.TruncNorm",
        "open OptunaVerif.TruncNormIR",
        "",
    ]
    text = "\n".join(head + L + ["", "end OptunaVerif.Generated.TruncNorm", ""])
    return text, info


def regenerate(repo: str | None = None) -> tuple[bool, dict[str, Any]]:
    text, info = translate(repo)
    changed = core.write_if_changed(OUT, text)
    return changed, info


if __name__ == "__main__":
    import sys

    t, i = translate(sys.argv[1] if len(sys.argv) > 1 else None)
    print(t)
