"""T-session (C05): which SQL transactions does one RDBStorage call consist of, and where are its writes?

Regenerates lean/OptunaVerif/Generated/RdbSessions.lean from /repo on every run.  Sources read (Python `ast`):
  optuna/storages/_rdb/storage.py   `_create_scoped_session`, class RDBStorage, class _VersionManager
  optuna/storages/_rdb/models.py    the model classes whose methods receive the caller's session
  optuna/storages/_base.py, _heartbeat.py   inherited helpers (resolved on the concrete class: `self.get_trial`
                                    inside `BaseStorage.check_trial_is_updatable` is RDBStorage's); `fail_stale_trials`

Per method of RDBStorage the translator walks the body (whitelisted statement kinds only) and emits the list of
`with _create_scoped_session(...) as session:` blocks in textual order.  Helpers that are handed the session
(`self._set_..._without_commit(session, ...)`, `models.X.find...(…, session)`, `obj.check_and_add(session, …)`) are
inlined into the block at every call site; methods called *without* the session open their own block(s): outside a
block these are appended to the caller's list, inside a block they re-open the thread-local session, whose exit
commits what the outer block wrote so far.  Per block:
  writes     session.add / add_all / delete / merge / bulk_*;  <query rooted in the session>.update(..) / .delete(..);
             session.execute(<insert | update | delete statement>);  attribute assignment on a name bound to a model
             instance (bound from an expression that mentions the session, `models.` or `cls`)
  flushes / commits / rollbacks    explicit session.flush() / .commit() / .rollback()
  guards     in-block calls of a method that re-opens the session and then raises unconditionally
             (`check_trial_is_updatable`: `trial = self.get_trial(id); raise UpdateFinishedTrialError`).  A guard is SAFE if
               dominating  it is reached unconditionally before any write site of the block, or
               covered     it tests the same subject (`<n>.state` with `<n> = TrialModel.find_or_raise_by_id(<same id>, session)`)
                           as the dominating guard — the ORM identity map hands out the row loaded first, so it decides alike, or
               fresh       its subject is the `trial_id` of a `TrialModel(..., state=TrialState.RUNNING, ...)` constructed in
                           this block whose `.state` has not been assigned yet — it cannot fire.
             `guardsSafe` = every guard of the block is safe.
  nested     every other in-block call that re-opens the session
  rep        once | retry (inside a loop inside a try, the with-body ends in `return`, no break/continue) | perItem
Statements that change the database without a session block (alembic commands, `connection.begin()`, `create_all`,
`<non-session>.execute`) are counted in `external`.  Anything outside the whitelist -> problem -> chk.broke("translation", ...).
"""
from __future__ import annotations

import ast
import os
from typing import Any

from verif import core

STORAGE = "optuna/storages/_rdb/storage.py"
MODELS = "optuna/storages/_rdb/models.py"
BASE = "optuna/storages/_base.py"
HEART = "optuna/storages/_heartbeat.py"
SKIP = {"__init__", "__getstate__", "__setstate__"}
# private methods that other modules call (`_CachedStorage`, `fail_stale_trials`): part of the storage's surface
EXTRA_PUBLIC = {"_create_new_trial", "_get_trials", "_get_stale_trial_ids"}

S_WRITE = {"add", "add_all", "delete", "merge", "bulk_save_objects", "bulk_insert_mappings", "bulk_update_mappings"}
S_READ = {"query", "get", "scalar", "scalars", "refresh", "expire", "expire_all", "expunge", "expunge_all", "close"}
STMT_WRITE_WORDS = {"insert", "update", "delete", "on_conflict_do_update", "on_conflict_do_nothing", "on_duplicate_key_update"}
STMT_READ_WORDS = {"func", "select"}


def _src(n: ast.AST | None) -> str:
    if n is None:
        return ""
    try:
        return ast.unparse(n)[:110]
    except Exception:  # noqa: BLE001
        return repr(n)


class Block:
    def __init__(self, line: int, ignore_integrity: bool, rep: str) -> None:
        self.line = line
        self.ignore_integrity = ignore_integrity
        self.rep = rep
        self.writes = 0
        self.flushes = 0
        self.commits = 0
        self.rollbacks = 0
        self.nested = 0
        self.guards = 0
        self.unsafe_guards = 0
        self.sites: list[str] = []
        # translation-time state
        self.dominating: str | None = None
        self.state_assigned: set[str] = set()

    def copy(self, rep: str | None = None) -> "Block":
        b = Block(self.line, self.ignore_integrity, rep or self.rep)
        for k in ("writes", "flushes", "commits", "rollbacks", "nested", "guards", "unsafe_guards"):
            setattr(b, k, getattr(self, k))
        b.sites = list(self.sites)
        return b

    def as_dict(self) -> dict[str, Any]:
        return {"line": self.line, "writes": self.writes, "flushes": self.flushes, "commits": self.commits, "rollbacks": self.rollbacks,
                "nested": self.nested, "guards": self.guards, "guards_safe": self.unsafe_guards == 0, "rep": self.rep,
                "ignore_integrity": self.ignore_integrity, "sites": self.sites}


class Summary:
    """What a function does when it is called WITHOUT a session: its own blocks, in textual order."""

    def __init__(self) -> None:
        self.blocks: list[Block] = []
        self.external: list[str] = []


class Analyzer:
    def __init__(self, repo: str) -> None:
        self.repo = repo
        self.problems: list[str] = []
        self.mods: dict[str, ast.Module] = {}
        for rel in (STORAGE, MODELS, BASE, HEART):
            try:
                self.mods[rel] = ast.parse(open(os.path.join(repo, rel)).read())
            except Exception as e:  # noqa: BLE001
                self.problems.append("cannot parse %s: %s" % (rel, e))
                self.mods[rel] = ast.Module(body=[], type_ignores=[])
        self.classes: dict[str, dict[str, ast.FunctionDef]] = {}
        self.class_mod: dict[str, str] = {}
        self.bases: dict[str, list[str]] = {}
        for rel, mod in self.mods.items():
            for n in mod.body:
                if isinstance(n, ast.ClassDef):
                    self.classes[n.name] = {f.name: f for f in n.body if isinstance(f, ast.FunctionDef)}
                    self.class_mod[n.name] = rel
                    self.bases[n.name] = [b.id for b in n.bases if isinstance(b, ast.Name)]
        self.model_classes = [c for c, rel in self.class_mod.items() if rel == MODELS]
        self.sum_cache: dict[tuple[str, str, str], Summary] = {}
        self.helper_seen: dict[str, tuple[str, ast.FunctionDef]] = {}
        self.active: list[tuple[str, str]] = []
        self.scopes: dict[int, "Walker"] = {}
        self.next_scope = 0

    def problem(self, where: str, node: ast.AST | None, why: str) -> None:
        p = "%s line %s `%s`: %s" % (where, getattr(node, "lineno", "?"), _src(node), why)
        if p not in self.problems:
            self.problems.append(p)

    def is_model(self, cls: str) -> bool:
        return self.class_mod.get(cls) == MODELS

    def resolve(self, cls: str, name: str) -> tuple[str, ast.FunctionDef] | None:
        seen: list[str] = []
        todo = [cls]
        while todo:
            c = todo.pop(0)
            if c in seen or c not in self.classes:
                continue
            seen.append(c)
            if name in self.classes[c]:
                return c, self.classes[c][name]
            todo += self.bases.get(c, [])
        return None

    def resolve_model_method(self, name: str) -> list[tuple[str, ast.FunctionDef]]:
        return [(c, self.classes[c][name]) for c in self.model_classes if name in self.classes[c]]

    # ---- a function called without the session (self = an object of class `cls`) ------------------------------------
    def summary(self, cls: str, owner: str, fn: ast.FunctionDef, self_names: tuple[str, ...] = ("self",)) -> Summary:
        key = (cls, owner, fn.name)
        if key in self.sum_cache:
            return self.sum_cache[key]
        tag = (owner, fn.name)
        if tag in self.active:
            self.problem("%s.%s" % tag, fn, "recursive call chain")
            return Summary()
        self.active.append(tag)
        w = Walker(self, cls, owner, fn, sess=set(), cur=None, self_names=self_names)
        w.run()
        self.active.pop()
        self.sum_cache[key] = w.out
        return w.out

    # ---- context-free effect counts of a helper that is handed a session (for the `helpers` table) ------------------
    def effects(self, cls: str, owner: str, fn: ast.FunctionDef) -> Block:
        acc = Block(fn.lineno, False, "once")
        tag = (owner, fn.name)
        if tag in self.active:
            self.problem("%s.%s" % tag, fn, "recursive call chain")
            return acc
        self.active.append(tag)
        params = [a.arg for a in fn.args.args + fn.args.kwonlyargs]
        w = Walker(self, cls, owner, fn, sess={p for p in params if p == "session"}, cur=acc, self_names=("self",))
        w.run()
        self.active.pop()
        return acc

    # ---- `trial = self.get_trial(id); raise ...` --------------------------------------------------------------------------
    def is_abort_guard(self, cls: str, owner: str, fn: ast.FunctionDef) -> bool:
        found = [0]
        ok = [True]

        def opens(e: ast.AST | None) -> bool:
            if e is None:
                return False
            for n in ast.walk(e):
                if isinstance(n, ast.Call):
                    f = n.func
                    if isinstance(f, ast.Name) and f.id == "_create_scoped_session":
                        return True
                    if isinstance(f, ast.Attribute) and isinstance(f.value, ast.Name) and f.value.id == "self":
                        r = self.resolve(cls, f.attr)
                        if r is not None and not self.is_model(r[0]) and self.summary(cls, r[0], r[1]).blocks:
                            return True
            return False

        def visit(stmts: list[ast.stmt]) -> None:
            for i, st in enumerate(stmts):
                own: list[ast.AST | None]
                if isinstance(st, ast.If):
                    own = [st.test]
                elif isinstance(st, ast.For):
                    own = [st.iter]
                elif isinstance(st, ast.While):
                    own = [st.test]
                elif isinstance(st, ast.With):
                    own = [it.context_expr for it in st.items]
                elif isinstance(st, ast.Try):
                    own = []
                else:
                    own = [st]
                if any(opens(e) for e in own):
                    found[0] += 1
                    if not (i + 1 < len(stmts) and isinstance(stmts[i + 1], ast.Raise)):
                        ok[0] = False
                for fld in ("body", "orelse", "finalbody"):
                    sub = getattr(st, fld, None)
                    if isinstance(sub, list) and sub and isinstance(sub[0], ast.stmt) and not isinstance(st, ast.FunctionDef):
                        visit(sub)
                for h in getattr(st, "handlers", []) or []:
                    visit(h.body)

        visit(fn.body)
        return found[0] > 0 and ok[0]


class Walker:
    def __init__(self, an: Analyzer, cls: str, owner: str, fn: ast.FunctionDef, sess: set[str], cur: Block | None,
                 self_names: tuple[str, ...], out: Summary | None = None, outer_bound: dict[str, list[ast.AST]] | None = None,
                 subst: dict[str, str] | None = None) -> None:
        self.an = an
        self.cls = cls          # the concrete class `self` is an object of (resolution of self.<m>)
        self.owner = owner      # the class whose body contains `fn`
        self.fn = fn
        self.sess = set(sess)
        self.cur = cur
        self.self_names = self_names
        self.out = out if out is not None else Summary()
        self.loop = 0
        self.trydepth = 0
        self.cond = 0           # if / loop / try nesting since the current session block began
        self.where = "%s.%s" % (owner, fn.name)
        self.localdefs: dict[str, ast.FunctionDef] = {}
        self.bound: dict[str, list[ast.AST]] = dict(outer_bound or {})
        self.model_params: set[str] = set()
        self.subst = dict(subst or {})
        self.scope = an.next_scope
        an.next_scope += 1
        an.scopes[self.scope] = self
        self._collect(fn)

    # -- bindings -------------------------------------------------------------------------------------------------------
    def _collect(self, fn: ast.FunctionDef) -> None:
        for a in fn.args.args + fn.args.kwonlyargs:
            ann = _src(a.annotation) if a.annotation is not None else ""
            if "Model" in ann or (a.arg == "self" and self.an.is_model(self.owner)):
                self.model_params.add(a.arg)
            self.bound[a.arg] = []

        def visit(stmts: list[ast.stmt]) -> None:
            for st in stmts:
                if isinstance(st, ast.FunctionDef):
                    self.localdefs[st.name] = st
                    continue
                if isinstance(st, ast.Assign):
                    for t in st.targets:
                        for nm in self._names(t):
                            self.bound.setdefault(nm, []).append(st.value)
                elif isinstance(st, ast.AnnAssign) and st.value is not None:
                    for nm in self._names(st.target):
                        self.bound.setdefault(nm, []).append(st.value)
                elif isinstance(st, ast.For):
                    for nm in self._names(st.target):
                        self.bound.setdefault(nm, []).append(st.iter)
                elif isinstance(st, ast.With):
                    for it in st.items:
                        if it.optional_vars is not None:
                            for nm in self._names(it.optional_vars):
                                self.bound.setdefault(nm, []).append(it.context_expr)
                for fld in ("body", "orelse", "finalbody"):
                    sub = getattr(st, fld, None)
                    if isinstance(sub, list) and sub and isinstance(sub[0], ast.stmt):
                        visit(sub)
                for h in getattr(st, "handlers", []) or []:
                    visit(h.body)

        visit(fn.body)

    @staticmethod
    def _names(t: ast.AST) -> list[str]:
        if isinstance(t, ast.Name):
            return [t.id]
        if isinstance(t, (ast.Tuple, ast.List)):
            out: list[str] = []
            for e in t.elts:
                out += Walker._names(e)
            return out
        return []

    def canon(self, e: ast.AST) -> str:
        if isinstance(e, ast.Name):
            return self.subst.get(e.id, "%d:%s" % (self.scope, e.id))
        if isinstance(e, ast.Attribute):
            return self.canon(e.value) + "." + e.attr
        return "%d:<%s>" % (self.scope, _src(e))

    def model_bound(self, name: str, seen: set[str] | None = None) -> bool | None:
        """True: bound to an ORM object; False: bound to plain data; None: unknown name."""
        seen = seen or set()
        if name in seen:
            return False
        seen.add(name)
        if name in self.model_params:
            return True
        if name not in self.bound:
            return None
        for e in self.bound[name]:
            for n in ast.walk(e):
                if isinstance(n, ast.Name):
                    if n.id in self.sess or n.id in ("models", "cls"):
                        return True
                    if n.id != name and n.id in self.bound and self.model_bound(n.id, seen):
                        return True
        return False

    def rooted_in_session(self, node: ast.AST, depth: int = 0) -> bool:
        if depth > 8:
            return False
        if isinstance(node, ast.Name):
            if node.id in self.sess:
                return True
            return any(self.rooted_in_session(e, depth + 1) for e in self.bound.get(node.id, []))
        if isinstance(node, ast.Call):
            return self.rooted_in_session(node.func, depth + 1)
        if isinstance(node, ast.Attribute):
            return self.rooted_in_session(node.value, depth + 1)
        return False

    # -- effects -----------------------------------------------------------------------------------------------------------
    def note(self, kind: str, node: ast.AST, label: str) -> None:
        site = "%s@%s:%s" % (kind, getattr(node, "lineno", "?"), label)
        if kind == "ext":
            self.out.external.append("%s %s" % (self.where, site))
            return
        if self.cur is None:
            self.an.problem(self.where, node, "%s on a session outside every session block" % kind)
            return
        if kind == "w":
            self.cur.writes += 1
        elif kind == "flush":
            self.cur.flushes += 1
        elif kind == "commit":
            self.cur.commits += 1
        elif kind == "rollback":
            self.cur.rollbacks += 1
        elif kind == "nested":
            self.cur.nested += 1
        elif kind == "guard":
            self.cur.guards += 1
        elif kind == "unsafe-guard":
            self.cur.guards += 1
            self.cur.unsafe_guards += 1
        self.cur.sites.append(site)

    def stmt_words(self, node: ast.AST, depth: int = 0) -> set[str]:
        words: set[str] = set()
        if depth > 6:
            return words
        for n in ast.walk(node):
            if isinstance(n, ast.Attribute):
                words.add(n.attr)
            elif isinstance(n, ast.Name):
                words.add(n.id)
                for e in self.bound.get(n.id, []):
                    if e is not node:
                        words |= self.stmt_words(e, depth + 1)
        return words

    def passes_session(self, call: ast.Call) -> bool:
        args = list(call.args) + [k.value for k in call.keywords]
        return any(isinstance(a, ast.Name) and a.id in self.sess for a in args)

    def inline(self, cls: str, owner: str, fn: ast.FunctionDef, call: ast.Call, bound_self: bool) -> None:
        """A helper that is handed this block's session: walk its body as part of the block."""
        an = self.an
        if self.cur is None:
            an.problem(self.where, call, "a session is handed on outside every session block")
            return
        tag = (owner, fn.name)
        if tag in an.active:
            an.problem(self.where, call, "recursive call chain through %s.%s" % tag)
            return
        an.helper_seen.setdefault("%s.%s" % (owner, fn.name), (owner, fn))
        params = [a.arg for a in fn.args.args]
        decos = {d.id for d in fn.decorator_list if isinstance(d, ast.Name)}
        if bound_self and "staticmethod" not in decos and params and params[0] in ("self", "cls"):
            recv_param, params = params[0], params[1:]
        else:
            recv_param = None
        subst: dict[str, str] = {}
        sess: set[str] = set()
        for p, a in zip(params, call.args):
            subst[p] = self.canon(a)
            if isinstance(a, ast.Name) and a.id in self.sess:
                sess.add(p)
        for k in call.keywords:
            if k.arg is not None:
                subst[k.arg] = self.canon(k.value)
                if isinstance(k.value, ast.Name) and k.value.id in self.sess:
                    sess.add(k.arg)
        if recv_param is not None and isinstance(call.func, ast.Attribute):
            subst[recv_param] = self.canon(call.func.value)
        if not sess:
            an.problem(self.where, call, "cannot tell which parameter of `%s` receives the session" % fn.name)
        an.active.append(tag)
        sub = Walker(an, cls, owner, fn, sess, self.cur, ("self",), out=self.out, subst=subst)
        sub.loop, sub.trydepth, sub.cond = self.loop, self.trydepth, self.cond
        sub.run()
        an.active.pop()

    def guard_site(self, c: ast.Call, label: str) -> None:
        """`self.check_trial_is_updatable(<id>, <n>.state)` inside a block: dominating / covered / fresh / unsafe."""
        assert self.cur is not None
        subject = self.canon(c.args[0]) if c.args else "?"
        wellformed = False
        if len(c.args) >= 2 and isinstance(c.args[1], ast.Attribute) and c.args[1].attr == "state" and isinstance(c.args[1].value, ast.Name):
            n = c.args[1].value.id
            binds = self.bound.get(n, [])
            wellformed = bool(binds) and all(
                isinstance(b, ast.Call) and _src(b.func) == "models.TrialModel.find_or_raise_by_id" and b.args
                and self.canon(b.args[0]) == subject for b in binds)
        kind = None
        if wellformed and self.cond == 0 and self.cur.writes == 0 and self.cur.dominating is None:
            self.cur.dominating = subject
            kind = "dominating"
        elif wellformed and self.cur.dominating is not None and self.cur.dominating == subject:
            kind = "covered"
        elif wellformed and self.is_fresh(subject):
            kind = "fresh"
        if kind is None:
            self.note("unsafe-guard", c, "%s subject=%s" % (label, subject))
        else:
            self.note("guard", c, "%s %s subject=%s" % (label, kind, subject))

    def is_fresh(self, subject: str) -> bool:
        # "<scope>:<t>.trial_id" with <t> bound, in that scope, only from TrialModel(..., state=TrialState.RUNNING, ...)
        if not subject.endswith(".trial_id") or ":" not in subject:
            return False
        head = subject[: -len(".trial_id")]
        sc, _, name = head.partition(":")
        if not sc.isdigit() or "." in name or "<" in name:
            return False
        w = self.an.scopes.get(int(sc))
        if w is None or self.cur is None or head in self.cur.state_assigned:
            return False
        binds = w.bound.get(name, [])
        if not binds:
            return False

        def running(e: ast.AST, depth: int = 0) -> bool:
            if _src(e) == "TrialState.RUNNING":
                return True
            if isinstance(e, ast.Name) and depth < 3:
                bs = w.bound.get(e.id, [])
                return bool(bs) and all(running(b, depth + 1) for b in bs)
            return False

        for b in binds:
            if not (isinstance(b, ast.Call) and _src(b.func) == "models.TrialModel"):
                return False
            st = [k.value for k in b.keywords if k.arg == "state"]
            if len(st) != 1 or not running(st[0]):
                return False
        return True

    def apply_summary(self, sm: Summary, call: ast.Call, label: str, guard: bool) -> None:
        for e in sm.external:
            self.out.external.append(e)
        if not sm.blocks:
            return
        if self.cur is not None:
            # the callee re-opens the thread-local session: it runs inside this block's transaction and its exit
            # commits what this block wrote so far.  Its own effects are merged into this block.
            if guard:
                self.guard_site(call, label)
            else:
                for _ in sm.blocks:
                    self.note("nested", call, label)
            for b in sm.blocks:
                for k in ("writes", "flushes", "commits", "rollbacks", "nested"):
                    setattr(self.cur, k, getattr(self.cur, k) + getattr(b, k))
                self.cur.guards += b.guards
                self.cur.unsafe_guards += b.unsafe_guards
                self.cur.sites += ["%s>%s" % (label, x) for x in b.sites]
            return
        rep = "perItem" if self.loop > 0 else None
        for b in sm.blocks:
            self.out.blocks.append(b.copy(rep))

    def call(self, c: ast.Call) -> None:
        f = c.func
        an = self.an
        ps = self.passes_session(c)
        if isinstance(f, ast.Name):
            if f.id == "_create_scoped_session":
                an.problem(self.where, c, "`_create_scoped_session` used other than as `with ... as name:`")
            elif f.id in self.localdefs:
                sub = Walker(an, self.cls, self.owner, self.localdefs[f.id], self.sess, self.cur, self.self_names, out=self.out,
                             outer_bound=self.bound, subst=self.subst)
                sub.loop, sub.trydepth, sub.cond = self.loop, self.trydepth, self.cond
                sub.where = self.where + "." + f.id
                sub.run()
            elif ps:
                an.problem(self.where, c, "session handed to an unknown function")
            return
        if not isinstance(f, ast.Attribute):
            if ps:
                an.problem(self.where, c, "session handed to an unknown callable")
            return
        recv, m = f.value, f.attr
        # --- the engine / session factory handed to something else than `_create_scoped_session`
        for a in list(c.args) + [k.value for k in c.keywords]:
            if (isinstance(a, ast.Attribute) and isinstance(a.value, ast.Name) and a.value.id in self.self_names
                    and a.attr in ("engine", "scoped_session") and not an.is_model(self.owner)):
                an.problem(self.where, c, "`self.%s` is handed to `%s`" % (a.attr, _src(f)))
        # --- the session itself
        if isinstance(recv, ast.Name) and recv.id in self.sess:
            if m in S_WRITE:
                self.note("w", c, "session.%s" % m)
            elif m == "execute":
                words = self.stmt_words(c.args[0]) if c.args else set()
                if words & STMT_WRITE_WORDS:
                    self.note("w", c, "session.execute(%s)" % sorted(words & STMT_WRITE_WORDS)[0])
                elif words & STMT_READ_WORDS:
                    pass
                else:
                    an.problem(self.where, c, "cannot tell whether the executed statement writes")
            elif m in ("flush", "commit", "rollback"):
                self.note(m, c, "session.%s" % m)
            elif m in S_READ:
                pass
            else:
                an.problem(self.where, c, "unknown session method `%s`" % m)
            return
        # --- query.update(...) / query.delete(...)
        if m in ("update", "delete") and self.rooted_in_session(recv):
            self.note("w", c, "query.%s" % m)
            return
        # --- statements that change the database without a session
        root: ast.AST = recv
        while isinstance(root, (ast.Attribute, ast.Call)):
            root = root.value if isinstance(root, ast.Attribute) else root.func
        rootname = root.id if isinstance(root, ast.Name) else ""
        if (rootname == "alembic_command" or m in ("stamp", "create_all", "drop_all") or (m == "begin" and rootname == "connection")
                or (m in ("execute", "exec_driver_sql", "executemany") and not self.rooted_in_session(recv))):
            self.note("ext", c, _src(f))
            return
        # --- self.<method>(...) / storage.<method>(...) / cls.<method>(...) / models.<Class>.<method>(...)
        target_cls: str | None = None
        if isinstance(recv, ast.Name) and recv.id in self.self_names:
            target_cls = self.cls
        elif (isinstance(recv, ast.Attribute) and isinstance(recv.value, ast.Name) and recv.value.id in self.self_names
              and recv.attr == "_version_manager"):
            target_cls = "_VersionManager"
        elif isinstance(recv, ast.Name) and recv.id == "cls" and an.is_model(self.owner):
            target_cls = self.owner
        elif (isinstance(recv, ast.Attribute) and isinstance(recv.value, ast.Name) and recv.value.id == "models"
              and recv.attr in an.classes):
            target_cls = recv.attr
        if target_cls is not None:
            r = an.resolve(target_cls, m)
            if r is None:
                if ps:
                    an.problem(self.where, c, "session handed to an unresolved method `%s.%s`" % (target_cls, m))
                elif isinstance(recv, ast.Name) and recv.id in self.self_names and not an.is_model(self.owner):
                    an.problem(self.where, c, "unresolved method `%s.%s`" % (target_cls, m))
                return
            rcls, rfn = r
            if ps:
                self.inline(target_cls, rcls, rfn, c, bound_self=True)
            elif not an.is_model(rcls):
                sm = an.summary(target_cls, rcls, rfn)
                guard = bool(sm.blocks) and self.cur is not None and an.is_abort_guard(target_cls, rcls, rfn)
                self.apply_summary(sm, c, "%s.%s" % (rcls, m), guard)
            return
        if isinstance(recv, ast.Name) and recv.id == "models":
            if ps:
                an.problem(self.where, c, "session handed to a model constructor")
            return
        # --- <object>.<method>(..., session, ...)
        if ps:
            cands = an.resolve_model_method(m)
            if not cands:
                an.problem(self.where, c, "session handed to an unresolved method `%s`" % m)
                return
            effs = [an.effects(cc, cc, ff) for cc, ff in cands]
            key = {(e.writes, e.flushes, e.commits, e.rollbacks, e.nested, e.guards) for e in effs}
            if len(key) > 1:
                an.problem(self.where, c, "method `%s` has several definitions with different effects" % m)
            best = max(range(len(cands)), key=lambda i: (effs[i].writes, effs[i].commits, effs[i].nested))
            self.inline(cands[best][0], cands[best][0], cands[best][1], c, bound_self=True)
            return
        # --- engine / scoped_session used directly
        if (isinstance(recv, ast.Attribute) and isinstance(recv.value, ast.Name) and recv.value.id in self.self_names
                and recv.attr in ("scoped_session", "engine")):
            if (recv.attr, m) not in {("scoped_session", "remove"), ("engine", "connect"), ("engine", "dispose")}:
                an.problem(self.where, c, "`self.%s.%s` is used directly" % (recv.attr, m))
            return

    def expr(self, node: ast.AST | None) -> None:
        if node is None:
            return
        for n in ast.walk(node):
            if isinstance(n, ast.Call):
                self.call(n)
            elif isinstance(n, (ast.Yield, ast.YieldFrom, ast.Await)):
                self.an.problem(self.where, n, "generator / coroutine")

    def target(self, t: ast.AST, st: ast.stmt) -> None:
        if isinstance(t, (ast.Tuple, ast.List)):
            for e in t.elts:
                self.target(e, st)
            return
        if isinstance(t, ast.Attribute) and isinstance(t.value, ast.Name):
            nm = t.value.id
            if nm in self.self_names and not self.an.is_model(self.owner):
                return   # attribute of the storage object
            mb = self.model_bound(nm)
            if mb is None:
                self.an.problem(self.where, st, "attribute assignment on `%s`, whose binding is unknown" % nm)
            elif mb:
                if self.cur is None:
                    self.an.problem(self.where, st, "attribute of a model object assigned outside every session block")
                else:
                    self.note("w", st, "%s.%s=" % (nm, t.attr))
                    if t.attr == "state":
                        self.cur.state_assigned.add(self.canon(t.value))
        elif isinstance(t, ast.Attribute):
            self.an.problem(self.where, st, "attribute assignment on a compound expression")
        elif isinstance(t, ast.Subscript):
            self.expr(t.value)
            self.expr(t.slice)

    def is_scoped(self, e: ast.AST) -> bool:
        return isinstance(e, ast.Call) and isinstance(e.func, ast.Name) and e.func.id == "_create_scoped_session"

    def stmts(self, body: list[ast.stmt]) -> None:
        for st in body:
            self.stmt(st)

    def stmt(self, st: ast.stmt) -> None:
        an = self.an
        if isinstance(st, ast.FunctionDef):
            return
        if isinstance(st, ast.With):
            scoped = [it for it in st.items if self.is_scoped(it.context_expr)]
            if scoped:
                if len(st.items) != 1 or not isinstance(st.items[0].optional_vars, ast.Name):
                    an.problem(self.where, st, "session block of an unsupported form")
                    return
                c = st.items[0].context_expr
                assert isinstance(c, ast.Call)
                ok_arg = (len(c.args) >= 1 and isinstance(c.args[0], ast.Attribute) and isinstance(c.args[0].value, ast.Name)
                          and c.args[0].value.id in self.self_names and c.args[0].attr == "scoped_session")
                if not ok_arg:
                    an.problem(self.where, st, "session block not on `self.scoped_session`")
                ign = False
                extra = list(c.args[1:]) + [k.value for k in c.keywords]
                if extra:
                    if len(extra) == 1 and isinstance(extra[0], ast.Constant) and isinstance(extra[0].value, bool):
                        ign = bool(extra[0].value)
                    else:
                        an.problem(self.where, st, "unsupported arguments of `_create_scoped_session`")
                ends_return = isinstance(st.body[-1], ast.Return)
                jumps = any(isinstance(n, (ast.Break, ast.Continue)) for b in st.body for n in ast.walk(b))
                if self.loop == 0:
                    rep = "once"
                elif ends_return and not jumps and self.trydepth > 0:
                    rep = "retry"
                else:
                    rep = "perItem"
                blk = Block(st.lineno, ign, rep)
                name = st.items[0].optional_vars.id
                if self.cur is not None:
                    # a session block textually inside another one / inside a helper that holds a session
                    self.note("nested", st, "with _create_scoped_session")
                    blk.line = -st.lineno
                saved = (self.cur, set(self.sess), self.cond)
                self.cur = blk
                self.sess = self.sess | {name}
                self.cond = 0
                self.stmts(st.body)
                self.cur, self.sess, self.cond = saved
                self.out.blocks.append(blk)
                return
            for it in st.items:
                self.expr(it.context_expr)
            self.stmts(st.body)
            return
        if isinstance(st, (ast.For, ast.While)):
            self.expr(st.iter if isinstance(st, ast.For) else st.test)
            self.loop += 1
            self.cond += 1
            self.stmts(st.body)
            self.loop -= 1
            self.stmts(st.orelse)
            self.cond -= 1
            return
        if isinstance(st, ast.If):
            self.expr(st.test)
            self.cond += 1
            self.stmts(st.body)
            self.stmts(st.orelse)
            self.cond -= 1
            return
        if isinstance(st, ast.Try):
            self.trydepth += 1
            self.cond += 1
            self.stmts(st.body)
            self.trydepth -= 1
            for h in st.handlers:
                self.stmts(h.body)
            self.stmts(st.orelse)
            self.stmts(st.finalbody)
            self.cond -= 1
            return
        if isinstance(st, ast.Assign):
            self.expr(st.value)
            for t in st.targets:
                self.target(t, st)
            return
        if isinstance(st, ast.AnnAssign):
            self.expr(st.value)
            self.target(st.target, st)
            return
        if isinstance(st, ast.AugAssign):
            self.expr(st.value)
            self.target(st.target, st)
            return
        if isinstance(st, (ast.Expr, ast.Return)):
            self.expr(st.value)
            return
        if isinstance(st, ast.Raise):
            self.expr(st.exc)
            self.expr(st.cause)
            return
        if isinstance(st, ast.Assert):
            self.expr(st.test)
            return
        if isinstance(st, ast.Delete):
            for t in st.targets:
                self.expr(t)
            return
        if isinstance(st, (ast.Pass, ast.Break, ast.Continue, ast.Import, ast.ImportFrom)):
            return
        an.problem(self.where, st, "statement kind %s is not in the whitelist" % type(st).__name__)

    def run(self) -> None:
        self.stmts(self.fn.body)


# ---- the context manager itself ----------------------------------------------------------------------------------------
def ctx_shape(an: Analyzer) -> dict[str, bool]:
    res = {"commitAfterYield": False, "rollbackInEveryHandler": False, "catchesException": False, "closeInFinally": False, "nothingElse": False}
    fn = next((n for n in an.mods[STORAGE].body if isinstance(n, ast.FunctionDef) and n.name == "_create_scoped_session"), None)
    if fn is None:
        an.problems.append("`_create_scoped_session` not found")
        return res
    if not any(isinstance(d, ast.Name) and d.id == "contextmanager" for d in fn.decorator_list):
        an.problems.append("`_create_scoped_session` is not a @contextmanager")
        return res
    body = [s for s in fn.body if not (isinstance(s, ast.Expr) and isinstance(s.value, ast.Constant))]
    if len(body) != 2 or not isinstance(body[0], ast.Assign) or not isinstance(body[1], ast.Try):
        an.problems.append("`_create_scoped_session`: body is not `session = ...; try: ...`")
        return res
    asg, tr = body
    sname = asg.targets[0].id if isinstance(asg.targets[0], ast.Name) else None
    if sname is None or _src(asg.value) != "scoped_session()":
        an.problems.append("`_create_scoped_session`: session is not `scoped_session()`")
        return res

    def is_call(st: ast.stmt, meth: str) -> bool:
        return (isinstance(st, ast.Expr) and isinstance(st.value, ast.Call) and isinstance(st.value.func, ast.Attribute)
                and isinstance(st.value.func.value, ast.Name) and st.value.func.value.id == sname and st.value.func.attr == meth
                and not st.value.args and not st.value.keywords)

    def is_yield(st: ast.stmt) -> bool:
        return isinstance(st, ast.Expr) and isinstance(st.value, ast.Yield) and isinstance(st.value.value, ast.Name) and st.value.value.id == sname

    res["commitAfterYield"] = len(tr.body) == 2 and is_yield(tr.body[0]) and is_call(tr.body[1], "commit")
    res["rollbackInEveryHandler"] = bool(tr.handlers) and all(h.body and is_call(h.body[0], "rollback") for h in tr.handlers)
    res["catchesException"] = any(h.type is None or (isinstance(h.type, ast.Name) and h.type.id in ("Exception", "BaseException")) for h in tr.handlers)
    res["closeInFinally"] = len(tr.finalbody) == 1 and is_call(tr.finalbody[0], "close")
    # no other use of the session: every remaining Name `session` occurrence is one of the above
    uses = sum(1 for n in ast.walk(fn) if isinstance(n, ast.Name) and n.id == sname)
    expected = 1 + 1 + 1 + len(tr.handlers) + 1   # assignment, yield, commit, rollbacks, close
    res["nothingElse"] = uses == expected and not tr.orelse
    return res


# ---- top level -----------------------------------------------------------------------------------------------------------
def translate(repo: str | None = None) -> tuple[str, dict[str, Any], list[str]]:
    an = Analyzer(repo or core.REPO)
    ctx = ctx_shape(an)
    methods: list[dict[str, Any]] = []
    if "RDBStorage" not in an.classes:
        an.problems.append("class RDBStorage not found")
    cdef = next((n for n in an.mods[STORAGE].body if isinstance(n, ast.ClassDef) and n.name == "RDBStorage"), None)
    own_helpers: list[ast.FunctionDef] = []
    for fn in (cdef.body if cdef is not None else []):
        if not isinstance(fn, ast.FunctionDef) or fn.name in SKIP:
            continue
        decos = {d.id for d in fn.decorator_list if isinstance(d, ast.Name)}
        if "property" in decos:
            continue
        params = [a.arg for a in fn.args.args + fn.args.kwonlyargs]
        if "session" in params:
            own_helpers.append(fn)
            continue
        sm = an.summary("RDBStorage", "RDBStorage", fn)
        public = (not fn.name.startswith("_")) or fn.name in EXTRA_PUBLIC
        methods.append({"name": fn.name, "public": public, "blocks": [b.as_dict() for b in sm.blocks], "external": sm.external})
    # the composite: `fail_stale_trials(study)` = a sequence / loop of storage calls
    composites: list[dict[str, Any]] = []
    fst = next((n for n in an.mods[HEART].body if isinstance(n, ast.FunctionDef) and n.name == "fail_stale_trials"), None)
    if fst is None:
        an.problems.append("fail_stale_trials not found in %s" % HEART)
    else:
        w = Walker(an, "RDBStorage", "RDBStorage", fst, sess=set(), cur=None, self_names=("storage",))
        w.where = "fail_stale_trials"
        w.run()
        composites.append({"name": "fail_stale_trials", "public": True, "blocks": [b.as_dict() for b in w.out.blocks], "external": w.out.external})
    # helpers that are handed a session: context-free counts (for the record; the blocks above inline them per call site)
    helpers: list[dict[str, Any]] = []
    todo = [("RDBStorage." + f.name, ("RDBStorage", f)) for f in own_helpers]
    todo += [(k, v) for k, v in sorted(an.helper_seen.items()) if not k.startswith("RDBStorage.")]
    for name, (owner, f) in todo:
        e = an.effects(owner if an.is_model(owner) else "RDBStorage", owner, f)
        helpers.append({"name": name, "writes": e.writes, "flushes": e.flushes, "commits": e.commits, "rollbacks": e.rollbacks,
                        "nested": e.nested, "guards": e.guards, "sites": e.sites})
    table = {"ctx": ctx, "methods": methods, "helpers": helpers, "composites": composites}
    return render(table), table, an.problems


def _lean_block(b: dict[str, Any]) -> str:
    return ("{ writes := %d, flushes := %d, commits := %d, rollbacks := %d, nested := %d, guards := %d, guardsSafe := %s, rep := .%s, ignoreIntegrity := %s }"
            % (b["writes"], b["flushes"], b["commits"], b["rollbacks"], b["nested"], b["guards"], "true" if b["guards_safe"] else "false",
               b["rep"], "true" if b["ignore_integrity"] else "false"))


def _lean_method(m: dict[str, Any]) -> str:
    return ('  { name := "%s", isPublic := %s, external := %d,\n    blocks := [%s] }'
            % (m["name"], "true" if m["public"] else "false", len(m["external"]), ",\n               ".join(_lean_block(b) for b in m["blocks"])))


def render(t: dict[str, Any]) -> str:
    L = ["import OptunaVerif.Model.Txn",
         "/-! GENERATED by verif/translators/tsession.py from optuna/storages/_rdb/{storage,models}.py, _base.py and",
         "_heartbeat.py on every check run — do not edit.  One entry per method of `RDBStorage`: its",
         "`with _create_scoped_session(...)` blocks in textual order (helpers that receive the session inlined,",
         "methods that open their own session appended and counted as `guards` / `nested` of the enclosing block). -/",
         "namespace OptunaVerif.Generated.RdbSessions", "open OptunaVerif.Txn", ""]
    c = t["ctx"]
    L.append("/-- the shape of `_create_scoped_session` -/")
    L.append("def ctx : Ctx := { " + ", ".join("%s := %s" % (k, "true" if c[k] else "false") for k in
             ("commitAfterYield", "rollbackInEveryHandler", "catchesException", "closeInFinally", "nothingElse")) + " }")
    L.append("")
    L.append("def methods : List Method := [")
    L.append(",\n".join(_lean_method(m) for m in t["methods"]))
    L.append("]\n")
    L.append("/-- functions that are handed the caller's session (context-free counts) -/")
    L.append("def helpers : List Helper := [")
    L.append(",\n".join('  { name := "%s", writes := %d, flushes := %d, commits := %d, rollbacks := %d, guards := %d, nested := %d }'
                        % (h["name"], h["writes"], h["flushes"], h["commits"], h["rollbacks"], h["guards"], h["nested"]) for h in t["helpers"]))
    L.append("]\n")
    L.append("/-- study-level functions that are a sequence / loop of storage calls -/")
    L.append("def composites : List Method := [")
    L.append(",\n".join(_lean_method(m) for m in t["composites"]))
    L.append("]\n")
    L.append("end OptunaVerif.Generated.RdbSessions")
    return "\n".join(L) + "\n"


def regenerate(chk: core.Check | None = None) -> dict[str, Any]:
    text, table, problems = translate()
    core.write_if_changed(os.path.join(core.LEAN_DIR, "OptunaVerif", "Generated", "RdbSessions.lean"), text)
    table["problems"] = problems
    if chk is not None:
        nw = sum(1 for m in table["methods"] if m["public"] and (m["external"] or any(b["writes"] for b in m["blocks"])))
        line = ("RdbSessions: %d methods of RDBStorage (%d public writers), %d session helpers, %d composite(s)"
                % (len(table["methods"]), nw, len(table["helpers"]), len(table["composites"])))
        if line not in chk.translated:
            chk.translated.append(line)
            for p in problems:
                chk.broke("translation", {"tsession": p})
    return table


if __name__ == "__main__":
    import json
    import sys

    text, table, problems = translate(sys.argv[1] if len(sys.argv) > 1 else None)
    print(text)
    print(json.dumps(problems, indent=1))
    if "-v" in sys.argv:
        for m in table["methods"] + table["composites"]:
            for b in m["blocks"]:
                print(m["name"], b["line"], b["sites"])
