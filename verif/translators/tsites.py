"""T-sites (C13): inventory of every syntactic use of the study direction in the code that decides
parameters, pruning and the best trial, emitted as a Lean table.

Scope: every .py under optuna/samplers, optuna/pruners, optuna/_hypervolume, plus
optuna/study/_multi_objective.py, `Study.best_trial` in optuna/study/study.py and
`InMemoryStorage._update_cache` (the best-trial cache the paired runs observe).

A *direction token* is
  * `StudyDirection.<X>` / a bare `StudyDirection` name,
  * an attribute `.direction`, `.directions`, `._directions`,
  * a name `direction`, `directions`, `study_direction`, `_directions`, `d` bound by a comprehension over directions,
  * a parameter or keyword argument with one of those names.
Each token is classified by the smallest enclosing construct:
  annotation | param | import | alias (assignment of a direction value) | len | iter (for / comprehension /
  zip over directions) | arg:<callee> (passed on unchanged) | kw:<callee> | cmp (a comparison with a
  `StudyDirection` constant; the unit is the *whole enclosing statement or conditional expression*, whose
  normalised source text is recorded, so an edit of either branch changes the site) | other (anything else:
  never allowed).
Sites are de-duplicated per unit.  Output: lean/OptunaVerif/Generated/DirectionSites.lean.
"""
from __future__ import annotations

import ast
import os
from typing import Any

from verif import core

SCOPE_DIRS = ["optuna/samplers", "optuna/pruners", "optuna/_hypervolume"]
SCOPE_FILES = ["optuna/study/_multi_objective.py"]
SCOPE_FUNCS = {"optuna/study/study.py": {"Study.best_trial"}, "optuna/storages/_in_memory.py": {"InMemoryStorage._update_cache"}}

DIR_ATTRS = {"direction", "directions", "_directions"}
DIR_NAMES = {"direction", "directions", "study_direction", "_directions"}
OUT = os.path.join(core.LEAN_DIR, "OptunaVerif", "Generated", "DirectionSites.lean")


def _files(repo: str) -> list[str]:
    out = []
    for d in SCOPE_DIRS:
        for dp, _, fs in os.walk(os.path.join(repo, d)):
            for f in fs:
                if f.endswith(".py"):
                    out.append(os.path.relpath(os.path.join(dp, f), repo))
    out += SCOPE_FILES + list(SCOPE_FUNCS)
    return sorted(set(out))


def _callee(call: ast.Call) -> str:
    f = call.func
    if isinstance(f, ast.Name):
        return f.id
    if isinstance(f, ast.Attribute):
        return f.attr
    return "<expr>"


def _is_sd_const(n: ast.AST) -> bool:
    return isinstance(n, ast.Attribute) and isinstance(n.value, ast.Name) and n.value.id == "StudyDirection"


class _Inv:
    def __init__(self, rel: str, tree: ast.AST, only: set[str] | None) -> None:
        self.rel = rel
        self.only = only
        self.sites: list[tuple[str, str, str, str]] = []
        self.seen_units: set[int] = set()
        self.parent: dict[int, ast.AST] = {}
        self.qual: dict[int, str] = {}
        self.comp_dir_vars: dict[int, set[str]] = {}
        self._index(tree, None, "<module>")
        self.tree = tree

    def _index(self, node: ast.AST, parent: ast.AST | None, qual: str) -> None:
        if parent is not None:
            self.parent[id(node)] = parent
        if isinstance(node, (ast.FunctionDef, ast.AsyncFunctionDef, ast.ClassDef)):
            qual = node.name if qual == "<module>" else qual + "." + node.name
        self.qual[id(node)] = qual
        for ch in ast.iter_child_nodes(node):
            self._index(ch, node, qual)

    # -- helpers ---------------------------------------------------------------------------
    def _emit(self, node: ast.AST, kind: str, text: str = "", unit: ast.AST | None = None) -> None:
        q = self.qual[id(node)]
        if self.only is not None and not any(q == o or q.startswith(o + ".") for o in self.only):
            return
        u = unit if unit is not None else node
        key = id(u)
        if key in self.seen_units:
            return
        self.seen_units.add(key)
        self.sites.append((self.rel, q, kind, text))

    def _in_annotation(self, node: ast.AST) -> bool:
        cur = node
        while id(cur) in self.parent:
            p = self.parent[id(cur)]
            if isinstance(p, ast.arg) and p.annotation is cur:
                return True
            if isinstance(p, (ast.FunctionDef, ast.AsyncFunctionDef)) and p.returns is cur:
                return True
            if isinstance(p, ast.AnnAssign) and p.annotation is cur:
                return True
            if isinstance(p, ast.stmt):
                return False
            cur = p
        return False

    def _stmt_of(self, node: ast.AST) -> ast.AST:
        cur = node
        while not isinstance(cur, ast.stmt) and id(cur) in self.parent:
            cur = self.parent[id(cur)]
        return cur

    def _fallthrough(self, st: ast.If) -> str:
        """An `if` without `else` whose branch is completed by the statements that follow it in the same
        block (`if d == MAX: return a` / `return b`): append up to three of them."""
        if st.orelse:
            return ""
        par = self.parent.get(id(st))
        for field in ("body", "orelse", "finalbody"):
            block = getattr(par, field, None)
            if isinstance(block, list) and any(x is st for x in block):
                i = [k for k, x in enumerate(block) if x is st][0]
                rest = block[i + 1:i + 4]
                return "".join("\n" + ast.unparse(x) for x in rest)
        return ""

    def _comp_vars(self, node: ast.AST) -> set[str]:
        """names bound by enclosing comprehensions that iterate over a directions value"""
        out: set[str] = set()
        cur = node
        while id(cur) in self.parent:
            cur = self.parent[id(cur)]
            if isinstance(cur, (ast.ListComp, ast.GeneratorExp, ast.SetComp, ast.DictComp)):
                for g in cur.generators:
                    if self._mentions_dirs(g.iter):
                        for t in ast.walk(g.target):
                            if isinstance(t, ast.Name):
                                out.add(t.id)
        return out

    def _mentions_dirs(self, n: ast.AST) -> bool:
        for x in ast.walk(n):
            if isinstance(x, ast.Attribute) and x.attr in ("directions", "_directions"):
                return True
            if isinstance(x, ast.Name) and x.id in ("directions", "_directions"):
                return True
        return False

    def _is_dir_value(self, n: ast.AST) -> bool:
        if isinstance(n, ast.Attribute) and n.attr in DIR_ATTRS:
            return True
        if isinstance(n, ast.Name) and (n.id in DIR_NAMES or n.id in self._comp_vars(n)):
            return True
        if isinstance(n, ast.Subscript) and self._is_dir_value(n.value):
            return True
        return False

    def classify(self, tok: ast.AST) -> None:
        if self._in_annotation(tok):
            self._emit(tok, "annotation")
            return
        p = self.parent.get(id(tok))
        # climb through Subscript (directions[0]) – still a direction value
        cur = tok
        while isinstance(p, ast.Subscript) and p.value is cur:
            cur, p = p, self.parent.get(id(p))
        if isinstance(p, ast.Compare):
            sides = [p.left] + list(p.comparators)
            if any(_is_sd_const(s) for s in sides) and len(p.ops) == 1 and isinstance(p.ops[0], (ast.Eq, ast.NotEq, ast.Is, ast.IsNot)):
                # the unit is the enclosing if-statement / conditional expression
                up = self.parent.get(id(p))
                node: ast.AST = p
                while up is not None and not isinstance(up, (ast.If, ast.IfExp, ast.stmt)):
                    node, up = up, self.parent.get(id(up))
                if isinstance(up, ast.IfExp) and up.test is node or isinstance(up, ast.IfExp) and any(x is p for x in ast.walk(up.test)):
                    # conditional expression: record the smallest statement that contains it
                    st = self._stmt_of(up)
                    self._emit(p, "cmp", ast.unparse(st), unit=st)
                    return
                if isinstance(up, ast.If) and any(x is p for x in ast.walk(up.test)):
                    self._emit(p, "cmp", ast.unparse(up) + self._fallthrough(up), unit=up)
                    return
                st = self._stmt_of(p)
                self._emit(p, "other", ast.unparse(st), unit=st)
                return
        if _is_sd_const(tok) or (isinstance(tok, ast.Name) and tok.id == "StudyDirection"):
            st = self._stmt_of(tok)
            self._emit(tok, "other", ast.unparse(st), unit=st)
            return
        if isinstance(p, ast.Call):
            if cur in p.args:
                name = _callee(p)
                if name == "len":
                    self._emit(tok, "len")
                elif name in ("zip", "enumerate", "list", "tuple"):
                    self._emit(tok, "iter")
                else:
                    self._emit(tok, "arg:" + name)
                return
        if isinstance(p, ast.keyword):
            call = self.parent.get(id(p))
            self._emit(tok, "kw:" + (_callee(call) if isinstance(call, ast.Call) else "?"))
            return
        if isinstance(p, ast.Assign) and p.value is cur:
            self._emit(tok, "alias")
            return
        if isinstance(p, ast.comprehension) and p.iter is cur:
            self._emit(tok, "iter")
            return
        if isinstance(p, ast.For) and p.iter is cur:
            self._emit(tok, "iter")
            return
        if isinstance(p, ast.Return) and p.value is cur:
            self._emit(tok, "return")
            return
        if isinstance(p, ast.Tuple) and isinstance(self.parent.get(id(p)), (ast.Assign, ast.Return)):
            self._emit(tok, "alias")
            return
        st = self._stmt_of(tok)
        self._emit(tok, "other", ast.unparse(st), unit=tok)

    def run(self) -> None:
        for node in ast.walk(self.tree):
            if isinstance(node, ast.ImportFrom) and any(a.name == "StudyDirection" for a in node.names):
                self._emit(node, "import")
            elif isinstance(node, ast.arg) and node.arg in DIR_NAMES:
                self._emit(node, "param")
            elif isinstance(node, ast.keyword) and node.arg in DIR_NAMES and not self._is_dir_value(node.value):
                st = self._stmt_of(node)
                self._emit(node, "other", ast.unparse(st))
            elif _is_sd_const(node):
                self.classify(node)
            elif isinstance(node, ast.Name) and node.id == "StudyDirection":
                par = self.parent.get(id(node))
                if not (isinstance(par, ast.Attribute) and par.value is node):
                    self.classify(node)
            elif isinstance(node, ast.Attribute) and node.attr in DIR_ATTRS and isinstance(node.ctx, ast.Load):
                self.classify(node)
            elif isinstance(node, ast.Name) and isinstance(node.ctx, ast.Load) and (node.id in DIR_NAMES or node.id in self._comp_vars(node)):
                self.classify(node)
            elif isinstance(node, ast.Constant) and isinstance(node.value, str) and node.value in ("maximize", "minimize", "MAXIMIZE", "MINIMIZE"):
                par = self.parent.get(id(node))
                if not isinstance(par, ast.Expr):  # not a docstring
                    st = self._stmt_of(node)
                    self._emit(node, "other", ast.unparse(st))


def inventory(repo: str | None = None) -> list[tuple[str, str, str, str]]:
    repo = repo or core.REPO
    sites: list[tuple[str, str, str, str]] = []
    for rel in _files(repo):
        path = os.path.join(repo, rel)
        tree = ast.parse(open(path).read())
        inv = _Inv(rel, tree, SCOPE_FUNCS.get(rel))
        inv.run()
        sites += inv.sites
    # one entry per (file, function, kind, text) with multiplicity folded in
    counted: dict[tuple[str, str, str, str], int] = {}
    for s in sites:
        counted[s] = counted.get(s, 0) + 1
    # hand-on sites carry their multiplicity ("x2": the callee receives a direction value at two call sites of this
    # function); `cmp` / `other` units are textual; for the remaining kinds the multiplicity is irrelevant
    return sorted((f, q, k, ("x%d" % n if k.startswith("arg:") else t)) for (f, q, k, t), n in counted.items())


def lean_str(s: str) -> str:
    out = []
    for ch in s:
        if ch == "\\":
            out.append("\\\\")
        elif ch == '"':
            out.append('\\"')
        elif ch == "\n":
            out.append("\\n")
        elif ch == "\t":
            out.append("\\t")
        elif ord(ch) < 32 or ord(ch) > 126:
            out.append("\\u{%x}" % ord(ch))
        else:
            out.append(ch)
    return '"' + "".join(out) + '"'


KIND_CODES = {"annotation": 0, "param": 1, "import": 2, "alias": 3, "len": 4, "iter": 5, "arg": 6, "cmp": 7, "other": 8, "kw": 9, "return": 10}


def key_of(*parts: str) -> int:
    """60-bit content key (SHA-1 prefix).  Lean compares these numbers (kernel string equality on a 300-character
    statement takes seconds); the strings themselves are emitted next to them for the reader and for the replay."""
    import hashlib

    return int(hashlib.sha1("\x00".join(parts).encode()).hexdigest()[:15], 16)


def site_key(s: tuple[str, str, str, str]) -> int:
    return key_of(*s)


def kind_code(kind: str) -> tuple[int, int]:
    base = kind.split(":", 1)[0]
    callee = kind.split(":", 1)[1] if ":" in kind else ""
    return KIND_CODES.get(base, 8), (key_of(callee) if callee else 0)


def render(sites: list[tuple[str, str, str, str]]) -> str:
    lines = [
        "/- GENERATED by verif/translators/tsites.py from the optuna source tree on every run of ./check C13.",
        "   Do not edit.  One entry per syntactic use of the study direction: (file, enclosing function, kind, text)",
        "   for the reader, and the numbers the obligations compare: kind code (0 annotation 1 param 2 import 3 alias",
        "   4 len 5 iter 6 arg 7 cmp 8 other 9 kw 10 return), content key of the callee name (kind arg/kw) and",
        "   content key of the whole entry (60-bit SHA-1 prefix of file, function, kind, text). -/",
        "namespace OptunaVerif.Generated.DirectionSites",
        "",
        "structure Site where",
        "  file : String",
        "  func : String",
        "  kind : String",
        "  text : String",
        "  kindCode : Nat",
        "  calleeKey : Nat",
        "  key : Nat",
        "",
        "def sites : List Site := [",
    ]
    body = []
    for s in sites:
        kc, ck = kind_code(s[2])
        body.append("  ⟨%s, %s, %s, %s, %d, %d, %d⟩" % (tuple(lean_str(x) for x in s) + (kc, ck, site_key(s))))
    lines.append(",\n".join(body))
    lines += ["]", "", "end OptunaVerif.Generated.DirectionSites", ""]
    return "\n".join(lines)


def generate(chk: Any | None = None, repo: str | None = None) -> list[tuple[str, str, str, str]]:
    sites = inventory(repo)
    changed = core.write_if_changed(OUT, render(sites))
    if chk is not None:
        chk.translated.append("T-sites: %d direction sites in %d files -> lean/OptunaVerif/Generated/DirectionSites.lean%s" % (
            len(sites), len({s[0] for s in sites}), " (changed)" if changed else ""))
    return sites


if __name__ == "__main__":
    import sys
    for s in inventory(sys.argv[1] if len(sys.argv) > 1 else None):
        print(s)
